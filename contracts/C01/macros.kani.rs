// C01 -- every arm of key_var! / metadata_var! / describe! as reached through the public macros
// counter!/gauge!/histogram!/describe_*! (metrics/src/macros.rs): the recorder in scope sees exactly ONE call
// carrying exactly what the call site spelled: name, labels (in order), level, target, module path, unit,
// description.  A second, outer recorder must see nothing (innermost local recorder wins).
// Strings are short literals / selected constants (no format!/String building under Kani: measured blow-up);
// parametricity in the string *contents* is assumed.
use crate::{
    Counter, Gauge, Histogram, Key, KeyName, Label, Level, Metadata, Recorder, SharedString, Unit,
};
use std::cell::Cell;

pub const OP_REG_COUNTER: u8 = 1;
pub const OP_REG_GAUGE: u8 = 2;
pub const OP_REG_HISTOGRAM: u8 = 3;
pub const OP_DESC_COUNTER: u8 = 4;
pub const OP_DESC_GAUGE: u8 = 5;
pub const OP_DESC_HISTOGRAM: u8 = 6;

/// what the call site spelled
pub struct Expect {
    pub name: &'static str,
    pub labels: &'static [(&'static str, &'static str)],
    pub level: Level,
    pub target: &'static str,
    pub module: &'static str,
    pub unit: Option<Unit>,
    pub desc: &'static str,
}

/// recording double: compares what it receives with `exp` in place and keeps the verdicts
pub struct Spy {
    pub exp: Expect,
    pub calls: Cell<u8>,
    pub op: Cell<u8>,
    pub name_ok: Cell<bool>,
    pub labels_ok: Cell<bool>,
    pub nlabels: Cell<usize>,
    pub level_ok: Cell<bool>,
    pub target_ok: Cell<bool>,
    pub module_ok: Cell<bool>,
    pub unit_ok: Cell<bool>,
    pub desc_ok: Cell<bool>,
}
impl Spy {
    pub fn new(exp: Expect) -> Self {
        Spy {
            exp,
            calls: Cell::new(0), op: Cell::new(0),
            name_ok: Cell::new(false), labels_ok: Cell::new(false), nlabels: Cell::new(usize::MAX),
            level_ok: Cell::new(false), target_ok: Cell::new(false), module_ok: Cell::new(false),
            unit_ok: Cell::new(false), desc_ok: Cell::new(false),
        }
    }
    /// a recorder that must not be reached at all
    pub fn silent() -> Self {
        Spy::new(Expect { name: "", labels: &[], level: Level::INFO, target: "", module: "", unit: None, desc: "" })
    }
    fn reg(&self, op: u8, key: &Key, md: &Metadata<'_>) {
        self.calls.set(self.calls.get() + 1);
        self.op.set(op);
        self.name_ok.set(key.name() == self.exp.name);
        let mut n = 0usize;
        let mut ok = true;
        for l in key.labels() {
            if n < self.exp.labels.len() {
                let (k, v) = self.exp.labels[n];
                if l.key() != k || l.value() != v {
                    ok = false;
                }
            } else {
                ok = false;
            }
            n += 1;
        }
        self.nlabels.set(n);
        self.labels_ok.set(ok && n == self.exp.labels.len());
        self.level_ok.set(*md.level() == self.exp.level);
        self.target_ok.set(md.target() == self.exp.target);
        self.module_ok.set(md.module_path() == Some(self.exp.module));
    }
    fn desc(&self, op: u8, key: KeyName, unit: Option<Unit>, d: SharedString) {
        self.calls.set(self.calls.get() + 1);
        self.op.set(op);
        self.name_ok.set(key.as_str() == self.exp.name);
        self.unit_ok.set(unit == self.exp.unit);
        let d: &str = &d;
        self.desc_ok.set(d == self.exp.desc);
    }
    /// exactly one registration call of kind `op`, carrying exactly the expected content
    pub fn assert_registered(&self, op: u8) {
        assert!(self.calls.get() == 1, "exactly one call");
        assert!(self.op.get() == op, "the recorder method matching the macro");
        assert!(self.name_ok.get(), "name as spelled");
        assert!(self.nlabels.get() == self.exp.labels.len(), "label count");
        assert!(self.labels_ok.get(), "labels as spelled, in order");
        assert!(self.level_ok.get(), "level as spelled");
        assert!(self.target_ok.get(), "target as spelled");
        assert!(self.module_ok.get(), "module path of the call site");
    }
    pub fn assert_described(&self, op: u8) {
        assert!(self.calls.get() == 1, "exactly one call");
        assert!(self.op.get() == op, "the recorder method matching the macro");
        assert!(self.name_ok.get(), "name as spelled");
        assert!(self.unit_ok.get(), "unit as spelled");
        assert!(self.desc_ok.get(), "description as spelled");
    }
}
impl Recorder for Spy {
    fn describe_counter(&self, k: KeyName, u: Option<Unit>, d: SharedString) {
        self.desc(OP_DESC_COUNTER, k, u, d)
    }
    fn describe_gauge(&self, k: KeyName, u: Option<Unit>, d: SharedString) {
        self.desc(OP_DESC_GAUGE, k, u, d)
    }
    fn describe_histogram(&self, k: KeyName, u: Option<Unit>, d: SharedString) {
        self.desc(OP_DESC_HISTOGRAM, k, u, d)
    }
    fn register_counter(&self, k: &Key, m: &Metadata<'_>) -> Counter {
        self.reg(OP_REG_COUNTER, k, m);
        Counter::noop()
    }
    fn register_gauge(&self, k: &Key, m: &Metadata<'_>) -> Gauge {
        self.reg(OP_REG_GAUGE, k, m);
        Gauge::noop()
    }
    fn register_histogram(&self, k: &Key, m: &Metadata<'_>) -> Histogram {
        self.reg(OP_REG_HISTOGRAM, k, m);
        Histogram::noop()
    }
}

const HERE: &str = module_path!();
const NO_LABELS: &[(&str, &str)] = &[];
const L1: &[(&str, &str)] = &[("k1", "v1")];
const L2: &[(&str, &str)] = &[("k1", "v1"), ("k2", "v2")];
const L2_REV: &[(&str, &str)] = &[("k2", "v2"), ("k1", "v1")];

fn exp(name: &'static str, labels: &'static [(&'static str, &'static str)], level: Level, target: &'static str) -> Expect {
    Expect { name, labels, level, target, module: HERE, unit: None, desc: "" }
}

/// the same argument tokens through counter! / gauge! / histogram!, selected by `kind` (0, 1, 2)
macro_rules! emit3 {
    ($kind:expr; $($args:tt)*) => {
        match $kind {
            0 => { let _h = crate::counter!($($args)*); }
            1 => { let _h = crate::gauge!($($args)*); }
            _ => { let _h = crate::histogram!($($args)*); }
        }
    };
}
/// runs `$body` with `inner` as the innermost local recorder inside `outer`, then checks `outer` saw nothing
macro_rules! scoped {
    ($inner:expr, $body:block) => {{
        let outer = Spy::silent();
        crate::with_local_recorder(&outer, || {
            crate::with_local_recorder($inner, || $body);
        });
        assert!(outer.calls.get() == 0, "an outer recorder must not see the emission");
    }};
}

fn name_of(sel: bool) -> &'static str {
    if sel { "na" } else { "nb" }
}

// key_var! arm 1: ($name: literal)  -- static key, default target (= module path) and level INFO
pub fn c01_macro_key_literal_body(kind: u8) {
    kani::assume(kind < 3);
    let spy = Spy::new(exp("nm", NO_LABELS, Level::INFO, HERE));
    scoped!(&spy, { emit3!(kind; "nm") });
    spy.assert_registered(OP_REG_COUNTER + kind);
}
#[cfg(kani)]
#[kani::proof]
fn c01_macro_key_literal() {
    c01_macro_key_literal_body(kani::any());
}

// key_var! arm 2: ($name: expr)  -- computed &'static str and owned String names
pub fn c01_macro_key_expr_body(kind: u8, sel: bool, owned: bool) {
    kani::assume(kind < 3);
    let spy = Spy::new(exp(name_of(sel), NO_LABELS, Level::INFO, HERE));
    if owned {
        let n: String = String::from(name_of(sel));
        scoped!(&spy, { emit3!(kind; n) });
    } else {
        scoped!(&spy, { emit3!(kind; name_of(sel)) });
    }
    spy.assert_registered(OP_REG_COUNTER + kind);
}
#[cfg(kani)]
#[kani::proof]
fn c01_macro_key_expr() {
    c01_macro_key_expr_body(kani::any(), kani::any(), kani::any());
}

// key_var! arm 3: ($name: literal, $k: literal => $v: literal, ...)  -- static key with static labels, order kept
pub fn c01_macro_key_literal_labels_body(kind: u8, two: bool) {
    kani::assume(kind < 3);
    if two {
        let spy = Spy::new(exp("nm", L2_REV, Level::INFO, HERE));
        scoped!(&spy, { emit3!(kind; "nm", "k2" => "v2", "k1" => "v1") });
        spy.assert_registered(OP_REG_COUNTER + kind);
    } else {
        let spy = Spy::new(exp("nm", L1, Level::INFO, HERE));
        scoped!(&spy, { emit3!(kind; "nm", "k1" => "v1",) }); // trailing comma form
        spy.assert_registered(OP_REG_COUNTER + kind);
    }
}
#[cfg(kani)]
#[kani::proof]
fn c01_macro_key_literal_labels() {
    c01_macro_key_literal_labels_body(kani::any(), kani::any());
}

// key_var! arm 4: ($name: expr, $k: literal => $v: literal, ...)  -- computed name, static labels
pub fn c01_macro_key_expr_static_labels_body(kind: u8, sel: bool) {
    kani::assume(kind < 3);
    let spy = Spy::new(exp(name_of(sel), L2, Level::INFO, HERE));
    scoped!(&spy, { emit3!(kind; name_of(sel), "k1" => "v1", "k2" => "v2") });
    spy.assert_registered(OP_REG_COUNTER + kind);
}
#[cfg(kani)]
#[kani::proof]
fn c01_macro_key_expr_static_labels() {
    c01_macro_key_expr_static_labels_body(kani::any(), kani::any());
}

// key_var! arm 5: ($name: expr, $k: expr => $v: expr, ...)  -- computed label keys / values (constants, variables)
const K1: &str = "k1";
pub fn c01_macro_key_expr_labels_body(kind: u8, sel: bool, lit_name: bool) {
    kani::assume(kind < 3);
    let v2: &'static str = "v2";
    if lit_name {
        let spy = Spy::new(exp("nm", L2, Level::INFO, HERE));
        scoped!(&spy, { emit3!(kind; "nm", K1 => "v1", "k2" => v2) });
        spy.assert_registered(OP_REG_COUNTER + kind);
    } else {
        let spy = Spy::new(exp(name_of(sel), L2, Level::INFO, HERE));
        scoped!(&spy, { emit3!(kind; name_of(sel), K1 => "v1", "k2" => v2) });
        spy.assert_registered(OP_REG_COUNTER + kind);
    }
}
#[cfg(kani)]
#[kani::proof]
fn c01_macro_key_expr_labels() {
    c01_macro_key_expr_labels_body(kani::any(), kani::any(), kani::any());
}

// key_var! arm 6: ($name: expr, $labels: expr)  -- a label collection (slice of pairs by reference, Vec<Label>)
pub fn c01_macro_key_label_collection_body(kind: u8, as_vec: bool) {
    kani::assume(kind < 3);
    let spy = Spy::new(exp("nm", L2, Level::INFO, HERE));
    if as_vec {
        let labels = vec![Label::new("k1", "v1"), Label::from_static_parts("k2", "v2")];
        scoped!(&spy, { emit3!(kind; "nm", labels) });
    } else {
        let labels = [("k1", "v1"), ("k2", "v2")];
        scoped!(&spy, { emit3!(kind; "nm", &labels) });
    }
    spy.assert_registered(OP_REG_COUNTER + kind);
}
#[cfg(kani)]
#[kani::proof]
fn c01_macro_key_label_collection() {
    c01_macro_key_label_collection_body(kani::any(), kani::any());
}

/// `$m!(<prefix tokens> LEVEL, <rest>)` for each of the five levels, selected by `lv`
macro_rules! by_level {
    ($lv:expr, $kind:expr; [$($pre:tt)*] [$($post:tt)*]) => {
        match $lv {
            0 => { emit3!($kind; $($pre)* crate::Level::TRACE, $($post)*) }
            1 => { emit3!($kind; $($pre)* crate::Level::DEBUG, $($post)*) }
            2 => { emit3!($kind; $($pre)* crate::Level::INFO, $($post)*) }
            3 => { emit3!($kind; $($pre)* crate::Level::WARN, $($post)*) }
            _ => { emit3!($kind; $($pre)* crate::Level::ERROR, $($post)*) }
        }
    };
}
fn level_of(lv: u8) -> Level {
    match lv {
        0 => Level::TRACE,
        1 => Level::DEBUG,
        2 => Level::INFO,
        3 => Level::WARN,
        _ => Level::ERROR,
    }
}

// prefix form 1: (target: T, level: L, name, labels...)  -- metadata_var!(T, L): target, level, module path all distinct
pub fn c01_macro_target_level_body(kind: u8, lv: u8) {
    kani::assume(kind < 3 && lv < 5);
    let spy = Spy::new(exp("nm", L1, level_of(lv), "tg"));
    scoped!(&spy, { by_level!(lv, kind; [target: "tg", level:] ["nm", "k1" => "v1"]) });
    spy.assert_registered(OP_REG_COUNTER + kind);
    assert!(HERE != "tg");
}
#[cfg(kani)]
#[kani::proof]
fn c01_macro_target_level() {
    c01_macro_target_level_body(kani::any(), kani::any());
}

// prefix form 2: (target: T, name, ...)  -- level defaults to INFO, target as spelled
pub fn c01_macro_target_only_body(kind: u8, sel: bool) {
    kani::assume(kind < 3);
    let spy = Spy::new(exp(name_of(sel), L1, Level::INFO, "tg"));
    scoped!(&spy, { emit3!(kind; target: "tg", name_of(sel), "k1" => "v1") });
    spy.assert_registered(OP_REG_COUNTER + kind);
}
#[cfg(kani)]
#[kani::proof]
fn c01_macro_target_only() {
    c01_macro_target_only_body(kani::any(), kani::any());
}

// prefix form 3: (level: L, name, ...)  -- target defaults to the call site's module path, level as spelled
pub fn c01_macro_level_only_body(kind: u8, lv: u8) {
    kani::assume(kind < 3 && lv < 5);
    let spy = Spy::new(exp("nm", NO_LABELS, level_of(lv), HERE));
    scoped!(&spy, { by_level!(lv, kind; [level:] ["nm"]) });
    spy.assert_registered(OP_REG_COUNTER + kind);
}
#[cfg(kani)]
#[kani::proof]
fn c01_macro_level_only() {
    c01_macro_level_only_body(kani::any(), kani::any());
}

fn unit_of(u: u8) -> Unit {
    match u {
        0 => Unit::Count,
        1 => Unit::Percent,
        2 => Unit::Seconds,
        3 => Unit::Milliseconds,
        4 => Unit::Microseconds,
        5 => Unit::Nanoseconds,
        6 => Unit::Tebibytes,
        7 => Unit::Gibibytes,
        8 => Unit::Mebibytes,
        9 => Unit::Kibibytes,
        10 => Unit::Bytes,
        11 => Unit::TerabitsPerSecond,
        12 => Unit::GigabitsPerSecond,
        13 => Unit::MegabitsPerSecond,
        14 => Unit::KilobitsPerSecond,
        15 => Unit::BitsPerSecond,
        _ => Unit::CountPerSecond,
    }
}

// describe! arm 1: (method, name, unit, description)  -- for each describe_*!, every Unit
pub fn c01_macro_describe_unit_body(kind: u8, u: u8, owned: bool) {
    kani::assume(kind < 3 && u < 17);
    let unit = unit_of(u);
    let spy = Spy::new(Expect { name: "nm", labels: NO_LABELS, level: Level::INFO, target: "", module: "", unit: Some(unit), desc: "ds" });
    if owned {
        let n = String::from("nm");
        scoped!(&spy, {
            match kind {
                0 => crate::describe_counter!(n, unit, "ds"),
                1 => crate::describe_gauge!(n, unit, "ds"),
                _ => crate::describe_histogram!(n, unit, "ds",),
            }
        });
    } else {
        scoped!(&spy, {
            match kind {
                0 => crate::describe_counter!("nm", unit, "ds"),
                1 => crate::describe_gauge!("nm", unit, "ds"),
                _ => crate::describe_histogram!("nm", unit, "ds"),
            }
        });
    }
    spy.assert_described(OP_DESC_COUNTER + kind);
}
#[cfg(kani)]
#[kani::proof]
fn c01_macro_describe_unit() {
    c01_macro_describe_unit_body(kani::any(), kani::any(), kani::any());
}

// describe! arm 2: (method, name, description)  -- unit is None
pub fn c01_macro_describe_nounit_body(kind: u8, sel: bool) {
    kani::assume(kind < 3);
    let spy = Spy::new(Expect { name: name_of(sel), labels: NO_LABELS, level: Level::INFO, target: "", module: "", unit: None, desc: "ds" });
    scoped!(&spy, {
        match kind {
            0 => crate::describe_counter!(name_of(sel), "ds"),
            1 => crate::describe_gauge!(name_of(sel), "ds",),
            _ => crate::describe_histogram!(name_of(sel), "ds"),
        }
    });
    spy.assert_described(OP_DESC_COUNTER + kind);
}
#[cfg(kani)]
#[kani::proof]
fn c01_macro_describe_nounit() {
    c01_macro_describe_nounit_body(kani::any(), kani::any());
}

// no local recorder and no global recorder: every macro form falls through to the no-op recorder -- no panic,
// no effect on a recorder that is not in scope.
pub fn c01_macro_noop_body(kind: u8) {
    kani::assume(kind < 3);
    let bystander = Spy::silent();
    emit3!(kind; target: "tg", level: crate::Level::WARN, "nm", "k1" => "v1");
    match kind {
        0 => crate::describe_counter!("nm", Unit::Bytes, "ds"),
        1 => crate::describe_gauge!("nm", "ds"),
        _ => crate::describe_histogram!("nm", Unit::Seconds, "ds"),
    }
    assert!(bystander.calls.get() == 0);
}
#[cfg(kani)]
#[kani::proof]
fn c01_macro_noop() {
    c01_macro_noop_body(kani::any());
}
