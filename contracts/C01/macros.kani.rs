// C01 -- every arm of key_var! / metadata_var! / describe! as reached through the public macros
// counter!/gauge!/histogram!/describe_*! (metrics/src/macros.rs): the recorder in scope sees exactly ONE call
// carrying exactly what the call site spelled: name, labels (in order), level, target, module path, unit,
// description.  A second, outer recorder must see nothing (innermost local recorder wins).
// Strings are short literals / selected constants (no format!/String building under Kani: measured blow-up);
// parametricity in the string *contents* is assumed.
use crate::{
    Counter, Gauge, Histogram, Key, KeyName, Label, Level, Metadata, Recorder, SharedString, Unit,
};

pub const OP_REG_COUNTER: u8 = 1;
pub const OP_REG_GAUGE: u8 = 2;
pub const OP_REG_HISTOGRAM: u8 = 3;
pub const OP_DESC_COUNTER: u8 = 4;
pub const OP_DESC_GAUGE: u8 = 5;
pub const OP_DESC_HISTOGRAM: u8 = 6;

/// what the call site spelled
pub struct Expect {
    pub name: &'static str,
    pub labels: &'static [(&'static str, &'static str)],
    pub level: Level,
    pub target: &'static str,
    pub module: &'static str,
    pub unit: Option<Unit>,
    pub desc: &'static str,
}

/// Observations of the recording doubles.  Kept in statics (not in the double) so that the comparisons read the
/// expectation through constant addresses: the `self` a recorder method receives comes out of the thread-local and
/// is an opaque pointer for CBMC, which made field-based comparisons two orders of magnitude more expensive.
pub struct Seen {
    pub exp: Expect,
    pub calls: u8,
    pub outer_calls: u8,
    pub op: u8,
    pub name_ok: bool,
    pub labels_ok: bool,
    pub nlabels: usize,
    pub level_ok: bool,
    pub target_ok: bool,
    pub module_ok: bool,
    pub unit_ok: bool,
    pub desc_ok: bool,
}
pub static mut SEEN: Seen = Seen {
    exp: Expect { name: "", labels: &[], level: Level::INFO, target: "", module: "", unit: None, desc: "" },
    calls: 0, outer_calls: 0, op: 0,
    name_ok: false, labels_ok: false, nlabels: usize::MAX, level_ok: false, target_ok: false, module_ok: false,
    unit_ok: false, desc_ok: false,
};

/// recording double; `outer == true` marks a recorder that must not be reached at all
pub struct Spy {
    pub outer: bool,
}
impl Spy {
    /// arms the (single-threaded) observation state with what the call site is going to spell
    pub fn new(exp: Expect) -> Self {
        unsafe {
            SEEN = Seen {
                exp,
                calls: 0, outer_calls: 0, op: 0,
                name_ok: false, labels_ok: false, nlabels: usize::MAX, level_ok: false, target_ok: false,
                module_ok: false, unit_ok: false, desc_ok: false,
            };
        }
        Spy { outer: false }
    }
    pub fn silent() -> Self {
        Spy { outer: true }
    }
    fn reg(&self, op: u8, key: &Key, md: &Metadata<'_>) {
        unsafe {
            if self.outer {
                SEEN.outer_calls += 1;
                return;
            }
            SEEN.calls += 1;
            SEEN.op = op;
            SEEN.name_ok = key.name() == SEEN.exp.name;
            let mut n = 0usize;
            let mut ok = true;
            for l in key.labels() {
                if n < SEEN.exp.labels.len() {
                    let (k, v) = SEEN.exp.labels[n];
                    if l.key() != k || l.value() != v {
                        ok = false;
                    }
                } else {
                    ok = false;
                }
                n += 1;
            }
            SEEN.nlabels = n;
            SEEN.labels_ok = ok && n == SEEN.exp.labels.len();
            SEEN.level_ok = *md.level() == SEEN.exp.level;
            SEEN.target_ok = md.target() == SEEN.exp.target;
            SEEN.module_ok = md.module_path() == Some(SEEN.exp.module);
        }
    }
    fn desc(&self, op: u8, key: KeyName, unit: Option<Unit>, d: SharedString) {
        unsafe {
            if self.outer {
                SEEN.outer_calls += 1;
                return;
            }
            SEEN.calls += 1;
            SEEN.op = op;
            SEEN.name_ok = key.as_str() == SEEN.exp.name;
            SEEN.unit_ok = unit == SEEN.exp.unit;
            let d: &str = &d;
            SEEN.desc_ok = d == SEEN.exp.desc;
        }
    }
    /// exactly one registration call of kind `op`, carrying exactly the expected content
    pub fn assert_registered(&self, op: u8) {
        unsafe {
            assert!(SEEN.calls == 1, "exactly one call");
            assert!(SEEN.outer_calls == 0, "an outer recorder must not see the emission");
            assert!(SEEN.op == op, "the recorder method matching the macro");
            assert!(SEEN.name_ok, "name as spelled");
            assert!(SEEN.nlabels == SEEN.exp.labels.len(), "label count");
            assert!(SEEN.labels_ok, "labels as spelled, in order");
            assert!(SEEN.level_ok, "level as spelled");
            assert!(SEEN.target_ok, "target as spelled");
            assert!(SEEN.module_ok, "module path of the call site");
        }
    }
    pub fn assert_described(&self, op: u8) {
        unsafe {
            assert!(SEEN.calls == 1, "exactly one call");
            assert!(SEEN.outer_calls == 0, "an outer recorder must not see the emission");
            assert!(SEEN.op == op, "the recorder method matching the macro");
            assert!(SEEN.name_ok, "name as spelled");
            assert!(SEEN.unit_ok, "unit as spelled");
            assert!(SEEN.desc_ok, "description as spelled");
        }
    }
}
impl Recorder for Spy {
    fn describe_counter(&self, k: KeyName, u: Option<Unit>, d: SharedString) {
        self.desc(OP_DESC_COUNTER, k, u, d)
    }
    fn describe_gauge(&self, k: KeyName, u: Option<Unit>, d: SharedString) {
        self.desc(OP_DESC_GAUGE, k, u, d)
    }
    fn describe_histogram(&self, k: KeyName, u: Option<Unit>, d: SharedString) {
        self.desc(OP_DESC_HISTOGRAM, k, u, d)
    }
    fn register_counter(&self, k: &Key, m: &Metadata<'_>) -> Counter {
        self.reg(OP_REG_COUNTER, k, m);
        Counter::noop()
    }
    fn register_gauge(&self, k: &Key, m: &Metadata<'_>) -> Gauge {
        self.reg(OP_REG_GAUGE, k, m);
        Gauge::noop()
    }
    fn register_histogram(&self, k: &Key, m: &Metadata<'_>) -> Histogram {
        self.reg(OP_REG_HISTOGRAM, k, m);
        Histogram::noop()
    }
}

const HERE: &str = module_path!();
const NO_LABELS: &[(&str, &str)] = &[];
const L1: &[(&str, &str)] = &[("k1", "v1")];
const L2: &[(&str, &str)] = &[("k1", "v1"), ("k2", "v2")];
const L2_REV: &[(&str, &str)] = &[("k2", "v2"), ("k1", "v1")];

fn exp(name: &'static str, labels: &'static [(&'static str, &'static str)], level: Level, target: &'static str) -> Expect {
    Expect { name, labels, level, target, module: HERE, unit: None, desc: "" }
}

/// the same argument tokens through counter! / gauge! / histogram!, selected by `kind` (0, 1, 2)
macro_rules! emit3 {
    ($kind:expr; $($args:tt)*) => {
        match $kind {
            0 => { let _h = crate::counter!($($args)*); }
            1 => { let _h = crate::gauge!($($args)*); }
            _ => { let _h = crate::histogram!($($args)*); }
        }
    };
}
/// runs `$body` with `inner` as the innermost local recorder inside `outer`, then checks `outer` saw nothing
macro_rules! scoped {
    ($inner:expr, $body:block) => {{
        let outer = Spy::silent();
        crate::with_local_recorder(&outer, || {
            crate::with_local_recorder($inner, || $body);
        });
        assert!(unsafe { SEEN.outer_calls } == 0, "an outer recorder must not see the emission");
    }};
}

/// a computed (non-literal) name.  Its content is concrete: Key::from_name / Key::from_parts hash the name eagerly
/// (AHasher, 64x64-bit folded multiplications), and a symbolic name makes CBMC bit-blast those (measured: > 15 min).
fn name_of(sel: bool) -> &'static str {
    let _ = sel;
    NAMES[1]
}
const NAMES: [&str; 2] = ["na", "nb"];

// key_var! arm 1: ($name: literal)  -- static key, default target (= module path) and level INFO
pub fn c01_macro_key_literal_body(kind: u8) {
    kani::assume(kind < 3);
    let spy = Spy::new(exp("nm", NO_LABELS, Level::INFO, HERE));
    scoped!(&spy, { emit3!(kind; "nm") });
    spy.assert_registered(OP_REG_COUNTER + kind);
}
#[cfg(kani)]
#[kani::proof]
fn c01_macro_key_literal() {
    c01_macro_key_literal_body(kani::any());
}

// key_var! arm 2: ($name: expr)  -- computed &'static str and owned String names
pub fn c01_macro_key_expr_body(kind: u8, sel: bool, owned: bool) {
    kani::assume(kind < 3);
    let spy = Spy::new(exp(name_of(sel), NO_LABELS, Level::INFO, HERE));
    if owned {
        let n: String = String::from(name_of(sel));
        scoped!(&spy, { emit3!(kind; n) });
    } else {
        scoped!(&spy, { emit3!(kind; name_of(sel)) });
    }
    spy.assert_registered(OP_REG_COUNTER + kind);
}
#[cfg(kani)]
#[kani::proof]
fn c01_macro_key_expr() {
    c01_macro_key_expr_body(kani::any(), kani::any(), kani::any());
}

// key_var! arm 3: ($name: literal, $k: literal => $v: literal, ...)  -- static key with static labels, order kept
pub fn c01_macro_key_literal_labels_body(kind: u8, two: bool) {
    kani::assume(kind < 3);
    if two {
        let spy = Spy::new(exp("nm", L2_REV, Level::INFO, HERE));
        scoped!(&spy, { emit3!(kind; "nm", "k2" => "v2", "k1" => "v1") });
        spy.assert_registered(OP_REG_COUNTER + kind);
    } else {
        let spy = Spy::new(exp("nm", L1, Level::INFO, HERE));
        scoped!(&spy, { emit3!(kind; "nm", "k1" => "v1",) }); // trailing comma form
        spy.assert_registered(OP_REG_COUNTER + kind);
    }
}
#[cfg(kani)]
#[kani::proof]
fn c01_macro_key_literal_labels() {
    c01_macro_key_literal_labels_body(kani::any(), kani::any());
}

// key_var! arm 4: ($name: expr, $k: literal => $v: literal, ...)  -- computed name, static labels
pub fn c01_macro_key_expr_static_labels_body(kind: u8, sel: bool) {
    kani::assume(kind < 3);
    let spy = Spy::new(exp(name_of(sel), L2, Level::INFO, HERE));
    scoped!(&spy, { emit3!(kind; name_of(sel), "k1" => "v1", "k2" => "v2") });
    spy.assert_registered(OP_REG_COUNTER + kind);
}
#[cfg(kani)]
#[kani::proof]
fn c01_macro_key_expr_static_labels() {
    c01_macro_key_expr_static_labels_body(kani::any(), kani::any());
}

// A call site is a piece of code, not a value: executed again with another computed name it must deliver THAT name (nothing
// about the key may be remembered per call site). Arms 2 and 4 (computed name without / with literal labels), each call site run
// twice with different names.
pub fn c01_macro_callsite_twice_body(kind: u8, labels: bool) {
    kani::assume(kind < 3);
    let mut round = 0usize;
    while round < 2 {
        let nm: &'static str = NAMES[round];       // concrete per round ("na", then "nb"): see name_of for why not symbolic
        if labels {
            let spy = Spy::new(exp(nm, L2, Level::INFO, HERE));
            scoped!(&spy, { emit3!(kind; nm, "k1" => "v1", "k2" => "v2") });
            spy.assert_registered(OP_REG_COUNTER + kind);
        } else {
            let spy = Spy::new(exp(nm, NO_LABELS, Level::INFO, HERE));
            scoped!(&spy, { emit3!(kind; nm) });
            spy.assert_registered(OP_REG_COUNTER + kind);
        }
        round += 1;
    }
}
#[cfg(kani)]
#[kani::proof]
fn c01_macro_callsite_twice() {
    c01_macro_callsite_twice_body(kani::any(), kani::any());
}

// key_var! arm 5: ($name: expr, $k: expr => $v: expr, ...)  -- computed label keys / values (constants, variables)
const K1: &str = "k1";
pub fn c01_macro_key_expr_labels_body(kind: u8) {
    kani::assume(kind < 3);
    let v2: &'static str = "v2";
    let spy = Spy::new(exp(name_of(true), L2, Level::INFO, HERE));
    scoped!(&spy, { emit3!(kind; name_of(true), K1 => "v1", "k2" => v2) });
    spy.assert_registered(OP_REG_COUNTER + kind);
}
#[cfg(kani)]
#[kani::proof]
fn c01_macro_key_expr_labels() {
    c01_macro_key_expr_labels_body(kani::any());
}

// key_var! arm 6: ($name: expr, $labels: expr)  -- a label collection: Vec<Label>
pub fn c01_macro_key_label_collection_body(kind: u8) {
    kani::assume(kind < 3);
    let spy = Spy::new(exp("nm", L2, Level::INFO, HERE));
    let labels = vec![Label::new("k1", "v1"), Label::from_static_parts("k2", "v2")];
    scoped!(&spy, { emit3!(kind; "nm", labels) });
    spy.assert_registered(OP_REG_COUNTER + kind);
}
#[cfg(kani)]
#[kani::proof]
fn c01_macro_key_label_collection() {
    c01_macro_key_label_collection_body(kani::any());
}

// key_var! arm 6 with a collection passed by reference: `&[(k, v)]` goes through `IntoLabels for &T`
// (into_iter().map(Into::into).collect()).  One pair only: with two pairs Vec::from_iter + the label ordering inside
// Key::from_parts lose all constant propagation in CBMC (measured: 13.8 GB, 4 min, killed).
pub fn c01_macro_key_label_slice_body(kind: u8) {
    kani::assume(kind < 2);
    let spy = Spy::new(exp("nm", L1, Level::INFO, HERE));
    let labels = [("k1", "v1")];
    if kind == 0 {
        scoped!(&spy, { let _h = crate::counter!("nm", &labels); });
    } else {
        scoped!(&spy, { let _h = crate::histogram!("nm", &labels,); });
    }
    spy.assert_registered(if kind == 0 { OP_REG_COUNTER } else { OP_REG_HISTOGRAM });
}
#[cfg(kani)]
#[kani::proof]
fn c01_macro_key_label_slice() {
    c01_macro_key_label_slice_body(kani::any());
}

/// `m!(<prefix tokens> LEVEL, <rest>)` for (m, LEVEL) selected by `sel`: counter! with each of the five levels,
/// gauge! and histogram! with two levels each (the level must be a constant expression: metadata_var! puts it in a
/// `static`, so it cannot be a symbolic value; the full 3 x 5 product cost ~1 min per harness)
macro_rules! by_level {
    ($sel:expr; [$($pre:tt)*] [$($post:tt)*]) => {
        match $sel {
            0 => { let _h = crate::counter!($($pre)* crate::Level::TRACE, $($post)*); }
            1 => { let _h = crate::counter!($($pre)* crate::Level::DEBUG, $($post)*); }
            2 => { let _h = crate::counter!($($pre)* crate::Level::INFO, $($post)*); }
            3 => { let _h = crate::counter!($($pre)* crate::Level::WARN, $($post)*); }
            4 => { let _h = crate::counter!($($pre)* crate::Level::ERROR, $($post)*); }
            5 => { let _h = crate::gauge!($($pre)* crate::Level::TRACE, $($post)*); }
            6 => { let _h = crate::gauge!($($pre)* crate::Level::ERROR, $($post)*); }
            7 => { let _h = crate::histogram!($($pre)* crate::Level::DEBUG, $($post)*); }
            _ => { let _h = crate::histogram!($($pre)* crate::Level::WARN, $($post)*); }
        }
    };
}
/// (recorder method, level) spelled by `by_level!` for `sel`
fn sel_kind_level(sel: u8) -> (u8, Level) {
    match sel {
        0 => (OP_REG_COUNTER, Level::TRACE),
        1 => (OP_REG_COUNTER, Level::DEBUG),
        2 => (OP_REG_COUNTER, Level::INFO),
        3 => (OP_REG_COUNTER, Level::WARN),
        4 => (OP_REG_COUNTER, Level::ERROR),
        5 => (OP_REG_GAUGE, Level::TRACE),
        6 => (OP_REG_GAUGE, Level::ERROR),
        7 => (OP_REG_HISTOGRAM, Level::DEBUG),
        _ => (OP_REG_HISTOGRAM, Level::WARN),
    }
}
// prefix form 1: (target: T, level: L, name, labels...)  -- metadata_var!(T, L): target, level, module path all distinct
pub fn c01_macro_target_level_body(sel: u8) {
    kani::assume(sel < 9);
    let (op, level) = sel_kind_level(sel);
    let spy = Spy::new(exp("nm", L1, level, "tg"));
    scoped!(&spy, { by_level!(sel; [target: "tg", level:] ["nm", "k1" => "v1"]) });
    spy.assert_registered(op);
    assert!(HERE != "tg");
}
#[cfg(kani)]
#[kani::proof]
fn c01_macro_target_level() {
    c01_macro_target_level_body(kani::any());
}

// prefix form 2: (target: T, name, ...)  -- level defaults to INFO, target as spelled
pub fn c01_macro_target_only_body(kind: u8, sel: bool) {
    kani::assume(kind < 3);
    let spy = Spy::new(exp(name_of(sel), L1, Level::INFO, "tg"));
    scoped!(&spy, { emit3!(kind; target: "tg", name_of(sel), "k1" => "v1") });
    spy.assert_registered(OP_REG_COUNTER + kind);
}
#[cfg(kani)]
#[kani::proof]
fn c01_macro_target_only() {
    c01_macro_target_only_body(kani::any(), kani::any());
}

// prefix form 3: (level: L, name, ...)  -- target defaults to the call site's module path, level as spelled
pub fn c01_macro_level_only_body(sel: u8) {
    kani::assume(sel < 9);
    let (op, level) = sel_kind_level(sel);
    let spy = Spy::new(exp("nm", NO_LABELS, level, HERE));
    scoped!(&spy, { by_level!(sel; [level:] ["nm"]) });
    spy.assert_registered(op);
}
#[cfg(kani)]
#[kani::proof]
fn c01_macro_level_only() {
    c01_macro_level_only_body(kani::any());
}

// prefix form 3 with labels: the remaining cell of (macro) x (prefix form) x (label form) -- every prefix arm must pass the WHOLE
// rest of the argument list (name and labels) on, not only the name
pub fn c01_macro_level_only_labels_body(sel: u8) {
    kani::assume(sel < 9);
    let (op, level) = sel_kind_level(sel);
    let spy = Spy::new(exp("nm", L1, level, HERE));
    scoped!(&spy, { by_level!(sel; [level:] ["nm", "k1" => "v1"]) });
    spy.assert_registered(op);
}
#[cfg(kani)]
#[kani::proof]
fn c01_macro_level_only_labels() {
    c01_macro_level_only_labels_body(kani::any());
}

fn unit_of(u: u8) -> Unit {
    match u {
        0 => Unit::Count,
        1 => Unit::Percent,
        2 => Unit::Seconds,
        3 => Unit::Milliseconds,
        4 => Unit::Microseconds,
        5 => Unit::Nanoseconds,
        6 => Unit::Tebibytes,
        7 => Unit::Gibibytes,
        8 => Unit::Mebibytes,
        9 => Unit::Kibibytes,
        10 => Unit::Bytes,
        11 => Unit::TerabitsPerSecond,
        12 => Unit::GigabitsPerSecond,
        13 => Unit::MegabitsPerSecond,
        14 => Unit::KilobitsPerSecond,
        15 => Unit::BitsPerSecond,
        _ => Unit::CountPerSecond,
    }
}

// describe! arm 1: (method, name, unit, description)  -- for each describe_*!, every Unit
pub fn c01_macro_describe_unit_body(kind: u8, u: u8, owned: bool) {
    kani::assume(kind < 3 && u < 17);
    let unit = unit_of(u);
    let spy = Spy::new(Expect { name: "nm", labels: NO_LABELS, level: Level::INFO, target: "", module: "", unit: Some(unit), desc: "ds" });
    if owned {
        let n = String::from("nm");
        scoped!(&spy, {
            match kind {
                0 => crate::describe_counter!(n, unit, "ds"),
                1 => crate::describe_gauge!(n, unit, "ds"),
                _ => crate::describe_histogram!(n, unit, "ds",),
            }
        });
    } else {
        scoped!(&spy, {
            match kind {
                0 => crate::describe_counter!("nm", unit, "ds"),
                1 => crate::describe_gauge!("nm", unit, "ds"),
                _ => crate::describe_histogram!("nm", unit, "ds"),
            }
        });
    }
    spy.assert_described(OP_DESC_COUNTER + kind);
}
#[cfg(kani)]
#[kani::proof]
fn c01_macro_describe_unit() {
    c01_macro_describe_unit_body(kani::any(), kani::any(), kani::any());
}

// describe! arm 2: (method, name, description)  -- unit is None
pub fn c01_macro_describe_nounit_body(kind: u8, sel: bool) {
    kani::assume(kind < 3);
    let spy = Spy::new(Expect { name: name_of(sel), labels: NO_LABELS, level: Level::INFO, target: "", module: "", unit: None, desc: "ds" });
    scoped!(&spy, {
        match kind {
            0 => crate::describe_counter!(name_of(sel), "ds"),
            1 => crate::describe_gauge!(name_of(sel), "ds",),
            _ => crate::describe_histogram!(name_of(sel), "ds"),
        }
    });
    spy.assert_described(OP_DESC_COUNTER + kind);
}
#[cfg(kani)]
#[kani::proof]
fn c01_macro_describe_nounit() {
    c01_macro_describe_nounit_body(kani::any(), kani::any());
}

// no local recorder and no global recorder: every macro form falls through to the no-op recorder -- no panic,
// no effect on a recorder that is not in scope.
pub fn c01_macro_noop_body(kind: u8) {
    kani::assume(kind < 3);
    let bystander = Spy::new(exp("", NO_LABELS, Level::INFO, ""));
    emit3!(kind; target: "tg", level: crate::Level::WARN, "nm", "k1" => "v1");
    match kind {
        0 => crate::describe_counter!("nm", Unit::Bytes, "ds"),
        1 => crate::describe_gauge!("nm", "ds"),
        _ => crate::describe_histogram!("nm", Unit::Seconds, "ds"),
    }
    assert!(unsafe { SEEN.calls } == 0 && unsafe { SEEN.outer_calls } == 0);
}
#[cfg(kani)]
#[kani::proof]
fn c01_macro_noop() {
    c01_macro_noop_body(kani::any());
}
