def H(name, clause, kind="complete", tier="quick", timeout=900, replay=True, covers=0, module="__verif_c01", **kw):
    d = dict(name=name, obligation=f"C01/kani/{name}", clause=clause, kind=kind, tier=tier, timeout=timeout, replay=replay, covers=covers, module=module)
    d.update(kw)
    return d

M = "__verif_c01_macros"
OPS = "over {guard install, with_local_recorder open/close, drop guard i, mem::forget guard i, emit, set global}"
BOUND4 = "<= 3 local installs, <= 4 program steps (+ scope exits and a final emission) " + OPS
BOUND5 = "<= 3 local installs, <= 5 program steps " + OPS
# a bounded unwinding turns a would-be endless memcmp/hash loop (lost constant propagation) into exit 2 instead of a hang
UNW = ["--default-unwind", "48"]

PLAN = {
    "property": "C01",
    "level": "proof",
    "manifest": {
        "technique": "Kani/CBMC on the real code: loop-free per-function contracts of LocalRecorderGuard::{new,drop}, set_default_local_recorder, with_local_recorder, with_recorder over every pre-state of the thread-local; one harness per macro arm with recording doubles; bounded symbolic programs (<= 3 installs, <= 4 steps quick / 5 steps thorough) on the real thread-local, with the history space split into nested / out-of-order-drop / mem::forget classes",
        "text": "Proved (complete, loop-free): new(r) sets LOCAL to r and saves the old value; Drop restores exactly the saved value; with_local_recorder runs the closure once with LOCAL == r and restores on normal exit; with_recorder invokes the closure exactly once on the local recorder if any, else the installed global, else NOOP_RECORDER (identity checked). Every arm of key_var!/metadata_var!/describe! reached through counter!/gauge!/histogram!/describe_*! (all target:/level: prefix forms, 5 levels, 17 units, literal/computed/owned names, literal/computed/collection labels) delivers exactly one call with exactly the spelled name, labels in order, level, target, module path, unit and description to the innermost local recorder. Bounded (listed, not counted as proved): for every program of <= 4 (thorough: 5) steps and <= 3 installs whose scopes end innermost-first, the protocol invariant (LOCAL is None or a recorder whose installing borrow is alive) and exact dispatch hold after every step. The same invariant FAILS for programs that drop guards out of order or mem::forget a guard: two separately named obligations, reported as findings (contracts/C01/FINDINGS.md).",
        "note": "Thread-locality ('never visible to another thread') is the language's contract for thread_local! and is assumed: Kani has no threads. Panic unwinding through a scope is NOT modelled (Kani treats a panic as a failure), so the 'or by a panic' clause is not decided. String contents are short literals; parametricity in string contents is assumed. The history harnesses are bounded (<= 3 installs, <= 4 steps in the quick tier, 5 in the thorough tier; 6 steps exceeded 14 GB in CBMC). Global recorder installation relies on C02.",
    },
    "min_obligations": {"quick": 18, "thorough": 18},
    "assumptions": [
        "thread-locality of LOCAL_RECORDER (a local recorder is never visible to another thread) is the language's contract for thread_local!; Kani executes a single thread",
        "panic = verification failure under Kani; unwinding is not executed. The panic-exit clause of with_local_recorder is decided structurally (scope.verus.rs: the closure is called while the guard is alive and armed, R44 rewrites `f()` into a call that borrows the guard variable `_local`) together with the Drop contract under a stubbed thread::panicking(); that Rust runs the destructors of live locals during unwinding is the language's contract",
        "the borrow that installs a recorder is taken to end when its LocalRecorderGuard is dropped or mem::forget-ed, or when with_local_recorder returns (the shortest extent safe Rust allows)",
        "history harnesses are bounded: <= 3 installs, <= 4 steps (quick) / 5 steps (thorough); not counted as proved",
        "macro harnesses use short literal / selected-constant strings; parametricity in string contents is assumed (symbolic String building is beyond Kani's reach)",
        "atomics sequentially consistent, memory orderings unchecked, Box::leak yields a valid 'static reference (global recorder installation: see C02)",
    ],
    "kani": [{
        "crate": "metrics",
        "parallel": 4,
        "modules": [
            {"file": "metrics/src/recorder/mod.rs", "mod": "__verif_c01", "src": "recorder.kani.rs"},
            {"file": "metrics/src/macros.rs", "mod": M, "src": "macros.kani.rs"},
        ],
        "functions": [
            {"item": "LocalRecorderGuard::new", "file": "metrics/src/recorder/mod.rs"},
            {"item": "<LocalRecorderGuard as Drop>::drop", "file": "metrics/src/recorder/mod.rs"},
            {"item": "set_default_local_recorder", "file": "metrics/src/recorder/mod.rs"},
            {"item": "with_local_recorder", "file": "metrics/src/recorder/mod.rs"},
            {"item": "with_recorder", "file": "metrics/src/recorder/mod.rs"},
            {"item": "set_global_recorder (as used by with_recorder's global arm)", "file": "metrics/src/recorder/mod.rs"},
            {"item": "macro_rules! key_var (6 arms), metadata_var, describe (2 arms), counter/gauge/histogram (4 arms each), describe_counter/gauge/histogram (2 arms each)", "file": "metrics/src/macros.rs"},
            {"item": "Metadata::{new,level,target,module_path}", "file": "metrics/src/metadata.rs"},
            {"item": "impl Recorder for NoopRecorder", "file": "metrics/src/recorder/noop.rs"},
        ],
        "harnesses": [
            # the three history classes first: they are the long-running ones (about 3 min each)
            H("c01_scopes_nested", "every program whose scopes end innermost-first (closures, guards, nesting, global install): I (LOCAL None or a recorder whose installing borrow is alive) and exact dispatch to the innermost live recorder after every step / at every emit",
              kind="bounded", bound=BOUND4, covers=3, timeout=1500),
            H("c01_guard_fifo_drop", "programs where a guard/closure scope ends while not innermost (e.g. guard A, guard B, drop A, drop B): I and exact dispatch from that point on -- FAILS on the pinned tree: finding 1 in FINDINGS.md",
              kind="bounded", bound=BOUND4, timeout=1500),
            H("c01_guard_forget", "programs containing mem::forget(guard): I and exact dispatch from that point on -- FAILS on the pinned tree: finding 2 in FINDINGS.md",
              kind="bounded", bound=BOUND4, timeout=1500),
            H("c01_scopes_nested5", "as c01_scopes_nested with <= 5 steps", kind="bounded", bound=BOUND5, covers=3, timeout=3000, tier="thorough"),
            H("c01_guard_new", "LocalRecorderGuard::new(r) ensures LOCAL == Some(r) and guard.prev_recorder == old(LOCAL), for LOCAL in {None, A, B}; nothing emitted", covers=2),
            H("c01_guard_drop", "Drop ensures LOCAL == old(self.prev_recorder) for every (prev, LOCAL) in {None,A,B} x {None,A,B,C}", covers=2),
            H("c01_guard_drop_unwinding", "the same Drop contract with std::thread::panicking() stubbed to true: the restore does not depend on whether the scope ends by a panic", covers=2, replay=False),
            H("c01_set_default_local_recorder", "guard alive: LOCAL == r and each emission reaches r once; after drop: LOCAL == old(LOCAL) and emissions reach the previous recorder"),
            H("c01_with_local_recorder", "closure runs exactly once with LOCAL == r, its value is returned, LOCAL restored on normal exit"),
            H("c01_with_recorder_precedence", "with_recorder: closure invoked exactly once on local > global > NOOP_RECORDER (identity of the receiving recorder), result passed through", covers=3),
            H("c01_macro_key_literal", "key_var!(literal): one call, name, no labels, level INFO, target == module path == call site module", module=M, args=UNW),
            H("c01_macro_key_expr", "key_var!(expr): computed &'static str and owned String names", module=M, args=UNW),
            H("c01_macro_key_literal_labels", "key_var!(literal, k => v literal pairs): labels in spelled order, trailing comma", module=M, args=UNW),
            H("c01_macro_key_expr_static_labels", "key_var!(expr, literal pairs)", module=M, args=UNW),
            H("c01_macro_callsite_twice", "one call site executed twice with different computed names (with and without literal labels) delivers each time the name of THAT execution", module=M, args=UNW, timeout=1500),
            H("c01_macro_key_expr_labels", "key_var!(expr, expr => expr pairs): constant / variable label parts", module=M, args=UNW),
            H("c01_macro_key_label_collection", "key_var!(expr, labels): Vec<Label>", module=M, args=UNW),
            H("c01_macro_key_label_slice", "key_var!(expr, labels): &[(k, v)] (one pair)", module=M, args=UNW),
            H("c01_macro_target_level", "m!(target: T, level: L, ...): target, level (counter x 5 levels, gauge/histogram x 2), module path of the call site, name, labels", module=M, args=UNW),
            H("c01_macro_target_only", "m!(target: T, ...): level INFO", module=M, args=UNW),
            H("c01_macro_level_only", "m!(level: L, ...): target == call site module path", module=M, args=UNW),
            H("c01_macro_level_only_labels", "m!(level: L, name, literal labels): the labels are delivered too (the remaining cell of macro x prefix form x label form)", module=M, args=UNW),
            H("c01_macro_describe_unit", "describe_*!(name, unit, desc): one call, name, Some(unit) for all 17 units, description", module=M, args=UNW),
            H("c01_macro_describe_nounit", "describe_*!(name, desc): unit None", module=M, args=UNW),
            H("c01_macro_noop", "no local and no global recorder: every form reaches only the no-op recorder (no panic, no effect)", module=M, args=UNW),
        ],
    }],
    # plain-Rust witnesses (fail on the real crate while the defect is present); run by hand:
    #   see FINDINGS.md ("how to run the witnesses")
    "witnesses": [
        {"match": r"c01_guard_fifo_drop", "src": "witness_fifo_drop.rs", "crate": "metrics", "file": "metrics/src/recorder/mod.rs"},
        {"match": r"c01_guard_forget", "src": "witness_forget.rs", "crate": "metrics", "file": "metrics/src/recorder/mod.rs"},
        # the panic-exit clause of with_local_recorder: run when the structural contract (scope.verus.rs) fails or cannot be extracted
        {"match": r"fn with_local_recorder", "src": "witness_panic_scope.rs", "crate": "metrics", "file": "metrics/src/recorder/mod.rs"},
    ],
    # structural contract (Verus, on the extracted real text): the closure of with_local_recorder runs while the guard created by
    # LocalRecorderGuard::new is alive and armed -- the destructor-based restore is what also covers the panic path, which Kani cannot execute
    "verus": [
        {"template": "scope.verus.rs", "tier": "quick", "rlimit": 20, "min_functions": 1},
    ],
}
