// C01 -- contracts on the real local-recorder scoping code (metrics/src/recorder/mod.rs):
// LocalRecorderGuard::{new, drop}, set_default_local_recorder, with_local_recorder, with_recorder,
// and a bounded symbolic-program harness over the real thread-local `LOCAL_RECORDER`.
//
// Ghost state (harness side): for every recording double, whether the borrow that installed it is still
// alive.  In safe Rust the borrow `'a` handed to `set_default_local_recorder(&'a r)` is only forced to last
// as long as the returned `LocalRecorderGuard<'a>` exists: it ends when the guard is dropped OR forgotten
// (`mem::forget` consumes the guard); for `with_local_recorder(&r, f)` it ends when the call returns.
//
//   protocol invariant  I:  LOCAL == None  \/  LOCAL points to a double whose installing borrow is alive
//   dispatch            D:  an emission reaches exactly the innermost double whose scope is alive,
//                           otherwise the global recorder, otherwise the no-op recorder
//
// The doubles themselves stay allocated for the whole harness, so a violation of I is observed as a plain
// assertion failure (also in the concrete replay on the real crate), never as undefined behaviour.
use super::*;
use crate::Level;
use std::cell::Cell as StdCell;
use std::sync::atomic::{AtomicU8, Ordering as AO};

static KEY: Key = Key::from_static_name("k");
static META: Metadata<'static> = Metadata::new("t", Level::INFO, None);

pub struct Rec {
    pub id: u8,
    pub hits: StdCell<u8>,
}
impl Rec {
    pub const fn new(id: u8) -> Self {
        Rec { id, hits: StdCell::new(0) }
    }
    fn hit(&self) {
        self.hits.set(self.hits.get() + 1)
    }
}
impl Recorder for Rec {
    fn describe_counter(&self, _: KeyName, _: Option<Unit>, _: SharedString) {
        self.hit()
    }
    fn describe_gauge(&self, _: KeyName, _: Option<Unit>, _: SharedString) {
        self.hit()
    }
    fn describe_histogram(&self, _: KeyName, _: Option<Unit>, _: SharedString) {
        self.hit()
    }
    fn register_counter(&self, _: &Key, _: &Metadata<'_>) -> Counter {
        self.hit();
        Counter::noop()
    }
    fn register_gauge(&self, _: &Key, _: &Metadata<'_>) -> Gauge {
        self.hit();
        Gauge::noop()
    }
    fn register_histogram(&self, _: &Key, _: &Metadata<'_>) -> Histogram {
        self.hit();
        Histogram::noop()
    }
}

// the global recorder double (must be Sync + 'static)
pub static G_HITS: AtomicU8 = AtomicU8::new(0);
pub struct GRec;
impl GRec {
    fn hit(&self) {
        G_HITS.fetch_add(1, AO::SeqCst);
    }
}
impl Recorder for GRec {
    fn describe_counter(&self, _: KeyName, _: Option<Unit>, _: SharedString) {
        self.hit()
    }
    fn describe_gauge(&self, _: KeyName, _: Option<Unit>, _: SharedString) {
        self.hit()
    }
    fn describe_histogram(&self, _: KeyName, _: Option<Unit>, _: SharedString) {
        self.hit()
    }
    fn register_counter(&self, _: &Key, _: &Metadata<'_>) -> Counter {
        self.hit();
        Counter::noop()
    }
    fn register_gauge(&self, _: &Key, _: &Metadata<'_>) -> Gauge {
        self.hit();
        Gauge::noop()
    }
    fn register_histogram(&self, _: &Key, _: &Metadata<'_>) -> Histogram {
        self.hit();
        Histogram::noop()
    }
}

fn addr_of(r: &Rec) -> *const () {
    r as *const Rec as *const ()
}
/// data address held by the real thread-local (null = None)
fn local_addr() -> *const () {
    match LOCAL_RECORDER.with(|l| l.get()) {
        Some(p) => p.as_ptr() as *const dyn Recorder as *const (),
        None => core::ptr::null(),
    }
}
fn ptr_to(r: &Rec) -> Option<NonNull<dyn Recorder>> {
    let d: &dyn Recorder = r;
    // same erasure as LocalRecorderGuard::new performs (the double outlives every use in these harnesses)
    let p = unsafe { std::mem::transmute::<*const (dyn Recorder + '_), *mut (dyn Recorder + 'static)>(d) };
    NonNull::new(p)
}
fn set_local(p: Option<NonNull<dyn Recorder>>) {
    LOCAL_RECORDER.with(|l| l.set(p));
}
fn opt_addr(p: Option<NonNull<dyn Recorder>>) -> *const () {
    match p {
        Some(p) => p.as_ptr() as *const dyn Recorder as *const (),
        None => core::ptr::null(),
    }
}
/// pick the pre-state of LOCAL: 0 => None, 1 => a, 2 => b
fn pick<'x>(sel: u8, a: &'x Rec, b: &'x Rec) -> Option<&'x Rec> {
    match sel {
        0 => None,
        1 => Some(a),
        _ => Some(b),
    }
}
fn pick_ptr(sel: u8, a: &Rec, b: &Rec) -> Option<NonNull<dyn Recorder>> {
    pick(sel, a, b).and_then(ptr_to)
}

// ------------------------------------------------------------------------------------------------
// per-function contracts (loop-free, LOCAL ranges over {None, A, B}: complete)
// ------------------------------------------------------------------------------------------------

// LocalRecorderGuard::new(r)  ensures  LOCAL == Some(r)  /\  guard.prev_recorder == old(LOCAL)
pub fn c01_guard_new_body(pre: u8) {
    kani::assume(pre < 3);
    let (a, b, c) = (Rec::new(1), Rec::new(2), Rec::new(3));
    let old = pick_ptr(pre, &a, &b);
    set_local(old);
    let g = LocalRecorderGuard::new(&c);
    assert!(local_addr() == addr_of(&c));
    assert!(opt_addr(g.prev_recorder) == opt_addr(old));
    assert!(g.prev_recorder.is_some() == (pre != 0));
    // installing does not emit anything
    assert!(a.hits.get() == 0 && b.hits.get() == 0 && c.hits.get() == 0);
    std::mem::forget(g); // Drop has its own contract below
    set_local(None);
    kani::cover!(pre == 0);
    kani::cover!(pre == 2);
}
#[cfg(kani)]
#[kani::proof]
fn c01_guard_new() {
    c01_guard_new_body(kani::any());
}

// Drop::drop(guard)  ensures  LOCAL == old(guard.prev_recorder)   (whatever LOCAL was)
pub fn c01_guard_drop_body(prev: u8, cur: u8) {
    kani::assume(prev < 3 && cur < 4);
    let (a, b, c) = (Rec::new(1), Rec::new(2), Rec::new(3));
    let prev_ptr = pick_ptr(prev, &a, &b);
    set_local(if cur == 3 { ptr_to(&c) } else { pick_ptr(cur, &a, &b) });
    let g = LocalRecorderGuard { prev_recorder: prev_ptr, phantom: PhantomData };
    drop(g);
    assert!(local_addr() == opt_addr(prev_ptr));
    assert!(a.hits.get() == 0 && b.hits.get() == 0 && c.hits.get() == 0);
    set_local(None);
    kani::cover!(prev == 0 && cur == 3);
    kani::cover!(prev == 2 && cur == 1);
}
#[cfg(kani)]
#[kani::proof]
fn c01_guard_drop() {
    c01_guard_drop_body(kani::any(), kani::any());
}

// The same contract when the guard is dropped BY UNWINDING: Kani does not unwind, but the only way Drop can tell a panic exit from a
// normal exit is `std::thread::panicking()`; with that stubbed to `true` the contract of Drop must hold unchanged
// ("... or by a panic unwinding through it restores the recorder that was in scope before").
#[cfg(kani)]
fn panicking_true() -> bool { true }
#[cfg(kani)]
#[kani::proof]
#[kani::stub(std::thread::panicking, panicking_true)]
fn c01_guard_drop_unwinding() {
    c01_guard_drop_body(kani::any(), kani::any());
}

// set_default_local_recorder(r): while the guard lives LOCAL == r and emissions reach r exactly once each;
// dropping the guard restores the recorder that was in scope before (and emissions reach that one again).
pub fn c01_set_default_local_recorder_body(pre: u8) {
    kani::assume(pre < 3);
    let (a, b, c) = (Rec::new(1), Rec::new(2), Rec::new(3));
    let old = pick_ptr(pre, &a, &b);
    set_local(old);
    let g = crate::set_default_local_recorder(&c);
    assert!(local_addr() == addr_of(&c));
    let _ = crate::counter!("x");
    assert!(c.hits.get() == 1 && a.hits.get() == 0 && b.hits.get() == 0);
    drop(g);
    assert!(local_addr() == opt_addr(old));
    let _ = crate::gauge!("x");
    assert!(c.hits.get() == 1);
    assert!(a.hits.get() == if pre == 1 { 1 } else { 0 });
    assert!(b.hits.get() == if pre == 2 { 1 } else { 0 });
    set_local(None);
}
#[cfg(kani)]
#[kani::proof]
fn c01_set_default_local_recorder() {
    c01_set_default_local_recorder_body(kani::any());
}

// with_local_recorder(r, f): f runs exactly once with LOCAL == r, its result is returned, and on (normal)
// exit LOCAL is what it was before the call.
pub fn c01_with_local_recorder_body(pre: u8, v: u64) {
    kani::assume(pre < 3);
    let (a, b, c) = (Rec::new(1), Rec::new(2), Rec::new(3));
    let old = pick_ptr(pre, &a, &b);
    set_local(old);
    let mut calls = 0u8;
    let out = crate::with_local_recorder(&c, || {
        calls += 1;
        assert!(local_addr() == addr_of(&c));
        let _ = crate::histogram!("x");
        assert!(c.hits.get() == 1);
        v
    });
    assert!(out == v && calls == 1);
    assert!(local_addr() == opt_addr(old));
    let _ = crate::counter!("x");
    assert!(c.hits.get() == 1);
    assert!(a.hits.get() == if pre == 1 { 1 } else { 0 });
    assert!(b.hits.get() == if pre == 2 { 1 } else { 0 });
    set_local(None);
}
#[cfg(kani)]
#[kani::proof]
fn c01_with_local_recorder() {
    c01_with_local_recorder_body(kani::any(), kani::any());
}

// with_recorder(f): f invoked exactly once, on LOCAL if Some, else on the installed global recorder, else on
// NOOP_RECORDER (identity by data pointer / by which double logged the call); f's result is returned.
pub fn c01_with_recorder_precedence_body(local: u8, global: bool, v: u64) {
    kani::assume(local < 3);
    let (a, b) = (Rec::new(1), Rec::new(2));
    if global {
        assert!(crate::set_global_recorder(GRec).is_ok());
    }
    let g_addr = GLOBAL_RECORDER.try_load().map(|r| r as *const dyn Recorder as *const ());
    assert!(g_addr.is_some() == global);
    set_local(pick_ptr(local, &a, &b));
    let mut calls = 0u8;
    let (out, seen) = crate::with_recorder(|r| {
        calls += 1;
        let _ = r.register_counter(&KEY, &META);
        (v, r as *const dyn Recorder as *const ())
    });
    assert!(calls == 1 && out == v);
    let g_hits = G_HITS.load(AO::SeqCst);
    match local {
        1 => assert!(seen == addr_of(&a) && a.hits.get() == 1 && b.hits.get() == 0 && g_hits == 0),
        2 => assert!(seen == addr_of(&b) && b.hits.get() == 1 && a.hits.get() == 0 && g_hits == 0),
        _ => {
            assert!(a.hits.get() == 0 && b.hits.get() == 0);
            if global {
                assert!(Some(seen) == g_addr && g_hits == 1);
            } else {
                assert!(seen == &NOOP_RECORDER as *const NoopRecorder as *const () && g_hits == 0);
            }
        }
    }
    set_local(None);
    kani::cover!(local == 0 && global);
    kani::cover!(local == 0 && !global);
    kani::cover!(local == 2 && global);
}
#[cfg(kani)]
#[kani::proof]
fn c01_with_recorder_precedence() {
    c01_with_recorder_precedence_body(kani::any(), kani::any(), kani::any());
}

// ------------------------------------------------------------------------------------------------
// bounded symbolic programs over the real thread-local (<= 3 installs, <= STEPS steps: 4 in the quick tier, 5 in the thorough tier)
// ------------------------------------------------------------------------------------------------
pub const MAXI: usize = 3;

// operations of the symbolic program
pub const OP_GUARD: u8 = 0; // g_n = set_default_local_recorder(&rec_n)
pub const OP_OPEN: u8 = 1; // with_local_recorder(&rec_n, || { ...following steps up to the matching OP_CLOSE... })
pub const OP_CLOSE: u8 = 2; // return from the innermost open closure (no-op outside a closure)
pub const OP_DROP0: u8 = 3; // 3,4,5: drop(g_i)            (no-op if g_i is not held)
pub const OP_FORGET0: u8 = 6; // 6,7,8: mem::forget(g_i)     (no-op if g_i is not held)
pub const OP_EMIT: u8 = 9; // counter!("c")
pub const OP_GLOBAL: u8 = 10; // set_global_recorder(GRec)   (no-op if already installed)
pub const OP_MAX: u8 = 10;

// which part of the history space a harness covers; together the three classes are ALL histories
pub const CLASS_NESTED: u8 = 0; // no mem::forget, every scope ends while it is the innermost live one (LIFO)
pub const CLASS_OUT_OF_ORDER: u8 = 1; // no mem::forget, at least one scope ended while NOT innermost; checked from there on
pub const CLASS_FORGET: u8 = 2; // at least one mem::forget(guard); checked from there on

pub struct World<'r, const STEPS: usize> {
    pub recs: [&'r Rec; MAXI], // three separate objects
    pub prog: [u8; STEPS],
    pub class: u8,
    pub guards: [Option<LocalRecorderGuard<'r>>; MAXI],
    // ghost
    pub n: usize,             // recorders installed so far (rec_0 .. rec_{n-1})
    pub live: [bool; MAXI],   // installing borrow of rec_i still alive
    pub stack: [usize; MAXI], // live scopes in installation order, innermost last
    pub sp: usize,
    pub out_of_order: bool, // some scope ended while it was not the innermost live one
    pub forgot: bool,       // some guard was leaked with mem::forget
    pub global: bool,
    pub checked_emits: u8,
    pub closure_emits: u8, // emissions made from inside a with_local_recorder closure
    // verdicts (accumulated, asserted at the end so that one violation does not hide another)
    pub bad_i: bool,        // I violated: LOCAL pointed to a recorder whose installing borrow had ended
    pub bad_d: bool,        // LOCAL was not the innermost live local recorder
    pub bad_dead: bool,     // an emission was dispatched to a recorder after its installing borrow ended
    pub bad_delivery: bool, // an emission was not delivered exactly once to the innermost live recorder / global / no-op
}

impl<'r, const STEPS: usize> World<'r, STEPS> {
    pub fn new(recs: [&'r Rec; MAXI], prog: [u8; STEPS], class: u8) -> Self {
        World {
            recs, prog, class,
            guards: [None, None, None],
            n: 0, live: [false; MAXI], stack: [0; MAXI], sp: 0,
            out_of_order: false, forgot: false, global: false, checked_emits: 0, closure_emits: 0,
            bad_i: false, bad_d: false, bad_dead: false, bad_delivery: false,
        }
    }
    // `recs[i]` / `guards[i]` with the index made concrete first (no pointer with a symbolic offset is formed)
    fn rec(&self, i: usize) -> &'r Rec {
        match i {
            0 => self.recs[0],
            1 => self.recs[1],
            _ => self.recs[2],
        }
    }
    fn take_guard(&mut self, i: usize) -> Option<LocalRecorderGuard<'r>> {
        match i {
            0 => self.guards[0].take(),
            1 => self.guards[1].take(),
            _ => self.guards[2].take(),
        }
    }
    fn put_guard(&mut self, i: usize, g: LocalRecorderGuard<'r>) {
        match i {
            0 => self.guards[0] = Some(g),
            1 => self.guards[1] = Some(g),
            _ => self.guards[2] = Some(g),
        }
    }
    fn innermost(&self) -> Option<usize> {
        if self.sp == 0 { None } else { Some(self.stack[self.sp - 1]) }
    }
    fn begin_scope(&mut self, i: usize) {
        self.live[i] = true;
        self.stack[self.sp] = i;
        self.sp += 1;
    }
    /// the borrow that installed rec_i ends now; returns whether rec_i was the innermost live scope
    fn end_scope(&mut self, i: usize) -> bool {
        let was_innermost = self.innermost() == Some(i);
        let mut k = 0;
        let mut j = 0;
        while j < MAXI {
            if j < self.sp && self.stack[j] != i {
                self.stack[k] = self.stack[j];
                k += 1;
            }
            j += 1;
        }
        self.sp = k;
        self.live[i] = false;
        was_innermost
    }
    /// are the obligations of this harness's class in force at this point of the history?
    fn in_force(&self) -> bool {
        match self.class {
            CLASS_NESTED => true,
            CLASS_OUT_OF_ORDER => self.out_of_order,
            _ => self.forgot,
        }
    }
    fn local_index(&self) -> Option<usize> {
        let p = local_addr();
        if p.is_null() {
            return None;
        }
        let mut i = 0;
        while i < MAXI {
            if p == addr_of(self.recs[i]) {
                return Some(i);
            }
            i += 1;
        }
        assert!(false, "LOCAL points to something that was never installed");
        None
    }
    /// invariant I and the state half of D, required after every API step
    fn check_state(&mut self) {
        if !self.in_force() {
            return;
        }
        let l = self.local_index();
        // I: LOCAL is None or points to a recorder whose installing borrow is still alive
        if let Some(i) = l {
            if !self.live[i] {
                self.bad_i = true;
            }
        }
        // D (state half): LOCAL is the innermost live scope's recorder
        if l != self.innermost() {
            self.bad_d = true;
        }
    }
    fn emit(&mut self) {
        let before = [self.recs[0].hits.get(), self.recs[1].hits.get(), self.recs[2].hits.get()];
        let g_before = G_HITS.load(AO::SeqCst);
        let _ = crate::counter!("c");
        if !self.in_force() {
            return;
        }
        self.checked_emits += 1;
        let want = self.innermost();
        let mut i = 0;
        while i < MAXI {
            let delta = self.recs[i].hits.get() - before[i];
            if delta != 0 && !self.live[i] {
                self.bad_dead = true;
            }
            if delta != (if want == Some(i) { 1 } else { 0 }) {
                self.bad_delivery = true;
            }
            i += 1;
        }
        let g_delta = G_HITS.load(AO::SeqCst) - g_before;
        if g_delta != (if want.is_none() && self.global { 1 } else { 0 }) {
            self.bad_delivery = true;
        }
    }
    /// a guard-held scope ends by drop (forget == false) or is leaked (forget == true)
    fn end_guard(&mut self, i: usize, forget: bool) {
        if let Some(g) = self.take_guard(i) {
            if self.class == CLASS_NESTED {
                // the general class: scopes end innermost-first and nothing is leaked
                kani::assume(!forget && self.innermost() == Some(i));
            }
            if self.class == CLASS_OUT_OF_ORDER {
                kani::assume(!forget);
            }
            if forget {
                std::mem::forget(g);
                self.forgot = true;
            } else {
                drop(g);
            }
            if !self.end_scope(i) && !forget {
                self.out_of_order = true;
            }
        }
    }
}

/// Runs the program from the (concrete) position `pc` at closure depth `depth`; returns the position after the
/// OP_CLOSE that ended this closure level (or STEPS).  `pc` is concrete at every call site, so CBMC unfolds the
/// recursion into finitely many straight-line copies (about 2^STEPS).
pub fn exec<const STEPS: usize>(w: &mut World<'_, STEPS>, pc: usize, depth: u8) -> usize {
    if pc >= STEPS {
        return STEPS;
    }
    let op = w.prog[pc];
    if op == OP_OPEN && w.n < MAXI {
        let i = w.n;
        w.n += 1;
        let rec = w.rec(i);
        let next = crate::with_local_recorder(rec, || {
            w.begin_scope(i);
            w.check_state();
            exec(w, pc + 1, depth + 1)
        });
        // the closure returned: the borrow of rec_i ends here (a guard created inside and carried out of the
        // closure makes this an out-of-order end)
        if w.class == CLASS_NESTED {
            kani::assume(w.innermost() == Some(i));
        }
        if !w.end_scope(i) {
            w.out_of_order = true;
        }
        w.check_state();
        // continue after the closure; `next` is symbolic, make it concrete again
        let mut c = pc + 2;
        while c < STEPS {
            if next == c {
                return exec(w, c, depth);
            }
            c += 1;
        }
        return STEPS;
    }
    if op == OP_CLOSE && depth > 0 {
        return pc + 1;
    }
    if op == OP_GUARD && w.n < MAXI {
        let i = w.n;
        w.n += 1;
        let rec = w.rec(i);
        let g = crate::set_default_local_recorder(rec);
        w.put_guard(i, g);
        w.begin_scope(i);
    } else if op >= OP_DROP0 && op < OP_DROP0 + 3 {
        w.end_guard((op - OP_DROP0) as usize, false);
    } else if op >= OP_FORGET0 && op < OP_FORGET0 + 3 {
        w.end_guard((op - OP_FORGET0) as usize, true);
    } else if op == OP_EMIT {
        w.emit();
        if depth > 0 {
            w.closure_emits += 1;
        }
    } else if op == OP_GLOBAL && !w.global {
        assert!(crate::set_global_recorder(GRec).is_ok());
        w.global = true;
    }
    w.check_state();
    exec(w, pc + 1, depth)
}

pub fn run_program<const STEPS: usize>(class: u8, prog: [u8; STEPS]) {
    let mut k = 0;
    while k < STEPS {
        kani::assume(prog[k] <= OP_MAX);
        k += 1;
    }
    let (r0, r1, r2) = (Rec::new(0), Rec::new(1), Rec::new(2));
    set_local(None);
    let mut w: World<'_, STEPS> = World::new([&r0, &r1, &r2], prog, class);
    w.check_state();
    exec(&mut w, 0, 0);
    // end of the program: guards still held go out of scope innermost-first (reverse declaration order)
    let mut i = MAXI;
    while i > 0 {
        i -= 1;
        if let Some(g) = w.take_guard(i) {
            if class == CLASS_NESTED {
                kani::assume(w.innermost() == Some(i));
            }
            drop(g);
            if !w.end_scope(i) {
                w.out_of_order = true;
            }
            w.check_state();
        }
    }
    // one final emission
    w.emit();
    if class == CLASS_NESTED {
        assert!(!w.out_of_order && !w.forgot);
        assert!(local_addr().is_null(), "every scope ended: no local recorder is installed");
    }
    kani::cover!(w.checked_emits >= 2);
    kani::cover!(w.n == 3 && w.checked_emits >= 1);
    kani::cover!(w.closure_emits >= 1 && w.sp == 0); // a closure was opened, emitted in, and left
    let (bad_i, bad_d, bad_dead, bad_delivery) = (w.bad_i, w.bad_d, w.bad_dead, w.bad_delivery);
    set_local(None);
    assert!(!bad_dead, "an emission was dispatched to a recorder after the borrow that installed it had ended");
    assert!(!bad_i, "I: LOCAL pointed to a recorder whose installing borrow had ended");
    assert!(!bad_d, "D: LOCAL was not the innermost live local recorder");
    assert!(!bad_delivery, "D: an emission was not delivered exactly once to the innermost live local recorder (else global, else no-op)");
}

// bounded(<= 3 installs, <= 4 steps), class NESTED: every program whose scopes end innermost-first (closures by
// construction, guards by discipline), mixing guards, closures, emissions and a global installation: I and D hold
// after every step and at every emission.
pub fn c01_scopes_nested_body(o0: u8, o1: u8, o2: u8, o3: u8) {
    run_program(CLASS_NESTED, [o0, o1, o2, o3]);
}
#[cfg(kani)]
#[kani::proof]
fn c01_scopes_nested() {
    c01_scopes_nested_body(kani::any(), kani::any(), kani::any(), kani::any());
}

// the same with <= 5 steps (thorough tier; 6 steps exceeded 14 GB / 19 min in CBMC)
pub fn c01_scopes_nested5_body(o0: u8, o1: u8, o2: u8, o3: u8, o4: u8) {
    run_program(CLASS_NESTED, [o0, o1, o2, o3, o4]);
}
#[cfg(kani)]
#[kani::proof]
fn c01_scopes_nested5() {
    c01_scopes_nested5_body(kani::any(), kani::any(), kani::any(), kani::any(), kani::any());
}

// bounded, class OUT_OF_ORDER: programs (without mem::forget) in which some scope ends while it is not the
// innermost live one -- e.g. guard A, guard B, drop(guard A), drop(guard B).  I and D are required from the
// first such event on.  FAILS on the pinned tree (finding, see FINDINGS.md).
pub fn c01_guard_fifo_drop_body(o0: u8, o1: u8, o2: u8, o3: u8) {
    run_program(CLASS_OUT_OF_ORDER, [o0, o1, o2, o3]);
}
#[cfg(kani)]
#[kani::proof]
fn c01_guard_fifo_drop() {
    c01_guard_fifo_drop_body(kani::any(), kani::any(), kani::any(), kani::any());
}

// bounded, class FORGET: programs containing mem::forget(guard).  I and D are required from the first forget
// on.  FAILS on the pinned tree (finding, see FINDINGS.md).
pub fn c01_guard_forget_body(o0: u8, o1: u8, o2: u8, o3: u8) {
    run_program(CLASS_FORGET, [o0, o1, o2, o3]);
}
#[cfg(kani)]
#[kani::proof]
fn c01_guard_forget() {
    c01_guard_forget_body(kani::any(), kani::any(), kani::any(), kani::any());
}
