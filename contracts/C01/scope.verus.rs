// C01 -- "ending a local scope (normally or by a panic unwinding through it) restores the recorder that was in scope before
// it": structural contract on metrics/src/recorder/mod.rs `with_local_recorder`, extracted verbatim on every run.
// Kani does not unwind; what makes the restore happen on the panic path is that it is performed by the DESTRUCTOR of a value
// that is alive while the closure runs.  That is what is stated here: the closure is called while the guard created by
// LocalRecorderGuard::new is still alive (borrowed by the call) and armed.  LocalRecorderGuard::{new, drop} themselves are
// under Kani contracts (c01_guard_*, incl. Drop with thread::panicking() stubbed to true).
#![allow(unused_imports, dead_code, unused_variables, unused_mut)]
use vstd::prelude::*;

verus! {

//@INCLUDE prelude/std_extra.rs

pub trait Recorder {}

/// stub of the real guard: `armed` = its destructor will put the previous recorder back
#[verifier::external_body]
pub struct LocalRecorderGuard<'a> { _p: core::marker::PhantomData<&'a u8> }
impl<'a> LocalRecorderGuard<'a> {
    pub uninterp spec fn armed(&self) -> bool;
    pub uninterp spec fn installs(&self, r: &'a dyn Recorder) -> bool;
    #[verifier::external_body]
    pub fn new(recorder: &'a (dyn Recorder + 'a)) -> (g: Self) ensures g.armed(), g.installs(recorder) { unimplemented!() }
}

pub uninterp spec fn ran_protected<T>(r: &dyn Recorder, out: T) -> bool;

/// R44: the closure call `f()` inside with_local_recorder becomes `shim_call_in_scope(&<guard variable>, recorder, f)`: the call
/// borrows the guard, so the guard is alive (its destructor still pending) for the whole call -- also when the call unwinds.
#[verifier::external_body]
pub fn shim_call_in_scope<'a, T, F: FnOnce() -> T>(guard: &LocalRecorderGuard<'a>, recorder: &'a dyn Recorder, f: F) -> (out: T)
    requires guard.armed(), guard.installs(recorder),
    ensures ran_protected(recorder, out),
{ f() }

//@ITEM file=metrics/src/recorder/mod.rs sel=fn with_local_recorder ret=out
//@REWRITE R44 re:\bf\(\) ==> shim_call_in_scope(&_local, recorder, f)
//@SPEC
    ensures ran_protected(recorder, out),
//@END

} // verus!
fn main() {}
