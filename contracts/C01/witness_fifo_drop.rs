// Witness for the finding C01/kani/c01_guard_fifo_drop (derived from the Kani counterexample
// [OP_GUARD, OP_GUARD, OP_DROP0, OP_DROP1] + final emission):
//   install A (guard a), install B (guard b), drop(guard a), drop(guard b), emit.
// Drop(guard a) restores LOCAL := None (A's saved previous) although B is still in scope, and drop(guard b)
// restores LOCAL := A, whose installing borrow ended when guard a was dropped.  The emission after both scopes
// have ended is dispatched to A.  FAILS on the real crate while the defect is present.
use super::*;
use std::sync::atomic::{AtomicBool, AtomicUsize, Ordering};

/// Recording double with a liveness flag.  It is `Box::leak`ed in the tests, so reaching it after its scope
/// ended is observable WITHOUT undefined behaviour; `alive == false` stands for "the borrow that installed this
/// recorder has ended: its owner may have dropped or reused it".
struct Flagged {
    alive: AtomicBool,
    hits: AtomicUsize,
    hits_after_end: AtomicUsize,
}
impl Flagged {
    fn leaked() -> &'static Flagged {
        Box::leak(Box::new(Flagged { alive: AtomicBool::new(true), hits: AtomicUsize::new(0), hits_after_end: AtomicUsize::new(0) }))
    }
    fn end_of_borrow(&self) {
        self.alive.store(false, Ordering::SeqCst);
    }
    fn hit(&self) {
        self.hits.fetch_add(1, Ordering::SeqCst);
        if !self.alive.load(Ordering::SeqCst) {
            self.hits_after_end.fetch_add(1, Ordering::SeqCst);
        }
    }
}
impl Recorder for Flagged {
    fn describe_counter(&self, _: KeyName, _: Option<Unit>, _: SharedString) {
        self.hit()
    }
    fn describe_gauge(&self, _: KeyName, _: Option<Unit>, _: SharedString) {
        self.hit()
    }
    fn describe_histogram(&self, _: KeyName, _: Option<Unit>, _: SharedString) {
        self.hit()
    }
    fn register_counter(&self, _: &Key, _: &Metadata<'_>) -> Counter {
        self.hit();
        Counter::noop()
    }
    fn register_gauge(&self, _: &Key, _: &Metadata<'_>) -> Gauge {
        self.hit();
        Gauge::noop()
    }
    fn register_histogram(&self, _: &Key, _: &Metadata<'_>) -> Histogram {
        self.hit();
        Histogram::noop()
    }
}


/// Safe Rust accepts the same history with recorders that are really freed (never called: it would be a
/// use-after-free inside `with_recorder`).  No `unsafe`, no lifetime error: the API is unsound for this history.
#[allow(dead_code)]
fn safe_rust_accepts_the_history_with_really_freed_recorders() {
    let a = Box::new(NoopRecorder);
    let b = Box::new(NoopRecorder);
    let guard_a = crate::set_default_local_recorder(&*a);
    let guard_b = crate::set_default_local_recorder(&*b);
    drop(guard_a);
    drop(a); // accepted: the borrow of `a` ended with its guard
    drop(guard_b);
    drop(b);
    crate::counter!("dangling").increment(1); // LOCAL_RECORDER still points to the freed `a`
}

#[test]
fn guards_dropped_in_creation_order_must_not_leave_an_ended_recorder_installed() {
    let a = Flagged::leaked();
    let b = Flagged::leaked();
    let guard_a = crate::set_default_local_recorder(a);
    let guard_b = crate::set_default_local_recorder(b);
    crate::counter!("in_scope").increment(1);
    assert_eq!((a.hits.load(Ordering::SeqCst), b.hits.load(Ordering::SeqCst)), (0, 1), "innermost recorder B receives the emission");

    drop(guard_a); // the borrow that installed A ends here
    a.end_of_borrow();
    // B's guard is still alive: B is the innermost (and only) local recorder in scope
    crate::counter!("b_still_in_scope").increment(1);
    let b_hits_mid = b.hits.load(Ordering::SeqCst);

    drop(guard_b); // the borrow that installed B ends here
    b.end_of_borrow();

    // every local scope has ended: this emission must go to the global / no-op recorder
    crate::counter!("after_all_scopes_ended").increment(1);

    let after_end = a.hits_after_end.load(Ordering::SeqCst) + b.hits_after_end.load(Ordering::SeqCst);
    // leave the thread-local clean whatever happened (the leaked doubles stay valid, so nothing dangles for real)
    LOCAL_RECORDER.with(|l| l.set(None));
    assert_eq!(after_end, 0, "an emission was dispatched to a recorder after the borrow that installed it had ended");
    assert_eq!(b_hits_mid, 2, "while only B's guard is alive, B must receive the emission");
}
