// Witness for the finding C01/kani/c01_guard_forget (derived from the Kani counterexample
// [OP_GUARD, OP_FORGET0] + final emission):
//   install A (guard a), mem::forget(guard a), emit.
// `mem::forget` is safe and consumes the guard, which ends the borrow `'a` that installed A; Drop never runs, so
// LOCAL keeps pointing to A for the rest of the thread's life.  FAILS on the real crate while the defect is present.
use super::*;
use std::sync::atomic::{AtomicBool, AtomicUsize, Ordering};

/// Recording double with a liveness flag.  It is `Box::leak`ed in the tests, so reaching it after its scope
/// ended is observable WITHOUT undefined behaviour; `alive == false` stands for "the borrow that installed this
/// recorder has ended: its owner may have dropped or reused it".
struct Flagged {
    alive: AtomicBool,
    hits: AtomicUsize,
    hits_after_end: AtomicUsize,
}
impl Flagged {
    fn leaked() -> &'static Flagged {
        Box::leak(Box::new(Flagged { alive: AtomicBool::new(true), hits: AtomicUsize::new(0), hits_after_end: AtomicUsize::new(0) }))
    }
    fn end_of_borrow(&self) {
        self.alive.store(false, Ordering::SeqCst);
    }
    fn hit(&self) {
        self.hits.fetch_add(1, Ordering::SeqCst);
        if !self.alive.load(Ordering::SeqCst) {
            self.hits_after_end.fetch_add(1, Ordering::SeqCst);
        }
    }
}
impl Recorder for Flagged {
    fn describe_counter(&self, _: KeyName, _: Option<Unit>, _: SharedString) {
        self.hit()
    }
    fn describe_gauge(&self, _: KeyName, _: Option<Unit>, _: SharedString) {
        self.hit()
    }
    fn describe_histogram(&self, _: KeyName, _: Option<Unit>, _: SharedString) {
        self.hit()
    }
    fn register_counter(&self, _: &Key, _: &Metadata<'_>) -> Counter {
        self.hit();
        Counter::noop()
    }
    fn register_gauge(&self, _: &Key, _: &Metadata<'_>) -> Gauge {
        self.hit();
        Gauge::noop()
    }
    fn register_histogram(&self, _: &Key, _: &Metadata<'_>) -> Histogram {
        self.hit();
        Histogram::noop()
    }
}


/// Safe Rust accepts the same history with a recorder that is really freed (never called: use-after-free).
#[allow(dead_code)]
fn safe_rust_accepts_the_history_with_a_really_freed_recorder() {
    let a = Box::new(NoopRecorder);
    let guard_a = crate::set_default_local_recorder(&*a);
    std::mem::forget(guard_a);
    drop(a); // accepted: the borrow of `a` ended when the guard was consumed
    crate::counter!("dangling").increment(1); // LOCAL_RECORDER still points to the freed `a`
}

#[test]
fn a_forgotten_guard_must_not_leave_an_ended_recorder_installed() {
    let a = Flagged::leaked();
    let guard_a = crate::set_default_local_recorder(a);
    crate::counter!("in_scope").increment(1);
    assert_eq!(a.hits.load(Ordering::SeqCst), 1);

    std::mem::forget(guard_a); // safe; the borrow that installed A ends here
    a.end_of_borrow();

    crate::counter!("after_scope_ended").increment(1);

    let after_end = a.hits_after_end.load(Ordering::SeqCst);
    LOCAL_RECORDER.with(|l| l.set(None));
    assert_eq!(after_end, 0, "an emission was dispatched to a recorder after the borrow that installed it had ended");
}
