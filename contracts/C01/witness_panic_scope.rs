// Hand-derived from the contract of `with_local_recorder` ("ending a local scope ... by a panic unwinding through it restores
// the recorder that was in scope before it"): one concrete run on the real crate.
use super::*;
use std::sync::atomic::{AtomicUsize, Ordering};

struct CountingRecorder(AtomicUsize);
impl Recorder for CountingRecorder {
    fn describe_counter(&self, _: crate::KeyName, _: Option<crate::Unit>, _: crate::SharedString) { self.0.fetch_add(1, Ordering::SeqCst); }
    fn describe_gauge(&self, _: crate::KeyName, _: Option<crate::Unit>, _: crate::SharedString) {}
    fn describe_histogram(&self, _: crate::KeyName, _: Option<crate::Unit>, _: crate::SharedString) {}
    fn register_counter(&self, _: &crate::Key, _: &crate::Metadata<'_>) -> crate::Counter { crate::Counter::noop() }
    fn register_gauge(&self, _: &crate::Key, _: &crate::Metadata<'_>) -> crate::Gauge { crate::Gauge::noop() }
    fn register_histogram(&self, _: &crate::Key, _: &crate::Metadata<'_>) -> crate::Histogram { crate::Histogram::noop() }
}

#[test]
fn a_panic_unwinding_through_a_local_scope_restores_the_previous_recorder() {
    let outer = CountingRecorder(AtomicUsize::new(0));
    let inner = CountingRecorder(AtomicUsize::new(0));
    with_local_recorder(&outer, || {
        let r = std::panic::catch_unwind(std::panic::AssertUnwindSafe(|| {
            with_local_recorder(&inner, || {
                with_recorder(|r| r.describe_counter("a".into(), None, "".into()));
                panic!("unwind through the inner scope");
            })
        }));
        assert!(r.is_err());
        // the inner scope has ended: this emission belongs to the outer recorder
        with_recorder(|r| r.describe_counter("b".into(), None, "".into()));
    });
    assert_eq!(inner.0.load(Ordering::SeqCst), 1, "nothing reaches a recorder whose scope ended");
    assert_eq!(outer.0.load(Ordering::SeqCst), 1, "the previous recorder is back in scope after the panic");
    // and after the outermost scope nothing is installed locally any more
    with_recorder(|r| r.describe_counter("c".into(), None, "".into()));
    assert_eq!(inner.0.load(Ordering::SeqCst) + outer.0.load(Ordering::SeqCst), 2);
}
