// C02 -- contracts on the real `RecorderOnceCell::{set, try_load}` (metrics/src/recorder/cell.rs),
// `set_global_recorder` and the global/no-op arm of `with_recorder` (metrics/src/recorder/mod.rs).
//
// Rely/guarantee (module `rg`): the three atomic operations on the cell's state word are replaced by stubs
// that FIRST let the environment (any number of other installer threads obeying the protocol) take any
// number of steps, THEN perform the real access through `as_ptr()`, and assert the guarantee for MY writes.
// Both functions under contract are loop-free, so one execution with interference at every atomic step is
// every interleaving at atomic-step granularity under sequential consistency.
//
//   protocol state  st in {0 UNINITIALIZED, 1 INITIALIZING, 2 INITIALIZED}, ghost `OTHER_WROTE`, `ME_OWNER`
//   rely            while I do not hold INITIALIZING: 0 -> 1, then (write cell := OTHER), then 1 -> 2;
//                   nothing once st == 2; nothing at all while I hold INITIALIZING
//   guarantee       my CAS is 0 -> 1 only; I touch the cell only while I hold INITIALIZING (set) or after
//                   my load observed INITIALIZED (try_load); my store is 1 -> 2, only after my cell write
use super::*;
use crate::{Counter, Gauge, Histogram, Key, KeyName, Level, Metadata, SharedString, Unit};

static KEY: Key = Key::from_static_name("k");
static META: Metadata<'static> = Metadata::new("t", Level::INFO, None);

// ------------------------------------------------------------------------------------------------
// Sequential contract (no stubs, replayable): first set wins, second set gets the very recorder back.
// ------------------------------------------------------------------------------------------------
pub mod seq {
    use super::*;
    use std::cell::Cell;
    thread_local! {
        pub static DROPS: Cell<[u8; 3]> = Cell::new([0; 3]);
        pub static HITS: Cell<[u8; 3]> = Cell::new([0; 3]);
    }
    pub fn bump(c: &'static std::thread::LocalKey<Cell<[u8; 3]>>, i: u8) {
        c.with(|c| {
            let mut a = c.get();
            a[i as usize] += 1;
            c.set(a);
        })
    }
    pub fn get(c: &'static std::thread::LocalKey<Cell<[u8; 3]>>, i: u8) -> u8 {
        c.with(|c| c.get()[i as usize])
    }
    pub struct Dbl {
        pub id: u8,
        pub tag: u32,
    }
    impl Drop for Dbl {
        fn drop(&mut self) {
            bump(&DROPS, self.id)
        }
    }
    impl Recorder for Dbl {
        fn describe_counter(&self, _: KeyName, _: Option<Unit>, _: SharedString) {
            bump(&HITS, self.id)
        }
        fn describe_gauge(&self, _: KeyName, _: Option<Unit>, _: SharedString) {
            bump(&HITS, self.id)
        }
        fn describe_histogram(&self, _: KeyName, _: Option<Unit>, _: SharedString) {
            bump(&HITS, self.id)
        }
        fn register_counter(&self, _: &Key, _: &Metadata<'_>) -> Counter {
            bump(&HITS, self.id);
            Counter::noop()
        }
        fn register_gauge(&self, _: &Key, _: &Metadata<'_>) -> Gauge {
            bump(&HITS, self.id);
            Gauge::noop()
        }
        fn register_histogram(&self, _: &Key, _: &Metadata<'_>) -> Histogram {
            bump(&HITS, self.id);
            Histogram::noop()
        }
    }
}

// ensures (no concurrency): try_load == None before any set; the first set returns Ok, leaves state INITIALIZED and
// the cell holding the recorder given (never dropped); every later set returns Err carrying the very recorder
// passed (same identity/payload, not dropped by the library, dropped exactly once by the caller), cell unchanged.
pub fn c02_sequential_body(tag1: u32, tag2: u32) {
    use seq::*;
    let cell = RecorderOnceCell::new();
    assert!(cell.try_load().is_none());
    assert!(cell.state.load(Ordering::SeqCst) == UNINITIALIZED);
    let r1 = cell.set(Dbl { id: 1, tag: tag1 });
    assert!(r1.is_ok());
    assert!(cell.state.load(Ordering::SeqCst) == INITIALIZED);
    assert!(get(&DROPS, 1) == 0);
    let p1 = cell.try_load().expect("INITIALIZED => Some");
    p1.register_counter(&KEY, &META);
    assert!(get(&HITS, 1) == 1 && get(&HITS, 2) == 0);
    let p1_addr = p1 as *const dyn Recorder as *const ();
    assert!(unsafe { (*(p1_addr as *const Dbl)).tag } == tag1);

    let r2 = cell.set(Dbl { id: 2, tag: tag2 });
    assert!(get(&DROPS, 2) == 0);
    match r2 {
        Ok(()) => assert!(false, "second installation succeeded"),
        Err(e) => {
            assert!(e.0.id == 2 && e.0.tag == tag2);
            assert!(get(&DROPS, 2) == 0);
            let back = e.into_inner();
            assert!(back.id == 2 && back.tag == tag2);
            drop(back);
            assert!(get(&DROPS, 2) == 1);
        }
    }
    assert!(cell.state.load(Ordering::SeqCst) == INITIALIZED);
    let p2 = cell.try_load().expect("still installed");
    assert!(p2 as *const dyn Recorder as *const () == p1_addr);
    p2.register_gauge(&KEY, &META);
    assert!(get(&HITS, 1) == 2 && get(&HITS, 2) == 0);
    assert!(get(&DROPS, 1) == 0);
}
#[cfg(kani)]
#[kani::proof]
fn c02_sequential() {
    c02_sequential_body(kani::any(), kani::any());
}

// ------------------------------------------------------------------------------------------------
// Rely/guarantee harnesses
// ------------------------------------------------------------------------------------------------
#[cfg(kani)]
mod rg {
    use super::*;
    use core::sync::atomic::AtomicUsize;

    // recording doubles: ids 1, 2 are recorders I pass to set(); id 3 is the one another thread installs
    pub static mut DROPS: [u8; 4] = [0; 4];
    pub static mut HITS: [u8; 4] = [0; 4];
    pub struct Dbl {
        pub id: u8,
        pub tag: u32,
    }
    impl Drop for Dbl {
        fn drop(&mut self) {
            unsafe { DROPS[self.id as usize] += 1 }
        }
    }
    fn hit(id: u8) {
        unsafe { HITS[id as usize] += 1 }
    }
    impl Recorder for Dbl {
        fn describe_counter(&self, _: KeyName, _: Option<Unit>, _: SharedString) {
            hit(self.id)
        }
        fn describe_gauge(&self, _: KeyName, _: Option<Unit>, _: SharedString) {
            hit(self.id)
        }
        fn describe_histogram(&self, _: KeyName, _: Option<Unit>, _: SharedString) {
            hit(self.id)
        }
        fn register_counter(&self, _: &Key, _: &Metadata<'_>) -> Counter {
            hit(self.id);
            Counter::noop()
        }
        fn register_gauge(&self, _: &Key, _: &Metadata<'_>) -> Gauge {
            hit(self.id);
            Gauge::noop()
        }
        fn register_histogram(&self, _: &Key, _: &Metadata<'_>) -> Histogram {
            hit(self.id);
            Histogram::noop()
        }
    }
    pub static OTHER: Dbl = Dbl { id: 3, tag: 0x00C0_FFEE };

    // ---- ghost protocol state ----
    static mut CELL: *const RecorderOnceCell = core::ptr::null();
    static mut ME_OWNER: bool = false; // I hold INITIALIZING
    static mut OTHER_WROTE: bool = false; // another thread wrote the cell (it held INITIALIZING then)
    static mut MY_CAS: u8 = 0;
    static mut MY_CAS_WON: u8 = 0;
    static mut MY_STORES: u8 = 0;
    static mut MY_LOADS: u8 = 0;
    static mut LAST_LOAD: usize = 99;
    // what I am executing: 0 = harness code, 1 = inside set(), 2 = inside try_load() (also via with_recorder)
    static mut MODE: u8 = 0;
    static mut MY_CELL_ACCESSES: u8 = 0;

    unsafe fn slot() -> *mut Option<&'static dyn Recorder> {
        // UnsafeCell<T> is repr(transparent): this is what UnsafeCell::get does (not called: it is stubbed)
        &(*CELL).recorder as *const UnsafeCell<Option<&'static dyn Recorder>> as *mut Option<&'static dyn Recorder>
    }
    unsafe fn st() -> *mut usize {
        (*CELL).state.as_ptr()
    }
    unsafe fn is_state_word(a: &AtomicUsize) -> bool {
        !CELL.is_null() && core::ptr::eq(a, &(*CELL).state)
    }
    fn addr(r: &dyn Recorder) -> *const () {
        r as *const dyn Recorder as *const ()
    }
    unsafe fn id_of(r: &dyn Recorder) -> u8 {
        // every recorder that can be in the cell in these harnesses is a `Dbl`
        (*(addr(r) as *const Dbl)).id
    }
    // representation invariant of the cell (checked wherever the harness looks at the final state)
    unsafe fn repr_ok() -> bool {
        let s = *st();
        let c = *slot();
        (s != INITIALIZED || c.is_some()) && (s != UNINITIALIZED || c.is_none()) && s <= INITIALIZED
    }

    // RELY: the closure of the other threads' protocol steps.  The transition system is the chain
    //   (0, None) -> (1, None) -> (1, Some(OTHER)) -> (2, Some(OTHER))
    // and is enabled only while I do not hold INITIALIZING; `n` picks how far the environment advances.
    unsafe fn interfere() {
        if ME_OWNER {
            // every other thread's CAS fails and its loads see INITIALIZING: no writes at all
            return;
        }
        let n: u8 = kani::any();
        if n >= 1 && *st() == UNINITIALIZED {
            *st() = INITIALIZING;
        }
        if n >= 2 && *st() == INITIALIZING && !OTHER_WROTE {
            *slot() = Some(&OTHER);
            OTHER_WROTE = true;
        }
        if n >= 3 && *st() == INITIALIZING && OTHER_WROTE {
            *st() = INITIALIZED;
        }
    }

    pub fn cas_stub(a: &AtomicUsize, current: usize, new: usize, _s: Ordering, _f: Ordering) -> Result<usize, usize> {
        unsafe {
            if !is_state_word(a) {
                let p = a.as_ptr();
                let cur = *p;
                return if cur == current { *p = new; Ok(cur) } else { Err(cur) };
            }
            interfere();
            // GUARANTEE: my compare_exchange is UNINITIALIZED -> INITIALIZING and nothing else, only from set()
            assert!(MODE == 1);
            assert!(current == UNINITIALIZED && new == INITIALIZING);
            MY_CAS += 1;
            let p = a.as_ptr();
            let cur = *p;
            if cur == current {
                *p = new;
                ME_OWNER = true;
                MY_CAS_WON += 1;
                Ok(cur)
            } else {
                Err(cur)
            }
        }
    }

    pub fn store_stub(a: &AtomicUsize, val: usize, _o: Ordering) {
        unsafe {
            if !is_state_word(a) {
                *a.as_ptr() = val;
                return;
            }
            interfere();
            // GUARANTEE: my only store is INITIALIZING -> INITIALIZED, while I hold INITIALIZING, after my cell write
            assert!(MODE == 1);
            assert!(ME_OWNER);
            assert!(*a.as_ptr() == INITIALIZING && val == INITIALIZED);
            match *slot() {
                Some(r) => assert!(id_of(r) == 1 || id_of(r) == 2),
                None => assert!(false, "INITIALIZED published before the cell was written"),
            }
            *a.as_ptr() = val;
            ME_OWNER = false;
            MY_STORES += 1;
        }
    }

    pub fn load_stub(a: &AtomicUsize, _o: Ordering) -> usize {
        unsafe {
            if !is_state_word(a) {
                return *a.as_ptr();
            }
            interfere();
            let v = *a.as_ptr();
            LAST_LOAD = v;
            MY_LOADS += 1;
            v
        }
    }

    // Every UnsafeCell::get in the program goes through here (same result as the real one).  When it is the
    // recorder slot of the cell under contract it is one of MY accesses:
    // GUARANTEE: inside set() only while I hold INITIALIZING; inside try_load() only after my load saw INITIALIZED.
    pub fn get_stub<T: ?Sized>(c: &UnsafeCell<T>) -> *mut T {
        let p = c as *const UnsafeCell<T> as *const T as *mut T;
        unsafe {
            if !CELL.is_null() && p as *const () == slot() as *const () {
                MY_CELL_ACCESSES += 1;
                match MODE {
                    1 => assert!(ME_OWNER && *st() == INITIALIZING),
                    2 => assert!(LAST_LOAD == INITIALIZED && *st() == INITIALIZED),
                    _ => assert!(false, "cell accessed outside set/try_load"),
                }
            }
        }
        p
    }

    fn my_set(cell: &RecorderOnceCell, id: u8, tag: u32) -> Result<(), SetRecorderError<Dbl>> {
        unsafe { MODE = 1 };
        let r = cell.set(Dbl { id, tag });
        unsafe { MODE = 0 };
        r
    }
    fn my_try_load(cell: &RecorderOnceCell) -> Option<&'static dyn Recorder> {
        unsafe { MODE = 2 };
        let r = cell.try_load();
        unsafe { MODE = 0 };
        r
    }

    // post-condition of one set() call of mine, given the ghost counters before it
    unsafe fn check_set(r: Result<(), SetRecorderError<Dbl>>, id: u8, tag: u32, cas_before: u8, won_before: u8, stores_before: u8, cell_before: Option<*const ()>) -> bool {
        assert!(MY_CAS == cas_before + 1); // exactly one CAS attempt
        let won = MY_CAS_WON == won_before + 1;
        assert!(r.is_ok() == won); // Ok iff my CAS won
        assert!(!ME_OWNER); // INITIALIZING is never left held
        assert!(repr_ok());
        assert!(DROPS[id as usize] == 0); // the library never drops the recorder
        match r {
            Ok(()) => {
                assert!(MY_STORES == stores_before + 1);
                assert!(*st() == INITIALIZED); // absorbing: the environment cannot move on
                let got = (*slot()).expect("INITIALIZED => cell written");
                assert!(id_of(got) == id);
                assert!((*(addr(got) as *const Dbl)).tag == tag); // fully constructed: the payload given
                assert!(!OTHER_WROTE); // exclusivity: nobody else wrote the cell
                true
            }
            Err(e) => {
                assert!(MY_STORES == stores_before);
                assert!(e.0.id == id && e.0.tag == tag); // the very recorder that was passed
                assert!(*st() != UNINITIALIZED); // somebody else won (or had won)
                // the cell was not touched by me: it holds what it held / what the environment wrote
                match *slot() {
                    None => assert!(cell_before.is_none() && !OTHER_WROTE),
                    Some(p) => assert!(Some(addr(p)) == cell_before || (cell_before.is_none() && OTHER_WROTE && addr(p) == addr(&OTHER))),
                }
                let back = e.into_inner();
                assert!(DROPS[id as usize] == 0);
                drop(back); // intact: exactly one drop, performed by the caller
                assert!(DROPS[id as usize] == 1);
                false
            }
        }
    }

    // set(r): Ok iff my CAS won; Err hands back r; Ok leaves INITIALIZED with the leaked r in the cell.
    #[kani::proof]
    #[kani::stub(core::sync::atomic::Atomic::<usize>::compare_exchange, cas_stub)]
    #[kani::stub(core::sync::atomic::Atomic::<usize>::store, store_stub)]
    #[kani::stub(core::sync::atomic::Atomic::<usize>::load, load_stub)]
    #[kani::stub(core::cell::UnsafeCell::get, get_stub)]
    fn c02_set_rg() {
        let cell = RecorderOnceCell::new();
        let tag: u32 = kani::any();
        unsafe {
            CELL = &cell;
            let r = my_set(&cell, 1, tag);
            let ok = check_set(r, 1, tag, 0, 0, 0, None);
            assert!(MY_CELL_ACCESSES == if ok { 1 } else { 0 });
            assert!(MY_LOADS == 0);
            kani::cover!(ok);
            kani::cover!(!ok && *st() == INITIALIZING && !OTHER_WROTE);
            kani::cover!(!ok && *st() == INITIALIZING && OTHER_WROTE);
            kani::cover!(!ok && *st() == INITIALIZED);
        }
    }

    // two installations of mine on the same cell, environment running in between: at most one succeeds,
    // the loser gets its recorder back, the winner's recorder stays installed.
    #[kani::proof]
    #[kani::stub(core::sync::atomic::Atomic::<usize>::compare_exchange, cas_stub)]
    #[kani::stub(core::sync::atomic::Atomic::<usize>::store, store_stub)]
    #[kani::stub(core::sync::atomic::Atomic::<usize>::load, load_stub)]
    #[kani::stub(core::cell::UnsafeCell::get, get_stub)]
    fn c02_set_twice_rg() {
        let cell = RecorderOnceCell::new();
        let (t1, t2): (u32, u32) = (kani::any(), kani::any());
        unsafe {
            CELL = &cell;
            let r1 = my_set(&cell, 1, t1);
            let ok1 = check_set(r1, 1, t1, 0, 0, 0, None);
            let before = (*slot()).map(|p| addr(p));
            let (c, w, s) = (MY_CAS, MY_CAS_WON, MY_STORES);
            let r2 = my_set(&cell, 2, t2);
            let ok2 = check_set(r2, 2, t2, c, w, s, before);
            assert!(!ok2); // a second installation never succeeds ...
            assert!(MY_CAS_WON <= 1); // ... because the 0 -> 1 edge is taken at most once
            if ok1 {
                let got = (*slot()).unwrap();
                assert!(id_of(got) == 1 && *st() == INITIALIZED);
            }
            kani::cover!(ok1);
            kani::cover!(!ok1);
        }
    }

    // try_load(): Some(p) iff my load observed INITIALIZED, p is the published recorder, the cell is not read
    // otherwise (get_stub), and once Some(p) was returned every later try_load returns the same p.
    #[kani::proof]
    #[kani::stub(core::sync::atomic::Atomic::<usize>::compare_exchange, cas_stub)]
    #[kani::stub(core::sync::atomic::Atomic::<usize>::store, store_stub)]
    #[kani::stub(core::sync::atomic::Atomic::<usize>::load, load_stub)]
    #[kani::stub(core::cell::UnsafeCell::get, get_stub)]
    fn c02_try_load_rg() {
        let cell = RecorderOnceCell::new();
        unsafe {
            CELL = &cell;
            let r1 = my_try_load(&cell);
            let saw1 = LAST_LOAD;
            assert!(MY_LOADS == 1);
            assert!(r1.is_some() == (saw1 == INITIALIZED));
            assert!(MY_CELL_ACCESSES == if saw1 == INITIALIZED { 1 } else { 0 });
            if let Some(p) = r1 {
                assert!(addr(p) == addr(&OTHER)); // the published, fully constructed recorder
                assert!(id_of(p) == 3 && (*(addr(p) as *const Dbl)).tag == OTHER.tag);
            }
            let r2 = my_try_load(&cell);
            let saw2 = LAST_LOAD;
            assert!(MY_LOADS == 2 && MY_CAS == 0 && MY_STORES == 0); // lookup never writes the state word
            assert!(r2.is_some() == (saw2 == INITIALIZED));
            if let Some(p) = r1 {
                // stability: INITIALIZED is absorbing under rely and guarantee
                assert!(saw2 == INITIALIZED);
                assert!(addr(r2.unwrap()) == addr(p));
            }
            assert!(repr_ok());
            kani::cover!(r1.is_none() && r2.is_some());
            kani::cover!(r1.is_some());
            kani::cover!(r2.is_none() && saw2 == INITIALIZING && OTHER_WROTE); // written but unpublished: must not be seen
        }
    }

    // my own installation followed by lookups: if I won, every lookup returns my recorder; if I lost, a lookup
    // returns None or the winner's recorder, never mine.
    #[kani::proof]
    #[kani::stub(core::sync::atomic::Atomic::<usize>::compare_exchange, cas_stub)]
    #[kani::stub(core::sync::atomic::Atomic::<usize>::store, store_stub)]
    #[kani::stub(core::sync::atomic::Atomic::<usize>::load, load_stub)]
    #[kani::stub(core::cell::UnsafeCell::get, get_stub)]
    fn c02_set_then_load_rg() {
        let cell = RecorderOnceCell::new();
        let tag: u32 = kani::any();
        unsafe {
            CELL = &cell;
            let r = my_set(&cell, 1, tag);
            let ok = check_set(r, 1, tag, 0, 0, 0, None);
            let l1 = my_try_load(&cell);
            let l2 = my_try_load(&cell);
            if ok {
                assert!(id_of(l1.unwrap()) == 1 && id_of(l2.unwrap()) == 1);
                assert!(addr(l1.unwrap()) == addr(l2.unwrap()));
                l2.unwrap().register_counter(&KEY, &META);
                assert!(HITS[1] == 1 && HITS[3] == 0);
            } else {
                if let Some(p) = l1 {
                    assert!(addr(p) == addr(&OTHER) && addr(l2.unwrap()) == addr(p));
                }
                if let Some(p) = l2 {
                    assert!(addr(p) == addr(&OTHER));
                }
            }
            kani::cover!(ok);
            kani::cover!(!ok && l1.is_none() && l2.is_some());
        }
    }

    // set_global_recorder(r) is GLOBAL_RECORDER.set(r): same contract on the process-wide cell, and a
    // subsequent emission without a local recorder reaches my recorder iff I won.
    #[kani::proof]
    #[kani::stub(core::sync::atomic::Atomic::<usize>::compare_exchange, cas_stub)]
    #[kani::stub(core::sync::atomic::Atomic::<usize>::store, store_stub)]
    #[kani::stub(core::sync::atomic::Atomic::<usize>::load, load_stub)]
    #[kani::stub(core::cell::UnsafeCell::get, get_stub)]
    fn c02_set_global_recorder_rg() {
        let tag: u32 = kani::any();
        unsafe {
            CELL = &crate::recorder::GLOBAL_RECORDER;
            MODE = 1;
            let r = crate::set_global_recorder(Dbl { id: 1, tag });
            MODE = 0;
            let ok = check_set(r, 1, tag, 0, 0, 0, None);
            MODE = 2;
            let mut calls = 0u8;
            let seen = crate::with_recorder(|rec| {
                calls += 1;
                rec.register_counter(&KEY, &META);
                addr(rec)
            });
            MODE = 0;
            assert!(calls == 1);
            if ok {
                assert!(HITS[1] == 1 && HITS[3] == 0);
                assert!(seen == addr((*slot()).unwrap()));
            } else {
                assert!(HITS[1] == 0); // a rejected recorder never receives anything
                if LAST_LOAD == INITIALIZED {
                    assert!(HITS[3] == 1 && seen == addr(&OTHER));
                } else {
                    assert!(HITS[3] == 0 && seen == addr(&crate::recorder::NOOP_RECORDER));
                }
            }
            kani::cover!(ok);
            kani::cover!(!ok && LAST_LOAD == INITIALIZING);
            kani::cover!(!ok && LAST_LOAD == INITIALIZED);
        }
    }

    // with_recorder without a local recorder: dispatched to the installed global recorder iff the lookup
    // observed INITIALIZED, otherwise to the no-op recorder (no effect); once an emission reached the installed
    // recorder, every later one reaches the same recorder.
    #[kani::proof]
    #[kani::stub(core::sync::atomic::Atomic::<usize>::compare_exchange, cas_stub)]
    #[kani::stub(core::sync::atomic::Atomic::<usize>::store, store_stub)]
    #[kani::stub(core::sync::atomic::Atomic::<usize>::load, load_stub)]
    #[kani::stub(core::cell::UnsafeCell::get, get_stub)]
    fn c02_with_recorder_global_rg() {
        unsafe {
            CELL = &crate::recorder::GLOBAL_RECORDER;
            MODE = 2;
            let mut calls = 0u8;
            let seen1 = crate::with_recorder(|rec| {
                calls += 1;
                rec.register_counter(&KEY, &META);
                addr(rec)
            });
            let saw1 = LAST_LOAD;
            assert!(calls == 1 && MY_LOADS == 1);
            if saw1 == INITIALIZED {
                assert!(seen1 == addr(&OTHER) && HITS[3] == 1);
            } else {
                assert!(seen1 == addr(&crate::recorder::NOOP_RECORDER) && HITS[3] == 0);
                assert!(MY_CELL_ACCESSES == 0);
            }
            let seen2 = crate::with_recorder(|rec| {
                calls += 1;
                rec.register_histogram(&KEY, &META);
                addr(rec)
            });
            MODE = 0;
            assert!(calls == 2 && MY_LOADS == 2 && MY_CAS == 0 && MY_STORES == 0);
            if saw1 == INITIALIZED {
                assert!(seen2 == seen1 && HITS[3] == 2);
            } else if LAST_LOAD == INITIALIZED {
                assert!(seen2 == addr(&OTHER) && HITS[3] == 1);
            } else {
                assert!(seen2 == addr(&crate::recorder::NOOP_RECORDER) && HITS[3] == 0);
            }
            assert!(HITS[1] == 0 && HITS[2] == 0);
            kani::cover!(saw1 != INITIALIZED && LAST_LOAD == INITIALIZED);
            kani::cover!(saw1 == INITIALIZED);
            kani::cover!(LAST_LOAD == INITIALIZING && OTHER_WROTE);
        }
    }
}
