def H(name, clause, kind="rely-guarantee", tier="quick", timeout=600, replay=False, covers=0, **kw):
    d = dict(name=name, obligation=f"C02/kani/{name}", clause=clause, kind=kind, tier=tier, timeout=timeout, replay=replay, covers=covers)
    d.update(kw)
    return d

STUBS = "atomic state word stubbed via core::sync::atomic::Atomic::<usize>::{compare_exchange,store,load}; UnsafeCell::get stubbed by a same-result observer"

PLAN = {
    "property": "C02",
    "level": "proof",
    "manifest": {
        "technique": "Verus lemma over the abstract protocol (at most one 0->1 edge, irreversible, INITIALIZED absorbing) + Kani/CBMC rely/guarantee on the real RecorderOnceCell::{set,try_load}, set_global_recorder and with_recorder: the state word's atomic operations are stubbed with protocol-obeying interference before every atomic step; loop-free code => every interleaving at atomic-step granularity under SC",
        "text": "set(r) returns Ok iff its own compare_exchange UNINITIALIZED->INITIALIZING won; on Err the SetRecorderError carries the very recorder passed (identity and payload equal, drop count 0 until the caller drops it, then exactly 1) and the cell is untouched; on Ok the state is INITIALIZED and the cell holds the leaked, fully constructed recorder. The guarantee (my CAS is 0->1 only, I touch the cell only while I hold INITIALIZING or after my load saw INITIALIZED, my store is 1->2 only after my cell write) is asserted inside the stubs; the rely lets other installers advance 0->1->(write)->2 at every one of my atomic steps, and nothing once I hold INITIALIZING. try_load returns Some(p) iff its load observed INITIALIZED, never reads the cell otherwise, and once Some(p) was returned every later lookup returns the same p. set_global_recorder and the global/no-op arm of with_recorder are checked against the same stubs on the real GLOBAL_RECORDER static. 'At most one installation succeeds' and 'once Some(p), always Some(p)' follow for any number of threads and steps from the guarantee: proved by Verus over the abstract transition relation (protocol.verus.rs), and checked directly for two successive installers by Kani.",
        "note": "Assumes sequentially consistent atomics: the Acquire/Release/Relaxed orderings are NOT checked (no weak-memory model in Kani/CBMC). Each std atomic op is one atomic step. Other threads are assumed to run only this library's set/try_load (the rely). Box::leak is assumed to yield a valid 'static reference. Panic unwinding not modelled.",
    },
    "min_obligations": {"quick": 11, "thorough": 11},
    "assumptions": [
        "atomics are sequentially consistent and each std atomic operation (compare_exchange, store, load) is one indivisible step; the memory orderings chosen in cell.rs (Acquire/Relaxed CAS, Release store, Acquire load) are not checked -- Kani/CBMC has no weak-memory model",
        "rely: every other thread accesses the cell only through RecorderOnceCell::set / try_load, i.e. its steps are 0->1 (CAS), write of the cell while holding INITIALIZING, 1->2 (store); modelled as nondeterministic advancement along that chain before each of my atomic steps; rely/guarantee soundness (every thread satisfies the guarantee => every interleaving satisfies the invariant) is the standard meta-argument, not machine-checked",
        "stubs (trusted): Atomic::<usize>::{compare_exchange, store, load} perform the real access through as_ptr() after the interference; UnsafeCell::get is replaced by an observer returning the same pointer",
        "Box::leak(Box::new(r)) yields a valid &'static reference to r (std contract); heap allocation never fails",
        "thread-locality of LOCAL_RECORDER is the language's contract; harnesses run with no local recorder installed",
        "panic = failure; unwinding semantics not modelled",
    ],
    "verus": [
        # spec-level lemma over the abstract transition relation (no item extracted from /repo: the link to the code is
        # the guarantee asserted in the Kani stubs): at most one 0->1 edge, state word monotone, INITIALIZED absorbing
        {"template": "protocol.verus.rs", "tier": "quick", "rlimit": 30, "min_functions": 4},
    ],
    "kani": [{
        "crate": "metrics",
        "parallel": 4,
        "modules": [
            {"file": "metrics/src/recorder/cell.rs", "mod": "__verif_c02", "src": "cell.kani.rs"},
        ],
        "functions": [
            {"item": "RecorderOnceCell::set", "file": "metrics/src/recorder/cell.rs"},
            {"item": "RecorderOnceCell::try_load", "file": "metrics/src/recorder/cell.rs"},
            {"item": "RecorderOnceCell::new", "file": "metrics/src/recorder/cell.rs"},
            {"item": "set_global_recorder", "file": "metrics/src/recorder/mod.rs"},
            {"item": "with_recorder (global / no-op arms)", "file": "metrics/src/recorder/mod.rs"},
            {"item": "SetRecorderError::into_inner", "file": "metrics/src/recorder/errors.rs"},
        ],
        "harnesses": [
            H("c02_sequential", "no concurrency: first set Ok (INITIALIZED, cell holds r, r never dropped); second set Err carrying the very recorder (not dropped by the library, dropped once by the caller); try_load None before / the same pointer after",
              kind="complete", replay=True),
            H("c02_set_rg", "set(r): Ok iff my CAS won; exactly one CAS 0->1; cell written only while I hold INITIALIZING; store 1->2 only after the write; Err hands r back intact and leaves the cell untouched; Ok => INITIALIZED and cell == leaked r",
              covers=4, sub="rg"),
            H("c02_set_twice_rg", "two installations on one cell with the environment running in between: at most one Ok, the loser's recorder is returned, the winner's stays installed",
              covers=2, sub="rg"),
            H("c02_try_load_rg", "try_load: Some(p) iff its load observed INITIALIZED; the cell is not read otherwise (written-but-unpublished value never seen); once Some(p), every later try_load == Some(p); lookup never writes the state word",
              covers=3, sub="rg"),
            H("c02_set_then_load_rg", "after my set: if I won every lookup returns my recorder, if I lost a lookup returns None or the winner's recorder, never mine",
              covers=2, sub="rg"),
            H("c02_set_global_recorder_rg", "set_global_recorder(r) == GLOBAL_RECORDER.set(r) (same contract on the process-wide cell); a following emission reaches r iff Ok; a rejected r never receives anything",
              covers=3, sub="rg"),
            H("c02_with_recorder_global_rg", "with_recorder without local recorder: closure invoked exactly once, on the installed recorder iff the lookup observed INITIALIZED, else on NOOP_RECORDER (no effect); once dispatched to the installed recorder every later emission goes to the same one",
              covers=3, sub="rg"),
        ],
    }],
}
