// C02 -- spec-level lemma over the abstract transition relation of RecorderOnceCell's protocol.
// The Kani rely/guarantee harnesses (cell.kani.rs) check that the real `set` / `try_load` only ever take the steps
// below (the guarantee asserted inside the stubs); this file proves, unbounded in the number of threads and steps,
// what follows from that: at most one installation ever succeeds, the state word never goes back, and once
// INITIALIZED is reached the cell never changes again (so every lookup that returns Some returns the same recorder).
// No item is extracted from /repo here: the link to the code is the guarantee checked by Kani.
#![allow(unused_imports, dead_code, unused_variables)]
use vstd::prelude::*;

verus! {

pub struct S {
    pub st: int,       // 0 UNINITIALIZED, 1 INITIALIZING, 2 INITIALIZED
    pub owner: int,    // thread holding INITIALIZING, -1 if none
    pub cell: int,     // 0 = None, otherwise the identity of the stored recorder
    pub winners: int,  // ghost: number of set() calls whose CAS succeeded (== number of Ok(()) results)
}

pub open spec fn init(s: S) -> bool {
    s.st == 0 && s.owner == -1 && s.cell == 0 && s.winners == 0
}

// set(): compare_exchange(UNINITIALIZED, INITIALIZING) by thread t; `won` is what the caller will return (Ok iff won)
pub open spec fn cas(pre: S, post: S, t: int, won: bool) -> bool {
    if pre.st == 0 {
        won && post == (S { st: 1, owner: t, winners: pre.winners + 1, ..pre })
    } else {
        !won && post == pre
    }
}

// set(): write of the cell, allowed only to the thread holding INITIALIZING
pub open spec fn write_cell(pre: S, post: S, t: int, r: int) -> bool {
    pre.st == 1 && pre.owner == t && r != 0 && post == (S { cell: r, ..pre })
}

// set(): store(INITIALIZED), allowed only to the holder and only after its write
pub open spec fn publish(pre: S, post: S, t: int) -> bool {
    pre.st == 1 && pre.owner == t && pre.cell != 0 && post == (S { st: 2, owner: -1, ..pre })
}

// try_load(): no state change; the result is the cell iff the load observed INITIALIZED
pub open spec fn lookup(s: S) -> int {
    if s.st == 2 { s.cell } else { 0 }
}

pub open spec fn next(pre: S, post: S) -> bool {
    exists|t: int, won: bool, r: int|
        t >= 0 && (#[trigger] cas(pre, post, t, won) || #[trigger] write_cell(pre, post, t, r) || #[trigger] publish(pre, post, t))
}

pub open spec fn inv(s: S) -> bool {
    &&& 0 <= s.st <= 2
    &&& s.winners == (if s.st == 0 { 0int } else { 1int })
    &&& (s.st == 1 <==> s.owner >= 0)
    &&& (s.st == 0 ==> s.cell == 0)
    &&& (s.st == 2 ==> s.cell != 0)
}

pub proof fn inv_init(s: S)
    requires init(s),
    ensures inv(s),
{
}

// every step preserves the invariant; the 0 -> 1 edge is taken at most once; the state word is monotone;
// INITIALIZED is absorbing (nothing changes any more, in particular not the cell)
pub proof fn inv_step(pre: S, post: S)
    requires inv(pre), next(pre, post),
    ensures
        inv(post),
        post.winners <= 1,
        post.st >= pre.st,
        pre.st == 2 ==> post == pre,
        lookup(pre) != 0 ==> lookup(post) == lookup(pre),
{
}

pub open spec fn run(tr: Seq<S>) -> bool {
    &&& tr.len() > 0
    &&& init(tr[0])
    &&& forall|i: int| 0 <= i < tr.len() - 1 ==> #[trigger] next(tr[i], tr[i + 1])
}

// over the life of a process at most one installation succeeds
pub proof fn at_most_one_install(tr: Seq<S>, i: int)
    requires run(tr), 0 <= i < tr.len(),
    ensures inv(tr[i]), tr[i].winners <= 1,
    decreases i,
{
    if i == 0 {
        inv_init(tr[0]);
    } else {
        at_most_one_install(tr, i - 1);
        assert(next(tr[i - 1], tr[i - 1 + 1]));
        inv_step(tr[i - 1], tr[i]);
    }
}

// once a lookup has returned Some(p), every later lookup returns the same p
pub proof fn lookup_stable(tr: Seq<S>, i: int, j: int)
    requires run(tr), 0 <= i <= j < tr.len(), lookup(tr[i]) != 0,
    ensures lookup(tr[j]) == lookup(tr[i]),
    decreases j - i,
{
    if i < j {
        lookup_stable(tr, i, j - 1);
        at_most_one_install(tr, j - 1);
        assert(next(tr[j - 1], tr[j - 1 + 1]));
        inv_step(tr[j - 1], tr[j]);
    }
}

} // verus!
fn main() {}
