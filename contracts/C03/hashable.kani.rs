// C03 — `Hashable for Key` (metrics-util/src/common.rs) is the memoised get_hash(), and that value is what hashing the key
// through std `Hash` with `Hashable::Hasher` (= KeyHasher) produces -- the link the registry's shard choice / raw-entry
// lookup relies on.  Concrete static key, real AHash.
use super::*;
use metrics::Label;

static L: [Label; 2] = [Label::from_static_parts("b", "1"), Label::from_static_parts("a", "2")];
static LR: [Label; 2] = [Label::from_static_parts("a", "2"), Label::from_static_parts("b", "1")];

pub fn c03_hashable_body(_unused: u8) {
    let k = Key::from_static_parts("k", &L);
    let h = Hashable::hashable(&k);
    assert!(h == k.get_hash(), "Hashable::hashable is get_hash()");
    assert!(k.hashable() == h, "stable");
    let mut hs = <Key as Hashable>::Hasher::default();
    k.hash(&mut hs);
    assert!(hs.finish() == h, "rehashing through Hashable::Hasher gives the memoised value");
    let kr = Key::from_static_parts("k", &LR);
    assert!(kr == k && kr.hashable() == h, "equal keys: equal hashable()");
}
#[cfg(kani)]
#[kani::proof]
#[kani::unwind(20)]
fn c03_hashable() {
    c03_hashable_body(kani::any());
}
