// C03 — Key equality, ordering and hashing agree and ignore how a key was built (metrics/src/key.rs).
//
// Keys are built from a small TABLE of labels / names selected by symbolic indices, so that repeated label NAMES with
// different values (a=1, a=2), repeated identical labels (same index twice), empty strings and a non-ASCII string all
// occur.  `Hash` output is observed through a recording `Hasher` (the exact sequence of write calls), not through AHash.
// Everything here is BOUNDED by the table and by the label count stated per harness.
use super::*;
use std::sync::Arc;

// ------------------------------------------------------------------------------------------------ table
pub const NLAB: u8 = 5;
pub const NNAME: u8 = 3;

fn lab_parts(i: u8) -> (&'static str, &'static str) {
    match i {
        0 => ("a", "1"),
        1 => ("a", "2"),
        2 => ("b", "1"),
        3 => ("", ""),
        _ => ("\u{e9}", "\u{e9}"), // "é": two bytes, non-ASCII
    }
}
fn lab(i: u8) -> Label {
    let (k, v) = lab_parts(i);
    Label::from_static_parts(k, v)
}
fn kname(i: u8) -> &'static str {
    match i {
        0 => "k",
        1 => "",
        _ => "\u{e9}k",
    }
}

/// description of a key: name index, label count, label indices
#[derive(Clone, Copy)]
pub struct KS {
    nm: u8,
    n: u8,
    i: [u8; 3],
}
fn ks(nm: u8, n: u8, i0: u8, i1: u8, i2: u8, maxn: u8) -> KS {
    kani::assume(nm < NNAME && n <= maxn && i0 < NLAB && i1 < NLAB && i2 < NLAB);
    // unused slots are pinned so that the counterexample is canonical
    kani::assume(n > 0 || i0 == 0);
    kani::assume(n > 1 || i1 == 0);
    kani::assume(n > 2 || i2 == 0);
    KS { nm, n, i: [i0, i1, i2] }
}

fn static_slice(s: KS) -> &'static [Label] {
    match s.n {
        0 => &[],
        1 => Box::leak(Box::new([lab(s.i[0])])),
        2 => Box::leak(Box::new([lab(s.i[0]), lab(s.i[1])])),
        _ => Box::leak(Box::new([lab(s.i[0]), lab(s.i[1]), lab(s.i[2])])),
    }
}
/// the cheapest construction: all-static key (hash not yet memoised)
fn skey(s: KS) -> Key {
    Key::from_static_parts(kname(s.nm), static_slice(s))
}

// ------------------------------------------------------------------------------------------------ recording hasher
pub const RCAP: usize = 40;
/// Records every `write*` call made by `Hash for Key`: (byte length, bytes as little-endian u64).
pub struct Rec {
    n: usize,
    len: [u8; RCAP],
    val: [u64; RCAP],
}
impl Rec {
    fn new() -> Rec {
        Rec { n: 0, len: [0; RCAP], val: [0; RCAP] }
    }
    fn push(&mut self, len: usize, val: u64) {
        assert!(self.n < RCAP, "recorder capacity");
        self.len[self.n] = len as u8;
        self.val[self.n] = val;
        self.n += 1;
    }
    fn same(&self, o: &Rec) -> bool {
        if self.n != o.n {
            return false;
        }
        let mut i = 0;
        while i < RCAP {
            if i < self.n && (self.len[i] != o.len[i] || self.val[i] != o.val[i]) {
                return false;
            }
            i += 1;
        }
        true
    }
    /// cheap (solver-friendly) deterministic digest of the recorded stream, used where `generate_key_hash` is stubbed
    fn fold(&self) -> u64 {
        let mut h: u64 = 0x9e37_79b9_7f4a_7c15;
        let mut i = 0;
        while i < RCAP {
            if i < self.n {
                h = h.rotate_left(9) ^ self.val[i] ^ ((self.len[i] as u64) << 56) ^ (i as u64);
            }
            i += 1;
        }
        h ^ (self.n as u64)
    }
}
impl Hasher for Rec {
    fn finish(&self) -> u64 {
        0
    }
    fn write(&mut self, bytes: &[u8]) {
        assert!(bytes.len() <= 8, "recorder: table strings are at most 8 bytes");
        let mut v = 0u64;
        let mut i = 0;
        while i < bytes.len() {
            v |= (bytes[i] as u64) << (8 * i);
            i += 1;
        }
        self.push(bytes.len(), v);
    }
    fn write_u8(&mut self, i: u8) {
        self.push(1, i as u64); // == default write(&[i])
    }
    fn write_usize(&mut self, i: usize) {
        self.push(8, i as u64); // == default write(&i.to_ne_bytes()) on a 64-bit little-endian target
    }
}
fn stream(k: &Key) -> Rec {
    let mut r = Rec::new();
    k.hash(&mut r);
    r
}

// ------------------------------------------------------------------------------------------------ obligations
/// a == b  <=>  a.cmp(b) == Equal           (statement, first clause)
fn check_eq_iff_cmp(a: KS, b: KS) {
    let (ka, kb) = (skey(a), skey(b));
    let eq = ka == kb;
    let c = ka.cmp(&kb);
    kani::cover!(eq && a.n == 2 && a.i[0] != a.i[1]);
    kani::cover!(!eq && a.n == b.n && a.nm == b.nm && a.n > 0);
    assert!(eq == (c == cmp::Ordering::Equal), "a == b exactly when a.cmp(b) == Equal");
    assert!(ka.partial_cmp(&kb) == Some(c));
}

pub fn c03_eq_iff_cmp_body(nma: u8, na: u8, a0: u8, a1: u8, nmb: u8, nb: u8, b0: u8, b1: u8) {
    check_eq_iff_cmp(ks(nma, na, a0, a1, 0, 2), ks(nmb, nb, b0, b1, 0, 2));
}
#[cfg(kani)]
#[kani::proof]
#[kani::unwind(12)]
fn c03_eq_iff_cmp() {
    c03_eq_iff_cmp_body(kani::any(), kani::any(), kani::any(), kani::any(), kani::any(), kani::any(), kani::any(), kani::any());
}

/// a == b  =>  identical Hash stream
fn check_eq_hash(a: KS, b: KS) {
    let (ka, kb) = (skey(a), skey(b));
    let eq = ka == kb;
    kani::cover!(eq && a.n == 2 && a.i[0] != b.i[0]);
    kani::cover!(!eq);
    if eq {
        assert!(stream(&ka).same(&stream(&kb)), "a == b implies identical Hash output");
    }
}
pub fn c03_eq_hash_body(nma: u8, na: u8, a0: u8, a1: u8, nmb: u8, nb: u8, b0: u8, b1: u8) {
    check_eq_hash(ks(nma, na, a0, a1, 0, 2), ks(nmb, nb, b0, b1, 0, 2));
}
#[cfg(kani)]
#[kani::proof]
#[kani::unwind(12)]
fn c03_eq_hash() {
    c03_eq_hash_body(kani::any(), kani::any(), kani::any(), kani::any(), kani::any(), kani::any(), kani::any(), kani::any());
}

/// probe: real get_hash on symbolic-choice keys
pub fn c03_probe_gethash_body(nma: u8, na: u8, a0: u8, a1: u8) {
    let a = ks(nma, na, a0, a1, 0, 2);
    let ka = skey(a);
    let kb = skey(a);
    assert!(ka.get_hash() == kb.get_hash());
}
#[cfg(kani)]
#[kani::proof]
#[kani::unwind(12)]
fn c03_probe_gethash() {
    c03_probe_gethash_body(kani::any(), kani::any(), kani::any(), kani::any());
}
