// C03 — Key equality, ordering and hashing agree and ignore how a key was built (metrics/src/key.rs).
//
// Keys are built from a small TABLE of labels / names selected by symbolic indices, so that repeated label NAMES with
// different values (a=1, a=2), repeated identical labels (same index twice), empty strings and a non-ASCII string all
// occur.  `Hash` output is observed through a recording `Hasher` (the exact sequence of write calls), not through AHash.
// Everything here is BOUNDED by the table and by the label count stated per harness (<= 2 quick, = 3 thorough, three
// concrete pairs for the 8-label Vec arms); the get_hash() memo harnesses (mod rg) are rely/guarantee over all SC
// interleavings.  Measured CBMC limits that shaped the harnesses: the label count must be a constant inside the checked
// code (dispatch outside, `with_key*`), AHash cannot be run on symbolic or heap data, Vec<Label> paths need concrete content.
use super::*;
use std::sync::Arc;

// ------------------------------------------------------------------------------------------------ table
pub const NLAB: u8 = 5;
pub const NNAME: u8 = 3;

fn lab_parts(i: u8) -> (&'static str, &'static str) {
    match i {
        0 => ("a", "1"),
        1 => ("a", "2"),
        2 => ("b", "1"),
        3 => ("", ""),
        _ => ("\u{e9}", "\u{e9}"), // "é": two bytes, non-ASCII
    }
}
fn lab(i: u8) -> Label {
    let (k, v) = lab_parts(i);
    Label::from_static_parts(k, v)
}
fn kname(i: u8) -> &'static str {
    match i {
        0 => "k",
        1 => "",
        _ => "\u{e9}",
    }
}

/// description of a key: name index, label count, label indices
#[derive(Clone, Copy)]
pub struct KS {
    nm: u8,
    n: u8,
    i: [u8; 3],
}
fn ks(nm: u8, n: u8, i0: u8, i1: u8, i2: u8, maxn: u8) -> KS {
    kani::assume(nm < NNAME && n <= maxn && i0 < NLAB && i1 < NLAB && i2 < NLAB);
    // unused slots are pinned so that the counterexample is canonical
    kani::assume(n > 0 || i0 == 0);
    kani::assume(n > 1 || i1 == 0);
    kani::assume(n > 2 || i2 == 0);
    KS { nm, n, i: [i0, i1, i2] }
}

/// Builds the all-static key described by `s` (the cheapest construction; hash not yet memoised) and hands it to `f`.
/// The dispatch on the label count happens OUTSIDE `f`, so inside `f` the count is a constant for CBMC (the sort loops
/// of key.rs then unroll exactly instead of up to the unwinding bound).
fn with_key<R>(s: KS, f: impl FnOnce(Key) -> R) -> R {
    let nm = kname(s.nm);
    match s.n {
        0 => f(Key::from_static_name(nm)),
        1 => f(Key::from_static_parts(nm, Box::leak(Box::new([lab(s.i[0])])))),
        2 => f(Key::from_static_parts(nm, Box::leak(Box::new([lab(s.i[0]), lab(s.i[1])])))),
        _ => {
            // (the 3-label arm is only instantiated by the n = 3 harnesses: `ks(.., maxn)` pins i2 == 0 otherwise)
            assert!(s.n == 3);
            with_key3(s, f)
        }
    }
}
fn with_key3<R>(s: KS, f: impl FnOnce(Key) -> R) -> R {
    f(Key::from_static_parts(kname(s.nm), Box::leak(Box::new([lab(s.i[0]), lab(s.i[1]), lab(s.i[2])]))))
}
/// n <= 2 only
fn with_key2<R>(s: KS, f: impl FnOnce(Key) -> R) -> R {
    let nm = kname(s.nm);
    match s.n {
        0 => f(Key::from_static_name(nm)),
        1 => f(Key::from_static_parts(nm, Box::leak(Box::new([lab(s.i[0])])))),
        _ => {
            assert!(s.n == 2);
            f(Key::from_static_parts(nm, Box::leak(Box::new([lab(s.i[0]), lab(s.i[1])]))))
        }
    }
}
/// two keys with at most 2 labels each
fn with_keys2<R>(a: KS, b: KS, f: impl FnOnce(Key, Key) -> R) -> R {
    with_key2(a, |ka| with_key2(b, |kb| f(ka, kb)))
}
/// two keys with exactly 3 labels each
fn with_keys3<R>(a: KS, b: KS, f: impl FnOnce(Key, Key) -> R) -> R {
    assert!(a.n == 3 && b.n == 3);
    with_key3(a, |ka| with_key3(b, |kb| f(ka, kb)))
}

// ------------------------------------------------------------------------------------------------ recording hasher
pub const RCAP: usize = 40;
macro_rules! all_slots {
    ($f:expr) => { all_slots!(@ $f; 0 1 2 3 4 5 6 7 8 9 10 11 12 13 14 15 16 17 18 19 20 21 22 23 24 25 26 27 28 29 30 31 32 33 34 35 36 37 38 39) };
    (@ $f:expr; $($i:literal)*) => { true $(&& $f($i))* };
}
/// Records every `write*` call made by `Hash for Key`: (byte length, bytes as little-endian u64).  Loop-free on purpose.
pub struct Rec {
    n: usize,
    len: [u8; RCAP],
    val: [u64; RCAP],
}
impl Rec {
    fn new() -> Rec {
        Rec { n: 0, len: [0; RCAP], val: [0; RCAP] }
    }
    fn push(&mut self, len: usize, val: u64) {
        assert!(self.n < RCAP, "recorder capacity");
        self.len[self.n] = len as u8;
        self.val[self.n] = val;
        self.n += 1;
    }
    /// identical sequence of write calls (unused slots are zero on both sides)
    fn same(&self, o: &Rec) -> bool {
        let f = |i: usize| self.len[i] == o.len[i] && self.val[i] == o.val[i];
        self.n == o.n && all_slots!(@ f; 0 1 2 3 4 5 6 7 8 9 10 11 12 13 14 15 16 17 18 19 20 21 22 23 24 25 26 27 28 29 30 31 32 33 34 35 36 37 38 39)
    }
    /// cheap (solver-friendly) deterministic digest of the recorded stream, used where `generate_key_hash` is stubbed
    fn fold(&self) -> u64 {
        let mut h: u64 = 0x9e37_79b9_7f4a_7c15 ^ (self.n as u64);
        let mut f = |i: usize| {
            h = h.rotate_left(9) ^ self.val[i] ^ ((self.len[i] as u64) << 56);
            true
        };
        let _ = all_slots!(@ f; 0 1 2 3 4 5 6 7 8 9 10 11 12 13 14 15 16 17 18 19 20 21 22 23 24 25 26 27 28 29 30 31 32 33 34 35 36 37 38 39);
        h
    }
}
impl Hasher for Rec {
    fn finish(&self) -> u64 {
        self.fold()
    }
    fn write(&mut self, bytes: &[u8]) {
        let n = bytes.len();
        assert!(n <= 4, "recorder: table strings are at most 4 bytes");
        let mut v = 0u64;
        if n > 0 { v |= bytes[0] as u64; }
        if n > 1 { v |= (bytes[1] as u64) << 8; }
        if n > 2 { v |= (bytes[2] as u64) << 16; }
        if n > 3 { v |= (bytes[3] as u64) << 24; }
        self.push(n, v);
    }
    fn write_u8(&mut self, i: u8) {
        self.push(1, i as u64); // == default write(&[i])
    }
    fn write_usize(&mut self, i: usize) {
        self.push(8, i as u64); // == default write(&i.to_ne_bytes()) on a 64-bit little-endian target
    }
}
fn stream(k: &Key) -> Rec {
    let mut r = Rec::new();
    k.hash(&mut r);
    r
}

// ------------------------------------------------------------------------------------------------ obligations
fn ks2(nm: u8, n: u8, i0: u8, i1: u8) -> KS {
    ks(nm, n, i0, i1, 0, 2)
}
fn ks3(nm: u8, i0: u8, i1: u8, i2: u8) -> KS {
    ks(nm, 3, i0, i1, i2, 3)
}
fn le(o: cmp::Ordering) -> bool {
    o != cmp::Ordering::Greater
}

/// a == b  <=>  a.cmp(b) == Equal           (statement, first clause)
fn check_eq_iff_cmp(a: KS, b: KS, ka: Key, kb: Key) {
    let eq = ka == kb;
    let c = ka.cmp(&kb);
    kani::cover!(eq && a.n >= 2 && a.i[0] != a.i[1]);
    kani::cover!(!eq && a.n == b.n && a.nm == b.nm && a.n > 0);
    assert!(eq == (c == cmp::Ordering::Equal), "a == b exactly when a.cmp(b) == Equal");
    assert!(ka.partial_cmp(&kb) == Some(c));
}
pub fn c03_eq_iff_cmp_body(nma: u8, na: u8, a0: u8, a1: u8, nmb: u8, nb: u8, b0: u8, b1: u8) {
    let (a, b) = (ks2(nma, na, a0, a1), ks2(nmb, nb, b0, b1));
    with_keys2(a, b, |ka, kb| check_eq_iff_cmp(a, b, ka, kb))
}
#[cfg(kani)]
#[kani::proof]
#[kani::unwind(3)]
fn c03_eq_iff_cmp() {
    c03_eq_iff_cmp_body(kani::any(), kani::any(), kani::any(), kani::any(), kani::any(), kani::any(), kani::any(), kani::any());
}
pub fn c03_eq_iff_cmp_n3_body(nma: u8, a0: u8, a1: u8, a2: u8, nmb: u8, b0: u8, b1: u8, b2: u8) {
    let (a, b) = (ks3(nma, a0, a1, a2), ks3(nmb, b0, b1, b2));
    with_keys3(a, b, |ka, kb| check_eq_iff_cmp(a, b, ka, kb))
}
#[cfg(kani)]
#[kani::proof]
#[kani::unwind(4)]
fn c03_eq_iff_cmp_n3() {
    c03_eq_iff_cmp_n3_body(kani::any(), kani::any(), kani::any(), kani::any(), kani::any(), kani::any(), kani::any(), kani::any());
}

/// a == b  =>  identical Hash stream (sequence of Hasher::write* calls)
fn check_eq_hash(a: KS, b: KS, ka: Key, kb: Key) {
    let eq = ka == kb;
    kani::cover!(eq && a.n >= 2 && a.i[0] != b.i[0]);
    kani::cover!(!eq);
    if eq {
        assert!(stream(&ka).same(&stream(&kb)), "a == b implies identical Hash output");
    }
}
pub fn c03_eq_hash_body(nma: u8, na: u8, a0: u8, a1: u8, nmb: u8, nb: u8, b0: u8, b1: u8) {
    let (a, b) = (ks2(nma, na, a0, a1), ks2(nmb, nb, b0, b1));
    with_keys2(a, b, |ka, kb| check_eq_hash(a, b, ka, kb))
}
#[cfg(kani)]
#[kani::proof]
#[kani::unwind(3)]
fn c03_eq_hash() {
    c03_eq_hash_body(kani::any(), kani::any(), kani::any(), kani::any(), kani::any(), kani::any(), kani::any(), kani::any());
}
pub fn c03_eq_hash_n3_body(nma: u8, a0: u8, a1: u8, a2: u8, nmb: u8, b0: u8, b1: u8, b2: u8) {
    let (a, b) = (ks3(nma, a0, a1, a2), ks3(nmb, b0, b1, b2));
    with_keys3(a, b, |ka, kb| check_eq_hash(a, b, ka, kb))
}
#[cfg(kani)]
#[kani::proof]
#[kani::unwind(4)]
fn c03_eq_hash_n3() {
    c03_eq_hash_n3_body(kani::any(), kani::any(), kani::any(), kani::any(), kani::any(), kani::any(), kani::any(), kani::any());
}

/// reflexive: a == a, a.cmp(a) == Equal, Hash stream reproducible (single key, n <= 3)
pub fn c03_reflexive_body(nm: u8, n: u8, i0: u8, i1: u8, i2: u8) {
    let a = ks(nm, n, i0, i1, i2, 3);
    with_key(a, |ka| {
        assert!(ka == ka, "reflexive");
        assert!(ka.cmp(&ka) == cmp::Ordering::Equal);
        assert!(stream(&ka).same(&stream(&ka)), "Hash is a function of the key");
        kani::cover!(a.n == 3 && a.i[0] == a.i[2]);
    })
}
#[cfg(kani)]
#[kani::proof]
#[kani::unwind(4)]
fn c03_reflexive() {
    c03_reflexive_body(kani::any(), kani::any(), kani::any(), kani::any(), kani::any());
}

/// equality symmetric; cmp dual (a.cmp(b) == b.cmp(a).reverse()) -- totality of the order
fn check_symmetry(a: KS, b: KS, ka: Key, kb: Key) {
    assert!((ka == kb) == (kb == ka), "symmetric");
    assert!(ka.cmp(&kb) == kb.cmp(&ka).reverse(), "cmp is dual");
    kani::cover!(ka.cmp(&kb) == cmp::Ordering::Less && a.n >= 2 && b.n >= 2 && a.nm == b.nm);
    kani::cover!(ka == kb && a.n >= 2 && a.i[0] != b.i[0]);
}
pub fn c03_symmetry_body(nma: u8, na: u8, a0: u8, a1: u8, nmb: u8, nb: u8, b0: u8, b1: u8) {
    let (a, b) = (ks2(nma, na, a0, a1), ks2(nmb, nb, b0, b1));
    with_keys2(a, b, |ka, kb| check_symmetry(a, b, ka, kb))
}
#[cfg(kani)]
#[kani::proof]
#[kani::unwind(3)]
fn c03_symmetry() {
    c03_symmetry_body(kani::any(), kani::any(), kani::any(), kani::any(), kani::any(), kani::any(), kani::any(), kani::any());
}
pub fn c03_symmetry_n3_body(nma: u8, a0: u8, a1: u8, a2: u8, nmb: u8, b0: u8, b1: u8, b2: u8) {
    let (a, b) = (ks3(nma, a0, a1, a2), ks3(nmb, b0, b1, b2));
    with_keys3(a, b, |ka, kb| check_symmetry(a, b, ka, kb))
}
#[cfg(kani)]
#[kani::proof]
#[kani::unwind(4)]
fn c03_symmetry_n3() {
    c03_symmetry_n3_body(kani::any(), kani::any(), kani::any(), kani::any(), kani::any(), kani::any(), kani::any(), kani::any());
}

/// triples: == transitive, <= transitive, antisymmetric (a <= b and b <= a  =>  a == b)
fn check_triple(ka: &Key, kb: &Key, kc: &Key) {
    let (ab, bc, ac) = (ka.cmp(kb), kb.cmp(kc), ka.cmp(kc));
    if le(ab) && le(bc) {
        assert!(le(ac), "cmp is transitive");
    }
    if ka == kb && kb == kc {
        assert!(ka == kc, "== is transitive");
    }
    if le(ab) && le(kb.cmp(ka)) {
        assert!(ka == kb, "cmp is antisymmetric with respect to ==");
    }
    kani::cover!(ab == cmp::Ordering::Less && bc == cmp::Ordering::Less);
    kani::cover!(ka == kb && kb == kc);
}
pub fn c03_order_triples_body(nm: u8, a0: u8, a1: u8, b0: u8, b1: u8, c0: u8, c1: u8) {
    // exactly two labels each and one shared name (the arm with the special cases); names / other counts: see
    // c03_order_triples_names.  Keeps three 2-label keys affordable.
    let (a, b, c) = (ks2(nm, 2, a0, a1), ks2(nm, 2, b0, b1), ks2(nm, 2, c0, c1));
    with_key2(a, |ka| with_key2(b, |kb| with_key2(c, |kc| check_triple(&ka, &kb, &kc))))
}
#[cfg(kani)]
#[kani::proof]
#[kani::unwind(3)]
fn c03_order_triples() {
    c03_order_triples_body(kani::any(), kani::any(), kani::any(), kani::any(), kani::any(), kani::any(), kani::any());
}
/// triples with differing key names and exactly one label each (the name takes part in the order first)
pub fn c03_order_triples_names_body(nma: u8, a0: u8, nmb: u8, b0: u8, nmc: u8, c0: u8) {
    let (a, b, c) = (ks2(nma, 1, a0, 0), ks2(nmb, 1, b0, 0), ks2(nmc, 1, c0, 0));
    with_key2(a, |ka| with_key2(b, |kb| with_key2(c, |kc| check_triple(&ka, &kb, &kc))))
}
#[cfg(kani)]
#[kani::proof]
#[kani::unwind(3)]
fn c03_order_triples_names() {
    c03_order_triples_names_body(kani::any(), kani::any(), kani::any(), kani::any(), kani::any(), kani::any());
}

/// label-order independence: label NAMES pairwise distinct => any permutation of the labels gives an equal key
fn name_class(i: u8) -> u8 {
    match i {
        0 | 1 => 0, // "a"
        2 => 1,     // "b"
        3 => 2,     // ""
        _ => 3,     // "é"
    }
}
fn check_same_key(ka: &Key, kb: &Key) {
    assert!(ka == kb && kb == ka, "equal");
    assert!(ka.cmp(kb) == cmp::Ordering::Equal && kb.cmp(ka) == cmp::Ordering::Equal, "cmp Equal");
    assert!(stream(ka).same(&stream(kb)), "identical Hash output");
}
pub fn c03_label_order_body(nm: u8, i0: u8, i1: u8) {
    let a = ks2(nm, 2, i0, i1);
    kani::assume(name_class(i0) != name_class(i1));
    let b = KS { nm, n: 2, i: [i1, i0, 0] };
    with_keys2(a, b, |ka, kb| check_same_key(&ka, &kb));
    kani::cover!(i0 == 4 && i1 == 3);
}
#[cfg(kani)]
#[kani::proof]
#[kani::unwind(3)]
fn c03_label_order() {
    c03_label_order_body(kani::any(), kani::any(), kani::any());
}
pub fn c03_label_order_n3_body(nm: u8, i0: u8, i1: u8, i2: u8, perm: u8) {
    let a = ks3(nm, i0, i1, i2);
    kani::assume(name_class(i0) != name_class(i1) && name_class(i0) != name_class(i2) && name_class(i1) != name_class(i2));
    kani::assume(perm < 5);
    let p: [u8; 3] = match perm {
        0 => [i0, i2, i1],
        1 => [i1, i0, i2],
        2 => [i1, i2, i0],
        3 => [i2, i0, i1],
        _ => [i2, i1, i0],
    };
    let b = KS { nm, n: 3, i: p };
    with_keys3(a, b, |ka, kb| check_same_key(&ka, &kb));
    kani::cover!(perm == 2 && i0 == 4);
}
#[cfg(kani)]
#[kani::proof]
#[kani::unwind(4)]
fn c03_label_order_n3() {
    c03_label_order_n3_body(kani::any(), kani::any(), kani::any(), kani::any(), kani::any());
}

// ------------------------------------------------------------------------------------------------ the n >= 8 (Vec) arms
// 8 labels: six fixed ones with pairwise distinct names plus two slots drawn from {a=1, a=2, b=1}; the second key is the
// same kind of list rotated by a symbolic amount.
fn lab8(slot: u8) -> Label {
    match slot {
        0 => Label::from_static_parts("a", "1"),
        1 => Label::from_static_parts("a", "2"),
        _ => Label::from_static_parts("b", "1"),
    }
}
fn fixed8(j: u8) -> Label {
    match j {
        0 => Label::from_static_parts("c", "1"),
        1 => Label::from_static_parts("", ""),
        2 => Label::from_static_parts("d", "1"),
        3 => Label::from_static_parts("\u{e9}", "\u{e9}"),
        4 => Label::from_static_parts("e", "1"),
        _ => Label::from_static_parts("f", "1"),
    }
}
/// 8-label key in one of three concrete layouts of [s0, F0, F1, s1, F2, F3, F4, F5] (as is / reversed / rotated by 3);
/// every argument is a literal at every call site
fn key8(layout: u8, s0: u8, s1: u8) -> Key {
    let l: [Label; 8] = match layout {
        0 => [lab8(s0), fixed8(0), fixed8(1), lab8(s1), fixed8(2), fixed8(3), fixed8(4), fixed8(5)],
        1 => [fixed8(5), fixed8(4), fixed8(3), fixed8(2), lab8(s1), fixed8(1), fixed8(0), lab8(s0)],
        _ => [lab8(s1), fixed8(2), fixed8(3), fixed8(4), fixed8(5), lab8(s0), fixed8(0), fixed8(1)],
    };
    Key::from_static_parts("k", Box::leak(Box::new(l)))
}
// The Vec arms cost CBMC ~3 minutes and 5 GB for ONE pair of concrete 8-label keys (symbolic slot content, or 16 concrete
// pairs in one harness, exceeded 12 GB): three concrete pairs, one harness each.
fn check_n8(ka: Key, kb: Key, expect_eq: bool) {
    let eq = ka == kb;
    assert!(eq == expect_eq);
    assert!(eq == (ka.cmp(&kb) == cmp::Ordering::Equal), "a == b exactly when a.cmp(b) == Equal");
    assert!(ka.cmp(&kb) == kb.cmp(&ka).reverse());
    assert!(stream(&ka).same(&stream(&kb)) == eq, "a == b implies identical Hash output (and these unequal keys differ)");
}
/// pairwise distinct names, same labels, reversed order => equal, cmp Equal, same Hash stream
pub fn c03_vec_path_n8_distinct_body(_unused: u8) {
    check_n8(key8(0, 0, 2), key8(1, 0, 2), true);
}
#[cfg(kani)]
#[kani::proof]
#[kani::unwind(10)]
fn c03_vec_path_n8_distinct() {
    c03_vec_path_n8_distinct_body(kani::any());
}
/// repeated name (a=1, a=2) met in the opposite relative order => not equal, and cmp / Hash agree with that
pub fn c03_vec_path_n8_repeated_body(_unused: u8) {
    check_n8(key8(0, 0, 1), key8(1, 0, 1), false);
}
#[cfg(kani)]
#[kani::proof]
#[kani::unwind(10)]
fn c03_vec_path_n8_repeated() {
    c03_vec_path_n8_repeated_body(kani::any());
}
/// one label value differs (a=1 vs a=2), rotated layout => not equal, cmp not Equal and dual
pub fn c03_vec_path_n8_unequal_body(_unused: u8) {
    check_n8(key8(0, 0, 2), key8(2, 1, 2), false);
}
#[cfg(kani)]
#[kani::proof]
#[kani::unwind(10)]
fn c03_vec_path_n8_unequal() {
    c03_vec_path_n8_unequal_body(kani::any());
}

// ------------------------------------------------------------------------------------------------ real hasher, concrete keys
/// With the real KeyHasher (AHash) on CONCRETE keys: get_hash() is the same on every construction path, is stable,
/// equals `generate_key_hash` and equals hashing through std `Hash` with a fresh KeyHasher (what Hashable relies on).
static REAL2: [Label; 2] = [Label::from_static_parts("b", "1"), Label::from_static_parts("a", "2")];
static REAL2R: [Label; 2] = [Label::from_static_parts("a", "2"), Label::from_static_parts("b", "1")];
pub fn c03_get_hash_real_body(_unused: u8) {
    let k = Key::from_static_parts("k", &REAL2);
    let kr = Key::from_static_parts("k", &REAL2R);
    let h = k.get_hash();
    assert!(h == generate_key_hash(&k.name, &k.labels));
    assert!(k.get_hash() == h && k.clone().get_hash() == h, "stable");
    assert!(kr.get_hash() == h, "distinct names: label order does not change get_hash()");
    let mut kh = KeyHasher::default();
    k.hash(&mut kh);
    assert!(kh.finish() == h, "get_hash() == std Hash through a fresh KeyHasher");
}
#[cfg(kani)]
#[kani::proof]
#[kani::unwind(20)]
fn c03_get_hash_real() {
    c03_get_hash_real_body(kani::any());
}

// ------------------------------------------------------------------------------------------------ construction paths
// Every constructor that goes through `Key::builder` runs the real KeyHasher (AHash), which CBMC cannot execute on
// symbolic data (measured: > 12 GB).  These harnesses therefore replace `generate_key_hash` by the SAME function with
// the hasher type swapped for the recording hasher (`key_hasher_impl` is generic in the hasher).
#[cfg(kani)]
pub mod stubbed {
    use super::*;

    pub fn gkh_rec(name: &KeyName, labels: &Cow<'static, [Label]>) -> u64 {
        let mut r = Rec::new();
        key_hasher_impl(&mut r, name, labels);
        r.finish()
    }
    fn owned_name(nm: u8) -> String {
        match nm {
            0 => String::from("k"),
            1 => String::new(),
            _ => String::from("\u{e9}"),
        }
    }
    fn arc_name(nm: u8) -> Arc<str> {
        match nm {
            0 => Arc::from("k"),
            1 => Arc::from(""),
            _ => Arc::from("\u{e9}"),
        }
    }
    // literal per arm: every allocation has a concrete size
    fn owned_lab(i: u8) -> Label {
        match i {
            0 => Label::new(String::from("a"), String::from("1")),
            1 => Label::new(String::from("a"), String::from("2")),
            2 => Label::new(String::from("b"), String::from("1")),
            3 => Label::new(String::new(), String::new()),
            _ => Label::new(String::from("\u{e9}"), String::from("\u{e9}")),
        }
    }
    fn arc_lab(i: u8) -> Label {
        match i {
            0 => Label::new(Arc::<str>::from("a"), Arc::<str>::from("1")),
            1 => Label::new(Arc::<str>::from("a"), Arc::<str>::from("2")),
            2 => Label::new(Arc::<str>::from("b"), Arc::<str>::from("1")),
            3 => Label::new(Arc::<str>::from(""), Arc::<str>::from("")),
            _ => Label::new(Arc::<str>::from("\u{e9}"), Arc::<str>::from("\u{e9}")),
        }
    }
    fn vec_of<const N: usize>(idx: [u8; N], mode: u8, from: usize, to: usize) -> Vec<Label> {
        let mut v = Vec::new();
        let mut j = from;
        while j < to {
            v.push(match mode {
                0 => lab(idx[j]),
                1 => owned_lab(idx[j]),
                _ => arc_lab(idx[j]),
            });
            j += 1;
        }
        v
    }
    fn static_of<const N: usize>(idx: [u8; N]) -> &'static [Label] {
        Box::leak(vec_of(idx, 0, 0, N).into_boxed_slice())
    }

    /// the key (name nm, labels idx) built along path `p`
    fn alt_key<const N: usize>(p: u8, nm: u8, idx: [u8; N]) -> Key {
        match p {
            0 => Key::from_parts(owned_name(nm), vec_of(idx, 1, 0, N)), // owned strings everywhere
            1 => Key::from_parts(arc_name(nm), vec_of(idx, 2, 0, N)),   // Arc strings everywhere
            2 => Key::from_static_labels(owned_name(nm), static_of(idx)), // what the macros emit for a dynamic name
            3 => Key::from_name(kname(nm)).with_extra_labels(vec_of(idx, 1, 0, N)),
            4 => {
                // some labels first, the rest as extra labels (static labels: a Vec of Arc-backed labels that is cloned
                // and then grown exceeds CBMC's memory, measured 13 GB)
                let cut = if N > 0 { N - 1 } else { 0 };
                Key::from_parts(kname(nm), vec_of(idx, 0, 0, cut)).with_extra_labels(vec_of(idx, 0, cut, N))
            }
            5 => Key::from_static_parts(kname(nm), static_of(idx)).clone(), // clone before first get_hash
            6 => {
                let k = Key::from_static_parts(kname(nm), static_of(idx));
                let _ = k.get_hash();
                k.clone() // clone of a memoised key
            }
            7 => Key::from((arc_name(nm), vec_of(idx, 1, 0, N))), // From<(N, L)>
            8 => {
                let k = Key::from_parts(owned_name(nm), vec_of(idx, 1, 0, N));
                Key::from_parts(kname(nm), k.labels()) // IntoLabels for slice::Iter (clones the labels)
            }
            9 => {
                let (n, l) = Key::from_parts(arc_name(nm), vec_of(idx, 1, 0, N)).into_parts();
                Key::from_parts(n, l) // into_parts round trip
            }
            _ => Key::from_static_parts(kname(nm), static_of(idx)).with_extra_labels(Vec::new()), // == clone
        }
    }
    pub const NPATH: u8 = 11;

    fn check_one<const N: usize>(nm: u8, idx: [u8; N], k: Key, full: bool) {
        // (i) the path produced exactly this name and this label list (byte for byte, in order)
        assert!(k.name().as_bytes() == kname(nm).as_bytes(), "name content");
        assert!(k.labels.len() == N && k.labels().len() == N, "label count");
        let mut j = 0;
        while j < N {
            let (lk, lv) = lab_parts(idx[j]);
            assert!(k.labels[j].key().as_bytes() == lk.as_bytes(), "label key content");
            assert!(k.labels[j].value().as_bytes() == lv.as_bytes(), "label value content");
            j += 1;
        }
        // (ii) memo invariant: hashed => hash == H(name, labels); get_hash() returns H(name, labels), always
        let expect = gkh_rec(&k.name, &k.labels);
        let (hashed, hash) = unsafe { (*k.hashed.as_ptr(), *k.hash.as_ptr()) };
        assert!(!hashed || hash == expect, "a memoised hash is the hash of the final (name, labels)");
        let h1 = k.get_hash();
        assert!(h1 == expect, "get_hash() is the hash of (name, labels) on every path");
        assert!(k.get_hash() == h1, "stable for the life of the key");
        // (iii) end to end against the all-static construction
        if full {
            let r = Key::from_static_parts(kname(nm), static_of(idx));
            assert!(k == r, "construction path does not matter for ==");
            assert!(k.cmp(&r) == cmp::Ordering::Equal, "... nor for cmp");
            assert!(stream(&k).same(&stream(&r)), "... nor for Hash");
            assert!(r.get_hash() == h1, "a == b implies get_hash() identical");
        }
    }
    /// paths plo..phi for ONE concrete (name, label list); the dispatch on the path is outside the check so that each
    /// instance sees one concrete path (plo/phi are constants per harness: other paths are not even symbolically executed)
    fn check_paths<const N: usize>(p: u8, plo: u8, phi: u8, nm: u8, idx: [u8; N], full: bool) {
        macro_rules! arms {
            ($($i:literal)*) => {
                match p {
                    $($i if plo <= $i && $i < phi => check_one::<N>(nm, idx, alt_key::<N>($i, nm, idx), full),)*
                    _ => {}
                }
            };
        }
        arms!(0 1 2 3 4 5 6 7 8 9 10);
    }
    /// label CONTENT is concrete here (a fixed set of lists incl. repeated names, repeated labels, empty, non-ASCII);
    /// symbolic label content is covered by the eq/cmp/hash harnesses on static keys above.
    fn check_lists(which: u8, lo: u8, hi: u8, p: u8, plo: u8, phi: u8, full: bool) {
        kani::assume(which >= lo && which < hi && p >= plo && p < phi);
        match which {
            0 if lo <= 0 && 0 < hi => check_paths::<0>(p, plo, phi, 0, [], full),
            1 if lo <= 1 && 1 < hi => check_paths::<1>(p, plo, phi, 1, [4], full),
            2 if lo <= 2 && 2 < hi => check_paths::<2>(p, plo, phi, 2, [1, 0], full), // repeated name, "descending" values
            3 if lo <= 3 && 3 < hi => check_paths::<2>(p, plo, phi, 0, [2, 3], full),
            4 if lo <= 4 && 4 < hi => check_paths::<3>(p, plo, phi, 0, [0, 0, 2], full), // repeated label
            5 if lo <= 5 && 5 < hi => check_paths::<3>(p, plo, phi, 1, [4, 1, 3], full),
            6 if lo <= 6 && 6 < hi => check_paths::<8>(p, plo, phi, 0, [0, 1, 2, 3, 4, 2, 0, 3], full), // the Vec arms
            _ => {}
        }
        kani::cover!(which == lo && p == plo);
        kani::cover!(which + 1 == hi && p + 1 == phi);
    }

    // quick: the 2-label list with a repeated name; paths 0..7 (from_parts owned / Arc, from_static_labels,
    // with_extra_labels x2, clone x2) content + memo invariant
    #[kani::proof]
    #[kani::unwind(4)]
    #[kani::stub(super::generate_key_hash, gkh_rec)]
    fn c03_paths_quick_a() {
        check_lists(kani::any(), 2, 3, kani::any(), 0, 4, false);
    }
    #[kani::proof]
    #[kani::unwind(4)]
    #[kani::stub(super::generate_key_hash, gkh_rec)]
    fn c03_paths_quick_b() {
        check_lists(kani::any(), 2, 3, kani::any(), 4, 7, false);
    }
    // thorough: same list end to end (==, cmp, Hash against the all-static key) on all 11 paths, and the other lists
    #[kani::proof]
    #[kani::unwind(4)]
    #[kani::stub(super::generate_key_hash, gkh_rec)]
    fn c03_paths_a() {
        check_lists(kani::any(), 2, 3, kani::any(), 0, 4, true);
    }
    #[kani::proof]
    #[kani::unwind(4)]
    #[kani::stub(super::generate_key_hash, gkh_rec)]
    fn c03_paths_b() {
        check_lists(kani::any(), 2, 3, kani::any(), 4, 8, true);
    }
    #[kani::proof]
    #[kani::unwind(4)]
    #[kani::stub(super::generate_key_hash, gkh_rec)]
    fn c03_paths_c() {
        check_lists(kani::any(), 2, 3, kani::any(), 8, 11, true);
    }
    #[kani::proof]
    #[kani::unwind(4)]
    #[kani::stub(super::generate_key_hash, gkh_rec)]
    fn c03_paths_n01() {
        check_lists(kani::any(), 0, 2, kani::any(), 0, 11, true);
    }
    #[kani::proof]
    #[kani::unwind(4)]
    #[kani::stub(super::generate_key_hash, gkh_rec)]
    fn c03_paths_n2_distinct() {
        check_lists(kani::any(), 3, 4, kani::any(), 0, 11, false);
    }
    #[kani::proof]
    #[kani::unwind(5)]
    #[kani::stub(super::generate_key_hash, gkh_rec)]
    fn c03_paths_n3_a() {
        check_lists(kani::any(), 4, 6, kani::any(), 0, 4, false);
    }
    #[kani::proof]
    #[kani::unwind(5)]
    #[kani::stub(super::generate_key_hash, gkh_rec)]
    fn c03_paths_n3_b() {
        check_lists(kani::any(), 4, 6, kani::any(), 5, 8, false);
    }
    #[kani::proof]
    #[kani::unwind(10)]
    #[kani::stub(super::generate_key_hash, gkh_rec)]
    fn c03_paths_n8_a() {
        check_lists(kani::any(), 6, 7, kani::any(), 0, 1, false);
    }
    #[kani::proof]
    #[kani::unwind(10)]
    #[kani::stub(super::generate_key_hash, gkh_rec)]
    fn c03_paths_n8_c() {
        check_lists(kani::any(), 6, 7, kani::any(), 2, 4, false);
    }
    #[kani::proof]
    #[kani::unwind(10)]
    #[kani::stub(super::generate_key_hash, gkh_rec)]
    fn c03_paths_n8_b() {
        check_lists(kani::any(), 6, 7, kani::any(), 5, 7, false);
    }
}

// ------------------------------------------------------------------------------------------------ get_hash memo: rely/guarantee
// Other threads run the same `get_hash` on the same key: each has executed some PREFIX of
//     hash.store(h) ; hashed.store(true)
// with the same h (h is a function of the immutable name/labels).  The stubs below let that environment advance at every
// atomic access of the thread under check (sequential consistency; loop-free => all interleavings).
#[cfg(kani)]
pub mod rg {
    use super::*;
    static mut KEYP: *const Key = core::ptr::null();
    static mut HVAL: u64 = 0;
    static mut ENV: u8 = 0; // environment progress: 0 = nothing yet, 1 = hash stored, 2 = hashed stored as well
    static mut OWN_HASH_STORED: bool = false;
    static mut SLOW_PATHS: u8 = 0;

    unsafe fn env_step() {
        if KEYP.is_null() {
            return;
        }
        let adv: u8 = kani::any();
        if ENV == 0 && adv >= 1 {
            *(*KEYP).hash.as_ptr() = HVAL;
            ENV = 1;
        }
        if ENV == 1 && adv >= 2 {
            *(*KEYP).hashed.as_ptr() = true;
            ENV = 2;
        }
    }
    fn is_shared_key(p: *const u8) -> bool {
        unsafe { !KEYP.is_null() && (p == (*KEYP).hash.as_ptr() as *const u8 || p == (*KEYP).hashed.as_ptr() as *const u8) }
    }
    pub fn load_bool(a: &AtomicBool, _o: Ordering) -> bool {
        unsafe {
            env_step();
            let v = *a.as_ptr();
            env_step();
            v
        }
    }
    pub fn load_u64(a: &AtomicU64, _o: Ordering) -> u64 {
        unsafe {
            env_step();
            let v = *a.as_ptr();
            env_step();
            v
        }
    }
    pub fn store_u64(a: &AtomicU64, v: u64, _o: Ordering) {
        unsafe {
            env_step();
            if is_shared_key(a.as_ptr() as *const u8) {
                assert!(v == HVAL, "guarantee: only the deterministic hash is ever published");
                OWN_HASH_STORED = true;
            }
            *a.as_ptr() = v;
            env_step();
        }
    }
    /// any read-modify-write that can set `hashed` (swap / fetch_or / compare_exchange) is a publication of the flag too: the same
    /// guarantee applies (the value must already be published), and the step is atomic (interference before and after only)
    pub fn swap_bool(a: &AtomicBool, v: bool, _o: Ordering) -> bool {
        unsafe {
            env_step();
            if is_shared_key(a.as_ptr() as *const u8) {
                assert!(v, "guarantee: hashed is only ever set");
                assert!(OWN_HASH_STORED && *(*KEYP).hash.as_ptr() == HVAL, "guarantee: hashed is set only after hash");
            }
            let old = *a.as_ptr();
            *a.as_ptr() = v;
            env_step();
            old
        }
    }
    pub fn fetch_or_bool(a: &AtomicBool, v: bool, o: Ordering) -> bool {
        if v { swap_bool(a, true, o) } else { load_bool(a, o) }
    }
    pub fn cas_bool(a: &AtomicBool, cur: bool, new: bool, _s: Ordering, _f: Ordering) -> Result<bool, bool> {
        unsafe {
            env_step();
            let old = *a.as_ptr();
            if old == cur {
                if is_shared_key(a.as_ptr() as *const u8) && new {
                    assert!(OWN_HASH_STORED && *(*KEYP).hash.as_ptr() == HVAL, "guarantee: hashed is set only after hash");
                }
                *a.as_ptr() = new;
                env_step();
                Ok(old)
            } else {
                env_step();
                Err(old)
            }
        }
    }
    pub fn store_bool(a: &AtomicBool, v: bool, _o: Ordering) {
        unsafe {
            env_step();
            if is_shared_key(a.as_ptr() as *const u8) {
                assert!(v, "guarantee: hashed is only ever set");
                assert!(OWN_HASH_STORED && *(*KEYP).hash.as_ptr() == HVAL, "guarantee: hashed is set only after hash");
            }
            *a.as_ptr() = v;
            env_step();
        }
    }
    /// contract of generate_key_hash used here: a function of (name, labels) -- the same value h on every call / thread
    pub fn gkh_const(_name: &KeyName, _labels: &Cow<'static, [Label]>) -> u64 {
        unsafe {
            SLOW_PATHS += 1;
            HVAL
        }
    }
    static LABELS: [Label; 2] = [Label::from_static_parts("a", "1"), Label::from_static_parts("b", "2")];

    #[kani::proof]
    #[kani::unwind(3)]
    #[kani::stub(core::sync::atomic::Atomic::<bool>::load, load_bool)]
    #[kani::stub(core::sync::atomic::Atomic::<bool>::store, store_bool)]
    #[kani::stub(core::sync::atomic::Atomic::<bool>::swap, swap_bool)]
    #[kani::stub(core::sync::atomic::Atomic::<bool>::fetch_or, fetch_or_bool)]
    #[kani::stub(core::sync::atomic::Atomic::<bool>::compare_exchange, cas_bool)]
    #[kani::stub(core::sync::atomic::Atomic::<u64>::load, load_u64)]
    #[kani::stub(core::sync::atomic::Atomic::<u64>::store, store_u64)]
    #[kani::stub(super::generate_key_hash, gkh_const)]
    fn c03_get_hash_memo_rg() {
        let key = Key::from_static_parts("k", &LABELS); // the shared static key: hashed == false, hash == 0
        let h: u64 = kani::any(); // any hash value, including 0 (== the initial content of `hash`)
        unsafe {
            HVAL = h;
            KEYP = &key;
            ENV = 0;
        }
        let r1 = key.get_hash(); // first use, racing with the others
        assert!(r1 == h, "get_hash() returns the deterministic hash under every interference");
        let env_at_1 = unsafe { ENV };
        let slow_1 = unsafe { SLOW_PATHS };
        let c = key.clone();
        let (c_hashed, c_hash) = unsafe { (*c.hashed.as_ptr(), *c.hash.as_ptr()) };
        assert!(c_hashed && c_hash == h);
        let r2 = key.get_hash();
        assert!(r2 == h, "same value for the whole life of the key");
        unsafe {
            assert!(*key.hashed.as_ptr() && *key.hash.as_ptr() == h, "after a completed call the memo is published");
            KEYP = core::ptr::null(); // the clone is private to this thread
        }
        assert!(c.get_hash() == h);
        kani::cover!(slow_1 == 0); // fast path: the others had finished before our first load
        kani::cover!(slow_1 == 1 && env_at_1 == 2); // slow path with the others racing through both stores meanwhile
        kani::cover!(slow_1 == 1 && env_at_1 == 0); // slow path, nobody else
    }

    /// Key::clone racing with the first get_hash() of other threads: the copy never has hashed == true with a stale hash,
    /// so the clone's own get_hash() is the same value
    #[kani::proof]
    #[kani::unwind(3)]
    #[kani::stub(core::sync::atomic::Atomic::<bool>::load, load_bool)]
    #[kani::stub(core::sync::atomic::Atomic::<bool>::store, store_bool)]
    #[kani::stub(core::sync::atomic::Atomic::<bool>::swap, swap_bool)]
    #[kani::stub(core::sync::atomic::Atomic::<bool>::fetch_or, fetch_or_bool)]
    #[kani::stub(core::sync::atomic::Atomic::<bool>::compare_exchange, cas_bool)]
    #[kani::stub(core::sync::atomic::Atomic::<u64>::load, load_u64)]
    #[kani::stub(core::sync::atomic::Atomic::<u64>::store, store_u64)]
    #[kani::stub(super::generate_key_hash, gkh_const)]
    fn c03_clone_race_rg() {
        let key = Key::from_static_parts("k", &LABELS);
        let h: u64 = kani::any();
        unsafe {
            HVAL = h;
            KEYP = &key;
            ENV = 0;
        }
        let c = key.clone();
        let (c_hashed, c_hash) = unsafe { (*c.hashed.as_ptr(), *c.hash.as_ptr()) };
        assert!(!c_hashed || c_hash == h, "clone never carries hashed == true with a stale hash");
        unsafe {
            KEYP = core::ptr::null(); // the clone is private to this thread
        }
        assert!(c.get_hash() == h);
        assert!(c == key && key.cmp(&c) == cmp::Ordering::Equal);
        kani::cover!(!c_hashed && c_hash == h && h != 0); // hash published between the clone's two loads
        kani::cover!(c_hashed);
        kani::cover!(!c_hashed && c_hash == 0 && h != 0);
    }
}
