// C03 — Verus contracts (unbounded: any number of labels, any strings) for the three functions that must agree:
// `impl PartialEq for Key :: eq`, `impl Ord for Key :: cmp`, `key_hasher_impl` (metrics/src/key.rs), each against ONE canonical form.
#![allow(unused_imports, dead_code, unused_variables, unused_mut)]
use vstd::prelude::*;
use core::cmp::Ordering;
use core::cmp;

verus! {

global size_of usize == 8;

//@INCLUDE prelude/std_extra.rs

// ------------------------------------------------------------------ stubs (ASSUMED contracts)
/// metrics::Label (derive(PartialEq, Eq, Hash, PartialOrd, Ord) over two strings): spec equality is field-wise equality, `lcmp` the
/// derived lexicographic order. ASSUMED of the derive: a total order consistent with equality (axioms below).
#[verifier::external_body] pub struct Label { _p: [u8; 0] }
pub mod order_axioms {
    use vstd::prelude::*;
    use core::cmp::Ordering;
    pub uninterp spec fn lcmp(a: super::Label, b: super::Label) -> Ordering;
    pub uninterp spec fn lname(a: super::Label) -> Seq<char>;
    pub broadcast axiom fn axiom_lcmp_eq(a: super::Label, b: super::Label)
        ensures (#[trigger] lcmp(a, b) == Ordering::Equal) <==> a == b;
    pub broadcast axiom fn axiom_lcmp_anti(a: super::Label, b: super::Label)
        ensures (#[trigger] lcmp(a, b) == Ordering::Less) <==> (lcmp(b, a) == Ordering::Greater);
    pub broadcast axiom fn axiom_lcmp_trans(a: super::Label, b: super::Label, c: super::Label)
        requires #[trigger] lcmp(a, b) == Ordering::Less, #[trigger] lcmp(b, c) == Ordering::Less,
        ensures lcmp(a, c) == Ordering::Less;
    pub broadcast group group_order { axiom_lcmp_eq, axiom_lcmp_anti, axiom_lcmp_trans }
}
pub use order_axioms::{lcmp, lname};
broadcast use order_axioms::group_order;
impl vstd::std_specs::cmp::PartialEqSpecImpl for Label {
    open spec fn obeys_eq_spec() -> bool { true }
    open spec fn eq_spec(&self, o: &Label) -> bool { *self == *o }
}
impl PartialEq for Label { #[verifier::external_body] fn eq(&self, o: &Label) -> (r: bool) { unimplemented!() } }
impl Eq for Label {}
impl Label {
    #[verifier::external_body] pub fn key(&self) -> (r: &str) ensures r@ == lname(*self) { unimplemented!() }
}
impl vstd::std_specs::cmp::PartialOrdSpecImpl for Label {
    open spec fn obeys_partial_cmp_spec() -> bool { true }
    open spec fn partial_cmp_spec(&self, o: &Label) -> Option<Ordering> { Some(lcmp(*self, *o)) }
}
impl PartialOrd for Label { #[verifier::external_body] fn partial_cmp(&self, o: &Label) -> (r: Option<Ordering>) { unimplemented!() } }
impl vstd::std_specs::cmp::OrdSpecImpl for Label {
    open spec fn obeys_cmp_spec() -> bool { true }
    open spec fn cmp_spec(&self, o: &Label) -> Ordering { lcmp(*self, *o) }
}
impl Ord for Label { #[verifier::external_body] fn cmp(&self, o: &Label) -> (r: Ordering) { unimplemented!() } }

/// metrics::KeyName: an opaque string with std's string order
#[verifier::external_body] pub struct SharedString { _p: [u8; 0] }
pub struct KeyName(pub SharedString);
pub uninterp spec fn ncmp(a: KeyName, b: KeyName) -> Ordering;
/// ASSUMED (str order): Equal exactly on equal names
pub axiom fn axiom_ncmp_eq(a: KeyName, b: KeyName) ensures (ncmp(a, b) == Ordering::Equal) <==> a == b;
impl vstd::std_specs::cmp::PartialEqSpecImpl for KeyName {
    open spec fn obeys_eq_spec() -> bool { true }
    open spec fn eq_spec(&self, o: &KeyName) -> bool { *self == *o }
}
impl PartialEq for KeyName { #[verifier::external_body] fn eq(&self, o: &KeyName) -> (r: bool) { unimplemented!() } }

/// metrics::Cow<'static, [Label]> (C14's subject): here only a read-only view of a label slice
#[verifier::external_body] #[verifier::reject_recursive_types(B)]
pub struct Cow<'a, B: ?Sized + 'a> { _p: core::marker::PhantomData<&'a B> }
impl<'a> Cow<'a, [Label]> { pub uninterp spec fn view(&self) -> Seq<Label>; }
impl<'a> core::ops::Deref for Cow<'a, [Label]> {
    type Target = [Label];
    #[verifier::external_body] fn deref(&self) -> (r: &[Label]) ensures r@ == self@ { unimplemented!() }
}
#[verifier::external_body] pub struct AtomicBool { _p: [u8; 0] }
#[verifier::external_body] pub struct AtomicU64 { _p: [u8; 0] }

/// `idx.sort_by_key(|i| labels[*i].key())` on the identity index list: THE order in which the three functions visit >= 3 labels.
/// ASSUMED of slice::sort_by_key: a permutation of 0..n, and a function of the label list alone (stable sort by label name).
pub uninterp spec fn perm(labels: Seq<Label>) -> Seq<int>;
pub axiom fn axiom_perm(labels: Seq<Label>)
    ensures perm(labels).len() == labels.len(), forall|i: int| 0 <= i < labels.len() ==> 0 <= #[trigger] perm(labels)[i] < labels.len();
// R33: `M[..n].sort_by_key(|i| L[*i as usize].key())` on `M = [0, 1, .., 7]` -> shim_sort_idx8(&mut M, n, &L)
#[verifier::external_body]
pub fn shim_sort_idx8(m: &mut [u8; 8], n: usize, labels: &Cow<'static, [Label]>)
    requires n == labels@.len(), n < 8, forall|i: int| 0 <= i < 8 ==> old(m)[i] == i,
    ensures forall|i: int| 0 <= i < n ==> #[trigger] final(m)[i] as int == perm(labels@)[i],
{ unimplemented!() }
// R33: `let mut M: Vec<usize> = (0..n).collect(); M.sort_by_key(|i| L[*i].key());` -> `let mut M = shim_sorted_idx(n, &L);`
#[verifier::external_body]
pub fn shim_sorted_idx(n: usize, labels: &Cow<'static, [Label]>) -> (m: Vec<usize>)
    requires n == labels@.len(),
    ensures m@.len() == n, forall|i: int| 0 <= i < n ==> #[trigger] m@[i] as int == perm(labels@)[i],
{ unimplemented!() }
// R33: `(&A.name, A.labels.len()).cmp(&(&B.name, B.labels.len()))` -> shim_cmp_name_len(..): tuple order = lexicographic
#[verifier::external_body]
pub fn shim_cmp_name_len(a: &KeyName, la: usize, b: &KeyName, lb: usize) -> (r: Ordering)
    ensures r == head_cmp(*a, la as int, *b, lb as int),
{ unimplemented!() }
pub open spec fn head_cmp(a: KeyName, la: int, b: KeyName, lb: int) -> Ordering {
    if ncmp(a, b) != Ordering::Equal { ncmp(a, b) } else if la < lb { Ordering::Less } else if la > lb { Ordering::Greater } else { Ordering::Equal }
}

// ------------------------------------------------------------------ the specification: one canonical form
/// the canonical label sequence of a key: 2 labels -> ordered by the whole label; otherwise the sort_by_key visiting order
pub open spec fn canon(l: Seq<Label>) -> Seq<Label> {
    if l.len() == 2 {
        if lcmp(l[0], l[1]) != Ordering::Greater { l } else { seq![l[1], l[0]] }
    } else if l.len() < 2 {
        l
    } else {
        Seq::new(l.len(), |i: int| l[perm(l)[i]])
    }
}
/// lexicographic comparison of two equally long label sequences from position i on
pub open spec fn lex_from(a: Seq<Label>, b: Seq<Label>, i: int) -> Ordering
    decreases a.len() - i,
{
    if i >= a.len() || i < 0 || a.len() != b.len() { Ordering::Equal }
    else if lcmp(a[i], b[i]) != Ordering::Equal { lcmp(a[i], b[i]) }
    else { lex_from(a, b, i + 1) }
}
pub proof fn lemma_lex_equal(a: Seq<Label>, b: Seq<Label>, i: int)
    requires a.len() == b.len(), 0 <= i <= a.len(),
    ensures (lex_from(a, b, i) == Ordering::Equal) <==> (forall|j: int| i <= j < a.len() ==> a[j] == b[j]),
    decreases a.len() - i,
{
    if i < a.len() { lemma_lex_equal(a, b, i + 1); }
}

//@ITEM file=metrics/src/key.rs sel=struct Key
//@END

impl Key {
    spec fn spec_eq(&self, o: &Key) -> bool {
        self.name == o.name && self.labels@.len() == o.labels@.len() && canon(self.labels@) =~= canon(o.labels@)
    }
    spec fn spec_cmp(&self, o: &Key) -> Ordering {
        let h = head_cmp(self.name, self.labels@.len() as int, o.name, o.labels@.len() as int);
        if h != Ordering::Equal { h } else { lex_from(canon(self.labels@), canon(o.labels@), 0) }
    }
    /// THE PROPERTY, as a lemma over the two contracts below: keys are equal exactly when they compare Equal
    proof fn lemma_eq_iff_cmp_equal(&self, o: &Key)
        ensures self.spec_eq(o) <==> (self.spec_cmp(o) == Ordering::Equal),
    {
        axiom_ncmp_eq(self.name, o.name);
        axiom_perm(self.labels@); axiom_perm(o.labels@);
        let (ca, cb) = (canon(self.labels@), canon(o.labels@));
        assert(ca.len() == self.labels@.len() && cb.len() == o.labels@.len());
        if self.labels@.len() == o.labels@.len() && self.name == o.name {
            assert(head_cmp(self.name, self.labels@.len() as int, o.name, o.labels@.len() as int) == Ordering::Equal);
            lemma_lex_equal(ca, cb, 0);
            if ca =~= cb { assert(forall|j: int| 0 <= j < ca.len() ==> ca[j] == cb[j]); }
        }
    }

// `impl PartialEq for Key :: eq` and `impl Ord for Key :: cmp` verified as inherent methods (R9-like)
//@ITEM file=metrics/src/key.rs sel=impl PartialEq for Key :: fn eq ret=r
//@REWRITE R33 re:(\w+)\[\.\.n\]\.sort_by_key\(\|i\| (\w+)\.labels\[\*i as usize\]\.key\(\)\); ==> shim_sort_idx8(&mut \1, n, &\2.labels);
//@REWRITE R33 re:let mut (\w+): Vec<usize> = \(0\.\.n\)\.collect\(\);\s*\1\.sort_by_key\(\|i\| (\w+)\.labels\[\*i\]\.key\(\)\); ==> let mut \1: Vec<usize> = shim_sorted_idx(n, &\2.labels);
//@SPEC
    ensures r == self.spec_eq(other),
//@BODYSTART
        proof { axiom_perm(self.labels@); axiom_perm(other.labels@); }
//@BEFORE 3 return false;
                        assert(canon(self.labels@)[i as int] != canon(other.labels@)[i as int]);
//@BEFORE 4 return false;
                        assert(canon(self.labels@)[i as int] != canon(other.labels@)[i as int]);
//@LOOP 1
                invariant
                    n == self.labels@.len(), n == other.labels@.len(), 3 <= n < 8,
                    forall|k: int| 0 <= k < n ==> #[trigger] labels_sort_map[k] as int == perm(self.labels@)[k],
                    forall|k: int| 0 <= k < n ==> #[trigger] his_labels_sort_map[k] as int == perm(other.labels@)[k],
                    forall|k: int| 0 <= k < n ==> 0 <= #[trigger] perm(self.labels@)[k] < n,
                    forall|k: int| 0 <= k < n ==> 0 <= #[trigger] perm(other.labels@)[k] < n,
                    forall|k: int| 0 <= k < i ==> canon(self.labels@)[k] == canon(other.labels@)[k],
//@LOOP 2
                invariant
                    n == self.labels@.len(), n == other.labels@.len(), 8 <= n,
                    labels_sort_map@.len() == n, his_labels_sort_map@.len() == n,
                    forall|k: int| 0 <= k < n ==> #[trigger] labels_sort_map@[k] as int == perm(self.labels@)[k],
                    forall|k: int| 0 <= k < n ==> #[trigger] his_labels_sort_map@[k] as int == perm(other.labels@)[k],
                    forall|k: int| 0 <= k < n ==> 0 <= #[trigger] perm(self.labels@)[k] < n,
                    forall|k: int| 0 <= k < n ==> 0 <= #[trigger] perm(other.labels@)[k] < n,
                    forall|k: int| 0 <= k < i ==> canon(self.labels@)[k] == canon(other.labels@)[k],
//@END

//@ITEM file=metrics/src/key.rs sel=impl Ord for Key :: fn cmp ret=r
//@REWRITE R33 re:\(&self\.name, self\.labels\.len\(\)\)\.cmp\(&\(&other\.name, other\.labels\.len\(\)\)\) ==> shim_cmp_name_len(&self.name, self.labels.len(), &other.name, other.labels.len())
//@REWRITE R33 re:(\w+)\[\.\.n\]\.sort_by_key\(\|i\| (\w+)\.labels\[\*i as usize\]\.key\(\)\); ==> shim_sort_idx8(&mut \1, n, &\2.labels);
//@REWRITE R33 re:let mut (\w+): Vec<usize> = \(0\.\.n\)\.collect\(\);\s*\1\.sort_by_key\(\|i\| (\w+)\.labels\[\*i\]\.key\(\)\); ==> let mut \1: Vec<usize> = shim_sorted_idx(n, &\2.labels);
// SPEC-closure: when the 2-label arm chains comparisons with `then_with(|| X.cmp(Y))`, the closure is annotated with its result
//@IF file=metrics/src/key.rs sel=impl Ord for Key :: fn cmp contains=.then_with(||
//@REWRITE SPEC-closure re:then_with\(\|\| (\w+)\.cmp\((\w+)\)\) ==> then_with(|| -> (o: cmp::Ordering) ensures o == lcmp(*\1, *\2) { \1.cmp(\2) })
//@ENDIF
//@SPEC
    ensures r == self.spec_cmp(other),
//@BODYSTART
        proof { axiom_perm(self.labels@); axiom_perm(other.labels@); reveal_with_fuel(lex_from, 4); }
//@LOOP 1
                invariant
                    n == self.labels@.len(), n == other.labels@.len(), 3 <= n < 8,
                    head_cmp(self.name, n as int, other.name, n as int) == Ordering::Equal,
                    forall|k: int| 0 <= k < n ==> #[trigger] labels_sort_map[k] as int == perm(self.labels@)[k],
                    forall|k: int| 0 <= k < n ==> #[trigger] his_labels_sort_map[k] as int == perm(other.labels@)[k],
                    forall|k: int| 0 <= k < n ==> 0 <= #[trigger] perm(self.labels@)[k] < n,
                    forall|k: int| 0 <= k < n ==> 0 <= #[trigger] perm(other.labels@)[k] < n,
                    lex_from(canon(self.labels@), canon(other.labels@), 0) == lex_from(canon(self.labels@), canon(other.labels@), i as int),
//@LOOP 2
                invariant
                    n == self.labels@.len(), n == other.labels@.len(), 8 <= n,
                    head_cmp(self.name, n as int, other.name, n as int) == Ordering::Equal,
                    labels_sort_map@.len() == n, his_labels_sort_map@.len() == n,
                    forall|k: int| 0 <= k < n ==> #[trigger] labels_sort_map@[k] as int == perm(self.labels@)[k],
                    forall|k: int| 0 <= k < n ==> #[trigger] his_labels_sort_map@[k] as int == perm(other.labels@)[k],
                    forall|k: int| 0 <= k < n ==> 0 <= #[trigger] perm(self.labels@)[k] < n,
                    forall|k: int| 0 <= k < n ==> 0 <= #[trigger] perm(other.labels@)[k] < n,
                    lex_from(canon(self.labels@), canon(other.labels@), 0) == lex_from(canon(self.labels@), canon(other.labels@), i as int),
//@END
}

// ------------------------------------------------------------------ hashing: the token stream a Hasher receives
/// one `Hash::hash` call of a leaf value = one token. ASSUMED of std / derive(Hash): the bytes written for a value are a function of
/// the value, and streams of tokens are prefix-free (str writes a terminator, usize a fixed width), so equal token streams <=> equal
/// byte streams.
pub enum Tok { S(SharedString), N(usize), L(Label) }
pub trait Hasher {
    spec fn stream(&self) -> Seq<Tok>;
}
pub trait Hash {
    spec fn tok(&self) -> Tok;
    fn hash<H: Hasher>(&self, state: &mut H)
        ensures final(state).stream() == old(state).stream().push(self.tok());
}
impl Hash for SharedString {
    open spec fn tok(&self) -> Tok { Tok::S(*self) }
    #[verifier::external_body] fn hash<H: Hasher>(&self, state: &mut H) { unimplemented!() }
}
impl Hash for usize {
    open spec fn tok(&self) -> Tok { Tok::N(*self) }
    #[verifier::external_body] fn hash<H: Hasher>(&self, state: &mut H) { unimplemented!() }
}
impl Hash for Label {
    open spec fn tok(&self) -> Tok { Tok::L(*self) }
    #[verifier::external_body] fn hash<H: Hasher>(&self, state: &mut H) { unimplemented!() }
}
/// what hashing a key feeds the hasher: name, label count, then the labels in CANONICAL order
pub open spec fn enc(name: KeyName, labels: Seq<Label>) -> Seq<Tok> {
    seq![Tok::S(name.0), Tok::N(labels.len() as usize)] + canon(labels).map_values(|l: Label| Tok::L(l))
}
/// equal keys feed equal streams (the converse is injectivity of the encoding: not needed by the property)
pub proof fn lemma_eq_same_stream(n1: KeyName, l1: Seq<Label>, n2: KeyName, l2: Seq<Label>)
    requires n1 == n2, l1.len() == l2.len(), canon(l1) =~= canon(l2),
    ensures enc(n1, l1) == enc(n2, l2),
{ }

//@ITEM file=metrics/src/key.rs sel=fn key_hasher_impl
//@REWRITE R33 re:(\w+)\[\.\.n\]\.sort_by_key\(\|i\| (\w+)\[\*i as usize\]\.key\(\)\); ==> shim_sort_idx8(&mut \1, n, \2);
//@REWRITE R33 re:let mut (\w+): Vec<usize> = \(0\.\.n\)\.collect\(\);\s*\1\.sort_by_key\(\|i\| (\w+)\[\*i\]\.key\(\)\); ==> let mut \1: Vec<usize> = shim_sorted_idx(n, \2);
//@SPEC
    ensures final(state).stream() == old(state).stream() + enc(*name, labels@),
//@BODYSTART
    proof { axiom_perm(labels@); }
    let ghost s0 = state.stream();
    let ghost cl = canon(labels@).map_values(|l: Label| Tok::L(l));
//@LOOP 1
            invariant
                n == labels@.len(), 3 <= n < 8,
                cl == canon(labels@).map_values(|l: Label| Tok::L(l)),
                forall|k: int| 0 <= k < n ==> #[trigger] labels_sort_map[k] as int == perm(labels@)[k],
                forall|k: int| 0 <= k < n ==> 0 <= #[trigger] perm(labels@)[k] < n,
                state.stream() == s0 + seq![Tok::S(name.0), Tok::N(n)] + cl.take(i as int),
//@LOOP 2
            invariant
                n == labels@.len(), 8 <= n, labels_sort_map@.len() == n,
                cl == canon(labels@).map_values(|l: Label| Tok::L(l)),
                forall|k: int| 0 <= k < n ==> #[trigger] labels_sort_map@[k] as int == perm(labels@)[k],
                forall|k: int| 0 <= k < n ==> 0 <= #[trigger] perm(labels@)[k] < n,
                state.stream() == s0 + seq![Tok::S(name.0), Tok::N(n)] + cl.take(i as int),
//@END

} // verus!
fn main() {}
