def H(name, clause, kind="bounded", tier="quick", timeout=600, replay=True, covers=0, module=None, **kw):
    d = dict(name=name, obligation=f"C03/kani/{name}", clause=clause, kind=kind, tier=tier, timeout=timeout, replay=replay, covers=covers)
    if module: d["module"] = module
    d.update(kw)
    return d

T = "labels drawn by symbolic indices from {a=1, a=2, b=1, ''='', e'=e'} (repeats allowed), key names from {'k', '', e'}"
STUB = "generate_key_hash's KeyHasher (AHash) swapped for the recording hasher via kani::stub"
LISTS = "concrete lists: k[], ''[e'=e'], e'[a=2,a=1], k[b=1,''=''], k[a=1,a=1,b=1], ''[e'=e',a=2,''=''], k[8 labels with repeats]"

PLAN = {
    "property": "C03",
    "level": "proof",
    "manifest": {
        "technique": "Verus (z3), unbounded, on <Key as PartialEq>::eq, <Key as Ord>::cmp and key_hasher_impl extracted verbatim and proved against ONE canonical label order (any number of labels, any strings; slice::sort_by_key and derive(Ord/Hash) of Label as ASSUMED contracts), with `equal <=> compares Equal` and `equal => same hasher stream` as lemmas over those contracts; plus Kani/CBMC bounded model checking of the real Key::{eq,cmp,hash,get_hash,clone,constructors} (label count <= 3 and = 8, label/name content from a 5-entry table incl. repeated names, repeated labels, empty and non-ASCII strings) + rely/guarantee stubs of the std atomics for the get_hash() memo",
        "text": "PROVED (Verus, all label counts and contents): eq(a,b) == (name, canon(labels)) equal; cmp(a,b) == lexicographic comparison of (name, len, canon(labels)); key_hasher_impl feeds the hasher name, len, canon(labels) -- with canon = the pair ordered by whole label for 2 labels and the sort_by_key visiting order otherwise; hence a == b <=> cmp == Equal, and a == b => identical hasher input. BOUNDED (Kani), on the real code compiled by Kani: (1) a == b <=> a.cmp(b) == Equal, symmetry/duality, reflexivity, transitivity and antisymmetry on triples, a == b => identical sequence of Hasher::write* calls (recording hasher), label-order independence for pairwise distinct names -- all for keys whose labels are chosen by symbolic indices from a small table, label count <= 2 (quick) / = 3 (thorough); for 8 labels (the Vec arms) only three concrete key pairs; (2) construction-path independence: each of 11 construction paths (from_parts with owned / Arc strings, from_static_labels, from_name + with_extra_labels, split with_extra_labels, clone before/after memoisation, From<(N,L)>, IntoLabels for Iter, into_parts round trip, with_extra_labels(empty)) yields byte-identical name and label list, a memo that satisfies hashed => hash == H(name, labels), and (thorough) ==/cmp/Hash agreement with the all-static key, on a fixed set of concrete label lists; (3) get_hash() under arbitrary interference by other threads running the same first-use code returns the deterministic hash, publishes hash before hashed, and a racing Key::clone never carries hashed == true with a stale hash (loop-free => all SC interleavings).  Construction paths, the get_hash memo and order axioms on triples are bounded / rely-guarantee and are listed separately, not counted as proved. Defect found and fixed: 2 labels with the same name compared unequal-but-== (c03_eq_iff_cmp, replayed; /repo 5a9feff).",
        "note": "Bounds: label count <= 3 symbolic content; exactly 8 labels only as three concrete pairs; 5-entry label table, 3 key names, strings <= 2 bytes; triples only for exactly 1 or 2 labels. AHash itself is executed only on concrete static keys (c03_get_hash_real); elsewhere the hasher is swapped for a recorder (key_hasher_impl is generic in the hasher). Path harnesses use concrete label content (the heap-backed Vec<Label> paths exceed CBMC's memory with symbolic content); that eq/cmp/hash depend on content only follows from Cow's fields being private to cow.rs plus property C14. SC atomics assumed; Hashable for Key (metrics-util) is checked on one concrete key (thorough tier).",
    },
    "min_obligations": {"quick": 7, "thorough": 7},
    "assumptions": [
        "Verus template: slice::sort_by_key on the identity index list yields a permutation that is a function of the label list (R33 shims); derive(PartialEq, Ord) of Label is a total order consistent with equality (three broadcast axioms); derive(Hash)/str/usize hashing writes a prefix-free function of the value (token model); tuple `(&name, len).cmp(..)` is lexicographic (R33 shim); Cow<[Label]> derefs to its content (C14)",
        "Verus template: transitivity / antisymmetry of the resulting key order is not proved there (bounded triples in Kani only)",
        "bounded: " + T + "; label count <= 2 (quick), = 3 (thorough); 8 labels: three concrete key pairs only (one pair costs CBMC ~3 min / 5 GB); nothing is claimed for other label counts or other strings",
        "Hash output is observed as the exact sequence of Hasher::write/write_u8/write_usize calls made into a recording hasher; equal sequences give equal output for every deterministic Hasher (KeyHasher::default() = AHasher with fixed keys, default-features = false)",
        STUB + " in the c03_paths_* harnesses (AHash on symbolic or heap data exceeds 12 GB in CBMC); the real AHash is run only on concrete static keys in c03_get_hash_real",
        "construction-path harnesses use concrete label content (" + LISTS + "); eq/cmp/hash cannot observe how a Cow is stored because Cow's fields are private to cow.rs (Rust privacy) and Cow reads back its content exactly (property C14)",
        "get_hash memo: sequentially consistent atomics; other threads execute only Key::get_hash / Key::clone on the shared key (the only code that touches the two atomics); generate_key_hash is a deterministic function of the immutable (name, labels) -- modelled as an arbitrary constant h, incl. h == 0",
        "Hashable for Key (metrics-util/src/common.rs): checked on one concrete key in the thorough tier (c03_hashable); for other keys by inspection (the body is `self.get_hash()`)",
        "panic = failure; CBMC pointer checks are on but memory safety of Cow is property C14's subject",
    ],
    "verus": [
        {"template": "order.verus.rs", "tier": "quick", "rlimit": 40, "min_functions": 5},
    ],
    "kani": [{
        "crate": "metrics",
        "parallel": 4,
        "modules": [
            {"file": "metrics/src/key.rs", "mod": "__verif_c03", "src": "key.kani.rs"},
        ],
        "functions": [
            {"item": "<Key as PartialEq>::eq", "file": "metrics/src/key.rs"},
            {"item": "<Key as Ord>::cmp, <Key as PartialOrd>::partial_cmp", "file": "metrics/src/key.rs"},
            {"item": "<Key as Hash>::hash, key_hasher_impl, generate_key_hash", "file": "metrics/src/key.rs"},
            {"item": "Key::get_hash, <Key as Clone>::clone", "file": "metrics/src/key.rs"},
            {"item": "Key::{from_name, from_parts, from_static_labels, from_static_name, from_static_parts, builder, with_extra_labels, into_parts, labels, name}, From<(N, L)> for Key", "file": "metrics/src/key.rs"},
            {"item": "Label::{new, from_static_parts, key, value}, derived Eq/Ord/Hash for Label, IntoLabels impls", "file": "metrics/src/label.rs"},
        ],
        "harnesses": [
            # ---- quick
            H("c03_eq_iff_cmp", "a == b <=> a.cmp(b) == Equal (and partial_cmp == Some(cmp))", bound="label count <= 2 each; " + T, covers=2),
            H("c03_eq_hash", "a == b => identical sequence of Hasher::write* calls", bound="label count <= 2 each; " + T, covers=2),
            H("c03_symmetry", "(a == b) == (b == a) and a.cmp(b) == b.cmp(a).reverse()", bound="label count <= 2 each; " + T, covers=2),
            H("c03_reflexive", "a == a, a.cmp(a) == Equal, Hash stream reproducible", bound="label count <= 3; " + T, covers=1),
            H("c03_order_triples", "<= transitive, == transitive, (a <= b and b <= a) => a == b", bound="three keys, exactly 2 labels each, one shared name; " + T, covers=2),
            H("c03_label_order", "pairwise distinct label names => swapping the labels gives an equal key (==, cmp, Hash stream)", bound="2 labels; " + T, covers=1),
            H("c03_get_hash_real", "real AHash: get_hash() == generate_key_hash == std Hash through a fresh KeyHasher, stable, clone keeps it, label order irrelevant", bound="one concrete 2-label static key and its reversal"),
            H("c03_paths_quick_a", "from_parts (owned / Arc strings), from_static_labels, from_name+with_extra_labels: same name bytes, same label list, memo == H(name, labels), get_hash() == H(name, labels)", bound="concrete key e'[a=2,a=1]; " + STUB, replay=False, covers=2, sub="stubbed"),
            H("c03_paths_quick_b", "from_parts+with_extra_labels (split), clone before / after memoisation: same content, memo invariant, get_hash() == H(name, labels)", bound="concrete key e'[a=2,a=1]; " + STUB, replay=False, covers=2, sub="stubbed"),
            H("c03_get_hash_memo_rg", "first get_hash() racing with any prefix of the other threads' {hash.store(h); hashed.store(true)} returns h; own stores publish h, hash before hashed; second call returns h", kind="rely-guarantee", replay=False, covers=3, sub="rg"),
            H("c03_clone_race_rg", "Key::clone racing with other threads' first get_hash(): never (hashed, stale hash); the clone's get_hash() is h; clone == original", kind="rely-guarantee", replay=False, covers=3, sub="rg"),
            # ---- thorough
            H("c03_eq_iff_cmp_n3", "a == b <=> a.cmp(b) == Equal", bound="exactly 3 labels each; " + T, covers=2, tier="thorough", timeout=900),
            H("c03_eq_hash_n3", "a == b => identical Hash stream", bound="exactly 3 labels each; " + T, covers=2, tier="thorough", timeout=900),
            H("c03_symmetry_n3", "== symmetric, cmp dual", bound="exactly 3 labels each; " + T, covers=2, tier="thorough", timeout=900),
            H("c03_label_order_n3", "pairwise distinct names => every permutation of 3 labels gives an equal key", bound="3 labels, 5 non-identity permutations; " + T, covers=1, tier="thorough", timeout=900),
            H("c03_order_triples_names", "order axioms on triples whose key names differ", bound="three keys, exactly 1 label each; " + T, covers=2, tier="thorough", timeout=900),
            H("c03_vec_path_n8_distinct", "the n >= 8 (Vec) arms: distinct names, reversed label order => ==, cmp Equal (dual), same Hash stream", bound="ONE concrete pair of 8-label keys", tier="thorough", timeout=900),
            H("c03_vec_path_n8_repeated", "the n >= 8 arms: repeated name in the opposite relative order => !=, cmp != Equal (dual), different Hash stream", bound="ONE concrete pair of 8-label keys", tier="thorough", timeout=900),
            H("c03_vec_path_n8_unequal", "the n >= 8 arms: one value differs, rotated order => !=, cmp != Equal (dual)", bound="ONE concrete pair of 8-label keys", tier="thorough", timeout=900),
            H("c03_paths_a", "paths 0-3 end to end: ==, cmp Equal, same Hash stream, same get_hash() as the all-static key", bound="concrete key e'[a=2,a=1]; " + STUB, replay=False, covers=2, sub="stubbed", tier="thorough", timeout=900),
            H("c03_paths_b", "paths 4-7 end to end", bound="concrete key e'[a=2,a=1]; " + STUB, replay=False, covers=2, sub="stubbed", tier="thorough", timeout=900),
            H("c03_paths_c", "paths 8-10 (IntoLabels for Iter, into_parts round trip, with_extra_labels(empty)) end to end", bound="concrete key e'[a=2,a=1]; " + STUB, replay=False, covers=2, sub="stubbed", tier="thorough", timeout=900),
            H("c03_paths_n01", "all 11 paths end to end for 0 and 1 label", bound="concrete keys k[] and ''[e'=e']; " + STUB, replay=False, covers=2, sub="stubbed", tier="thorough", timeout=900),
            H("c03_paths_n2_distinct", "all 11 paths: content + memo invariant", bound="concrete key k[b=1,''='']; " + STUB, replay=False, covers=2, sub="stubbed", tier="thorough", timeout=900),
            H("c03_paths_n3_a", "paths 0-3: content + memo invariant, 3 labels", bound="concrete keys k[a=1,a=1,b=1], ''[e'=e',a=2,''='']; " + STUB, replay=False, covers=2, sub="stubbed", tier="thorough", timeout=900),
            H("c03_paths_n3_b", "paths 5-7: content + memo invariant, 3 labels", bound="concrete keys k[a=1,a=1,b=1], ''[e'=e',a=2,''='']; " + STUB, replay=False, covers=2, sub="stubbed", tier="thorough", timeout=900),
            H("c03_paths_n8_c", "paths 2-3 (from_static_labels, from_name+with_extra_labels): content + memo invariant, 8 labels", bound="one concrete 8-label key with repeats; " + STUB, replay=False, covers=2, sub="stubbed", tier="thorough", timeout=900),
            H("c03_paths_n8_a", "path 0 (from_parts, owned strings): content + memo invariant, 8 labels (Vec arm of key_hasher_impl)", bound="one concrete 8-label key with repeats; " + STUB, replay=False, covers=2, sub="stubbed", tier="thorough", timeout=900),
            H("c03_paths_n8_b", "paths 5-6 (clone): content + memo invariant, 8 labels", bound="one concrete 8-label key with repeats; " + STUB, replay=False, covers=2, sub="stubbed", tier="thorough", timeout=900),
        ],
    }, {
        "crate": "metrics-util",
        "parallel": 1,
        "modules": [
            {"file": "metrics-util/src/common.rs", "mod": "__verif_c03_hashable", "src": "hashable.kani.rs"},
        ],
        "functions": [
            {"item": "<Key as Hashable>::hashable", "file": "metrics-util/src/common.rs"},
        ],
        "harnesses": [
            H("c03_hashable", "Hashable::hashable(key) == key.get_hash() == std Hash through Hashable::Hasher; equal keys give equal values", bound="one concrete 2-label static key and its reversal; real AHash", tier="thorough", timeout=900),
        ],
    }],
    "witnesses": [
        {"match": r"(fn key_hasher_impl|fn eq\b|fn cmp\b|order\.verus)", "name": "fn key_hasher_impl", "src": "witness_many_labels.rs", "crate": "metrics", "file": "metrics/src/key.rs"},
    ],
}
