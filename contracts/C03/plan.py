def H(name, clause, kind="bounded", tier="quick", timeout=600, replay=True, covers=0, module=None, **kw):
    d = dict(name=name, obligation=f"C03/kani/{name}", clause=clause, kind=kind, tier=tier, timeout=timeout, replay=replay, covers=covers)
    if module: d["module"] = module
    d.update(kw)
    return d

TABLE = "labels from {a=1,a=2,b=1,''='',e'=e'} (repeats allowed), names from {'k','','e'k'}"

PLAN = {
    "property": "C03",
    "level": "model_checking",
    "manifest": {"technique": "Kani/CBMC bounded", "text": "draft", "note": "draft"},
    "min_obligations": {"quick": 0, "thorough": 0},
    "assumptions": [],
    "kani": [{
        "crate": "metrics",
        "parallel": 4,
        "modules": [
            {"file": "metrics/src/key.rs", "mod": "__verif_c03", "src": "key.kani.rs"},
        ],
        "functions": [],
        "harnesses": [
            H("c03_eq_iff_cmp", "a == b <=> a.cmp(b) == Equal", bound="n<=2; " + TABLE, covers=2),
            H("c03_eq_hash", "a == b => same Hash stream", bound="n<=2; " + TABLE, covers=2),
            H("c03_probe_gethash", "probe", bound="n<=2"),
        ],
    }],
}
