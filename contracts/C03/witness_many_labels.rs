// Hand-derived from the contract of `key_hasher_impl` / `Key::eq` / `Key::cmp` ("a == b exactly when a.cmp(b) is Equal, and
// a == b implies identical std Hash output and get_hash()"), for keys with MANY labels, repeated label names and differing
// supply orders: whenever the real `==` says two keys are equal, order and both hashes must agree -- and the other way round.
use super::*;
use std::collections::hash_map::DefaultHasher;
use std::hash::{Hash, Hasher};

fn std_hash(k: &Key) -> u64 { let mut h = DefaultHasher::new(); k.hash(&mut h); h.finish() }

#[test]
fn equality_order_and_hashes_agree_for_many_labels_with_repeated_names() {
    for n in [3usize, 8, 9, 20, 21, 22, 24, 33, 40] {
        // names cycle through a small set (so names repeat), values are all distinct
        let names = ["dc", "az", "svc", "az", "host", "dc", "pod"];
        let base: Vec<Label> = (0..n).map(|i| Label::new(names[i % names.len()], format!("v{i}"))).collect();
        // supply orders: as is; name classes regrouped (relative order inside a class kept); reversed; rotated
        let mut regrouped: Vec<Label> = Vec::new();
        for nm in ["pod", "host", "svc", "dc", "az"] { regrouped.extend(base.iter().filter(|l| l.key() == nm).cloned()); }
        let reversed: Vec<Label> = base.iter().rev().cloned().collect();
        let mut rotated = base.clone(); rotated.rotate_left(n / 2);
        let variants = [base.clone(), regrouped, reversed, rotated];
        let keys: Vec<Key> = variants.iter().map(|ls| Key::from_parts("name", ls.clone())).collect();
        // the same through with_extra_labels on a shorter static-style key
        let extra = Key::from_parts("name", base[..n / 2].to_vec()).with_extra_labels(base[n / 2..].to_vec());
        let mut all = keys.clone(); all.push(extra);
        for a in &all {
            for b in &all {
                let eq = a == b;
                assert_eq!(eq, a.cmp(b) == std::cmp::Ordering::Equal, "n={n}: == and cmp disagree");
                if eq {
                    assert_eq!(a.get_hash(), b.get_hash(), "n={n}: equal keys, different get_hash()");
                    assert_eq!(std_hash(a), std_hash(b), "n={n}: equal keys, different std Hash");
                }
            }
        }
        // sanity: regrouping by name keeps the key equal when label names decide the canonical order
        assert!(all[0] == all[4], "n={n}: with_extra_labels must not change the key");
    }
}
