// C04 — contracts on the real `impl CounterFn for AtomicU64` / `impl GaugeFn for AtomicU64`
// (metrics/src/atomics.rs). Every harness is loop-free (or unwinds the retry loop once with the
// unwinding assertion on) over the FULL domain of (old value, argument): complete, not bounded.
use super::*;

fn same_f64(a: f64, b: f64) -> bool {
    // a produced NaN has an unspecified payload: compare "both NaN" then
    (a.is_nan() && b.is_nan()) || a.to_bits() == b.to_bits()
}

// ensures: new == old.wrapping_add(v)        (sum of increments modulo 2^64, by induction)
pub fn c04_counter_increment_body(old: u64, v: u64) {
    let a = AtomicU64::new(old);
    CounterFn::increment(&a, v);
    assert!(a.load(Ordering::SeqCst) == old.wrapping_add(v));
}
#[cfg(kani)]
#[kani::proof]
#[kani::unwind(3)]
fn c04_counter_increment() {
    c04_counter_increment_body(kani::any(), kani::any());
}

// ensures: new == max(old, v)   => never decreases, ends >= every absolute value given
pub fn c04_counter_absolute_body(old: u64, v: u64) {
    let a = AtomicU64::new(old);
    CounterFn::absolute(&a, v);
    let new = a.load(Ordering::SeqCst);
    assert!(new == if old >= v { old } else { v });
    assert!(new >= old && new >= v);
    kani::cover!(old < v);
    kani::cover!(old > v);
}
#[cfg(kani)]
#[kani::proof]
#[kani::unwind(3)]
fn c04_counter_absolute() {
    c04_counter_absolute_body(kani::any(), kani::any());
}

// ensures: new == bits(f64(old) + v) for every bit pattern incl. NaN, +-inf, -0.0
pub fn c04_gauge_increment_body(old: u64, vbits: u64) {
    let v = f64::from_bits(vbits);
    let a = AtomicU64::new(old);
    GaugeFn::increment(&a, v);
    let new = f64::from_bits(a.load(Ordering::SeqCst));
    assert!(same_f64(new, f64::from_bits(old) + v));
    kani::cover!(new.is_nan());
    kani::cover!(new == 1.5);
}
#[cfg(kani)]
#[kani::proof]
#[kani::unwind(2)]
fn c04_gauge_increment() {
    c04_gauge_increment_body(kani::any(), kani::any());
}

pub fn c04_gauge_decrement_body(old: u64, vbits: u64) {
    let v = f64::from_bits(vbits);
    let a = AtomicU64::new(old);
    GaugeFn::decrement(&a, v);
    let new = f64::from_bits(a.load(Ordering::SeqCst));
    assert!(same_f64(new, f64::from_bits(old) - v));
    kani::cover!(new == -2.25);
}
#[cfg(kani)]
#[kani::proof]
#[kani::unwind(2)]
fn c04_gauge_decrement() {
    c04_gauge_decrement_body(kani::any(), kani::any());
}

// ensures: set leaves exactly the bits of the value given
pub fn c04_gauge_set_body(old: u64, vbits: u64) {
    let v = f64::from_bits(vbits);
    let a = AtomicU64::new(old);
    GaugeFn::set(&a, v);
    assert!(a.load(Ordering::SeqCst) == vbits);
}
#[cfg(kani)]
#[kani::proof]
fn c04_gauge_set() {
    c04_gauge_set_body(kani::any(), kani::any());
}

// Rely/guarantee: increment under interference. `fetch_update` is replaced by a stub that first lets
// other threads change the cell to ANY value (havoc), then applies the closure exactly once to the value
// current at that instant (the std contract of a successful CAS); the obligation is that the real
// closure passed by `GaugeFn::increment` computes cur + v for that *current* value => no update lost.
#[cfg(kani)]
mod rg {
    use super::*;
    pub static mut SEEN: u64 = 0;
    pub static mut CALLS: u32 = 0;
    pub fn fetch_update_stub<F: FnMut(u64) -> Option<u64>>(a: &AtomicU64, _s: Ordering, _f: Ordering, mut f: F) -> Result<u64, u64> {
        let cur: u64 = kani::any(); // interference: any value written by other threads meanwhile
        unsafe { *a.as_ptr() = cur; SEEN = cur; CALLS += 1; }
        match f(cur) {
            Some(n) => { unsafe { *a.as_ptr() = n; } Ok(cur) }
            None => Err(cur),
        }
    }
    #[kani::proof]
    #[kani::unwind(2)]
    #[kani::stub(core::sync::atomic::Atomic::<u64>::fetch_update, fetch_update_stub)]
    fn c04_gauge_increment_rg() {
        let vbits: u64 = kani::any();
        let v = f64::from_bits(vbits);
        let a = AtomicU64::new(kani::any());
        GaugeFn::increment(&a, v);
        let new = f64::from_bits(unsafe { *a.as_ptr() });
        let seen = unsafe { SEEN };
        assert!(unsafe { CALLS } == 1);
        assert!(same_f64(new, f64::from_bits(seen) + v));
    }
    #[kani::proof]
    #[kani::unwind(2)]
    #[kani::stub(core::sync::atomic::Atomic::<u64>::fetch_update, fetch_update_stub)]
    fn c04_gauge_decrement_rg() {
        let vbits: u64 = kani::any();
        let v = f64::from_bits(vbits);
        let a = AtomicU64::new(kani::any());
        GaugeFn::decrement(&a, v);
        let new = f64::from_bits(unsafe { *a.as_ptr() });
        let seen = unsafe { SEEN };
        assert!(unsafe { CALLS } == 1);
        assert!(same_f64(new, f64::from_bits(seen) - v));
    }

    // Rely/guarantee: absolute(v) under interference. Counters only move forward: between any two of this thread's atomic steps
    // other threads may raise the cell (increments / absolutes; wrap-around of the 64-bit sum is excluded from the rely). Whatever
    // primitive the implementation uses (fetch_max, or load + compare_exchange, ...), after absolute(v) returns the cell is >= v:
    // "absolute values are never lost to a concurrent update".
    pub static mut STEPS: u32 = 0;
    unsafe fn raise(a: &AtomicU64) {
        let cur = *a.as_ptr();
        let up: u64 = kani::any();
        kani::assume(up >= cur);
        *a.as_ptr() = up;
        STEPS += 1;
    }
    pub fn load_stub(a: &AtomicU64, _o: Ordering) -> u64 {
        unsafe { raise(a); *a.as_ptr() }
    }
    pub fn fetch_max_stub(a: &AtomicU64, v: u64, _o: Ordering) -> u64 {
        unsafe { raise(a); let cur = *a.as_ptr(); if v > cur { *a.as_ptr() = v; } cur }
    }
    pub fn cas_stub(a: &AtomicU64, cur: u64, new: u64, _s: Ordering, _f: Ordering) -> Result<u64, u64> {
        unsafe { raise(a); let now = *a.as_ptr(); if now == cur { *a.as_ptr() = new; Ok(now) } else { Err(now) } }
    }
    #[kani::proof]
    #[kani::unwind(3)]
    #[kani::stub(core::sync::atomic::Atomic::<u64>::load, load_stub)]
    #[kani::stub(core::sync::atomic::Atomic::<u64>::fetch_max, fetch_max_stub)]
    #[kani::stub(core::sync::atomic::Atomic::<u64>::compare_exchange, cas_stub)]
    #[kani::stub(core::sync::atomic::Atomic::<u64>::compare_exchange_weak, cas_stub)]
    fn c04_counter_absolute_rg() {
        let v: u64 = kani::any();
        let a = AtomicU64::new(kani::any());
        let before = unsafe { *a.as_ptr() };
        CounterFn::absolute(&a, v);
        let after = unsafe { *a.as_ptr() };
        assert!(after >= v, "an absolute value is never lost to a concurrent update");
        assert!(after >= before, "the counter never moves backwards");
        kani::cover!(unsafe { STEPS } >= 1 && after > v);
    }
}
