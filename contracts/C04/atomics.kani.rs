// C04 — contracts on the real `impl CounterFn for AtomicU64` / `impl GaugeFn for AtomicU64`
// (metrics/src/atomics.rs). Every harness is loop-free (or unwinds the retry loop once with the
// unwinding assertion on) over the FULL domain of (old value, argument): complete, not bounded.
use super::*;

fn same_f64(a: f64, b: f64) -> bool {
    // a produced NaN has an unspecified payload: compare "both NaN" then
    (a.is_nan() && b.is_nan()) || a.to_bits() == b.to_bits()
}

// ensures: new == old.wrapping_add(v)        (sum of increments modulo 2^64, by induction)
pub fn c04_counter_increment_body(old: u64, v: u64) {
    let a = AtomicU64::new(old);
    CounterFn::increment(&a, v);
    assert!(a.load(Ordering::SeqCst) == old.wrapping_add(v));
}
#[cfg(kani)]
#[kani::proof]
fn c04_counter_increment() {
    c04_counter_increment_body(kani::any(), kani::any());
}

// ensures: new == max(old, v)   => never decreases, ends >= every absolute value given
pub fn c04_counter_absolute_body(old: u64, v: u64) {
    let a = AtomicU64::new(old);
    CounterFn::absolute(&a, v);
    let new = a.load(Ordering::SeqCst);
    assert!(new == if old >= v { old } else { v });
    assert!(new >= old && new >= v);
    kani::cover!(old < v);
    kani::cover!(old > v);
}
#[cfg(kani)]
#[kani::proof]
fn c04_counter_absolute() {
    c04_counter_absolute_body(kani::any(), kani::any());
}

// ensures: new == bits(f64(old) + v) for every bit pattern incl. NaN, +-inf, -0.0
pub fn c04_gauge_increment_body(old: u64, vbits: u64) {
    let v = f64::from_bits(vbits);
    let a = AtomicU64::new(old);
    GaugeFn::increment(&a, v);
    let new = f64::from_bits(a.load(Ordering::SeqCst));
    assert!(same_f64(new, f64::from_bits(old) + v));
    kani::cover!(new.is_nan());
    kani::cover!(new == 1.5);
}
#[cfg(kani)]
#[kani::proof]
#[kani::unwind(2)]
fn c04_gauge_increment() {
    c04_gauge_increment_body(kani::any(), kani::any());
}

pub fn c04_gauge_decrement_body(old: u64, vbits: u64) {
    let v = f64::from_bits(vbits);
    let a = AtomicU64::new(old);
    GaugeFn::decrement(&a, v);
    let new = f64::from_bits(a.load(Ordering::SeqCst));
    assert!(same_f64(new, f64::from_bits(old) - v));
    kani::cover!(new == -2.25);
}
#[cfg(kani)]
#[kani::proof]
#[kani::unwind(2)]
fn c04_gauge_decrement() {
    c04_gauge_decrement_body(kani::any(), kani::any());
}

// ensures: set leaves exactly the bits of the value given
pub fn c04_gauge_set_body(old: u64, vbits: u64) {
    let v = f64::from_bits(vbits);
    let a = AtomicU64::new(old);
    GaugeFn::set(&a, v);
    assert!(a.load(Ordering::SeqCst) == vbits);
}
#[cfg(kani)]
#[kani::proof]
fn c04_gauge_set() {
    c04_gauge_set_body(kani::any(), kani::any());
}

// Rely/guarantee: increment under interference. `fetch_update` is replaced by a stub that first lets
// other threads change the cell to ANY value (havoc), then applies the closure exactly once to the value
// current at that instant (the std contract of a successful CAS); the obligation is that the real
// closure passed by `GaugeFn::increment` computes cur + v for that *current* value => no update lost.
#[cfg(kani)]
mod rg {
    use super::*;
    pub static mut SEEN: u64 = 0;
    pub static mut CALLS: u32 = 0;
    pub fn fetch_update_stub<F: FnMut(u64) -> Option<u64>>(a: &AtomicU64, _s: Ordering, _f: Ordering, mut f: F) -> Result<u64, u64> {
        let cur: u64 = kani::any(); // interference: any value written by other threads meanwhile
        unsafe { *a.as_ptr() = cur; SEEN = cur; CALLS += 1; }
        match f(cur) {
            Some(n) => { unsafe { *a.as_ptr() = n; } Ok(cur) }
            None => Err(cur),
        }
    }
    #[kani::proof]
    #[kani::unwind(2)]
    #[kani::stub(core::sync::atomic::Atomic::<u64>::fetch_update, fetch_update_stub)]
    fn c04_gauge_increment_rg() {
        let vbits: u64 = kani::any();
        let v = f64::from_bits(vbits);
        let a = AtomicU64::new(kani::any());
        GaugeFn::increment(&a, v);
        let new = f64::from_bits(unsafe { *a.as_ptr() });
        let seen = unsafe { SEEN };
        assert!(unsafe { CALLS } == 1);
        assert!(same_f64(new, f64::from_bits(seen) + v));
    }
    #[kani::proof]
    #[kani::unwind(2)]
    #[kani::stub(core::sync::atomic::Atomic::<u64>::fetch_update, fetch_update_stub)]
    fn c04_gauge_decrement_rg() {
        let vbits: u64 = kani::any();
        let v = f64::from_bits(vbits);
        let a = AtomicU64::new(kani::any());
        GaugeFn::decrement(&a, v);
        let new = f64::from_bits(unsafe { *a.as_ptr() });
        let seen = unsafe { SEEN };
        assert!(unsafe { CALLS } == 1);
        assert!(same_f64(new, f64::from_bits(seen) - v));
    }
}
