// C04 — IntoF64 conversions and GaugeValue::update_value (metrics/src/common.rs), full domain.
use super::*;

fn same_f64(a: f64, b: f64) -> bool {
    (a.is_nan() && b.is_nan()) || a.to_bits() == b.to_bits()
}

pub fn c04_into_f64_ints_body(a: i8, b: u8, c: i16, d: u16, e: i32, f: u32) {
    assert!(a.into_f64() as i8 == a && a.into_f64() == a as f64);
    assert!(b.into_f64() as u8 == b && b.into_f64() == b as f64);
    assert!(c.into_f64() as i16 == c && c.into_f64() == c as f64);
    assert!(d.into_f64() as u16 == d && d.into_f64() == d as f64);
    assert!(e.into_f64() as i32 == e && e.into_f64() == e as f64);
    assert!(f.into_f64() as u32 == f && f.into_f64() == f as f64);
    assert!(__into_f64(f) == f as f64);
}
#[cfg(kani)]
#[kani::proof]
fn c04_into_f64_ints() {
    c04_into_f64_ints_body(kani::any(), kani::any(), kani::any(), kani::any(), kani::any(), kani::any());
}

pub fn c04_into_f64_floats_body(xbits: u32, ybits: u64) {
    let x = f32::from_bits(xbits);
    let y = f64::from_bits(ybits);
    let xf = x.into_f64();
    assert!(x.is_nan() == xf.is_nan());
    if !x.is_nan() {
        assert!(xf as f32 == x && xf == x as f64);
    }
    assert!(y.into_f64().to_bits() == ybits);
}
#[cfg(kani)]
#[kani::proof]
fn c04_into_f64_floats() {
    c04_into_f64_floats_body(kani::any(), kani::any());
}

pub fn c04_gauge_value_update_body(vbits: u64, ibits: u64, which: u8) {
    let v = f64::from_bits(vbits);
    let input = f64::from_bits(ibits);
    let (gv, expect) = match which % 3 {
        0 => (GaugeValue::Absolute(v), v),
        1 => (GaugeValue::Increment(v), input + v),
        _ => (GaugeValue::Decrement(v), input - v),
    };
    assert!(same_f64(gv.update_value(input), expect));
}
#[cfg(kani)]
#[kani::proof]
fn c04_gauge_value_update() {
    c04_gauge_value_update_body(kani::any(), kani::any(), kani::any());
}

