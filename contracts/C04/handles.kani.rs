// C04 — contracts on the real handle types (metrics/src/handles.rs): forwarding exactly once,
// no-op handles inert, default record_many == `count` x record.
use super::*;
use std::sync::atomic::{AtomicU64 as A64, Ordering as O};

struct Log {
    calls: A64,
    last_u: A64,
    last_op: A64,
}
impl Log {
    fn new() -> Self { Log { calls: A64::new(0), last_u: A64::new(0), last_op: A64::new(0) } }
    fn hit(&self, op: u64, v: u64) {
        self.calls.fetch_add(1, O::SeqCst);
        self.last_op.store(op, O::SeqCst);
        self.last_u.store(v, O::SeqCst);
    }
}
impl CounterFn for Log {
    fn increment(&self, value: u64) { self.hit(1, value) }
    fn absolute(&self, value: u64) { self.hit(2, value) }
}
impl GaugeFn for Log {
    fn increment(&self, value: f64) { self.hit(3, value.to_bits()) }
    fn decrement(&self, value: f64) { self.hit(4, value.to_bits()) }
    fn set(&self, value: f64) { self.hit(5, value.to_bits()) }
}
impl HistogramFn for Log {
    fn record(&self, value: f64) { self.hit(6, value.to_bits()) }
    // record_many: the trait's DEFAULT body is the code under contract
}

pub fn c04_counter_handle_body(v: u64, which: bool) {
    let log = Arc::new(Log::new());
    let c = Counter::from_arc(log.clone());
    let c2 = c.clone();
    if which { c2.increment(v) } else { c2.absolute(v) }
    assert!(log.calls.load(O::SeqCst) == 1);
    assert!(log.last_op.load(O::SeqCst) == if which { 1 } else { 2 });
    assert!(log.last_u.load(O::SeqCst) == v);
    // no-op handle: no effect, no panic
    let n = Counter::noop();
    n.increment(v);
    n.absolute(v);
    assert!(log.calls.load(O::SeqCst) == 1);
}
#[cfg(kani)]
#[kani::proof]
fn c04_counter_handle() {
    c04_counter_handle_body(kani::any(), kani::any());
}

pub fn c04_gauge_handle_body(vbits: u64, op: u8) {
    let v = f64::from_bits(vbits);
    let log = Arc::new(Log::new());
    let g = Gauge::from_arc(log.clone());
    let g2 = g.clone();
    match op % 3 {
        0 => g2.increment(v),
        1 => g2.decrement(v),
        _ => g2.set(v),
    }
    assert!(log.calls.load(O::SeqCst) == 1);
    assert!(log.last_op.load(O::SeqCst) == 3 + (op % 3) as u64);
    assert!(log.last_u.load(O::SeqCst) == vbits); // f64 passes through IntoF64 unchanged, bit for bit
    let n = Gauge::noop();
    n.increment(v);
    n.decrement(v);
    n.set(v);
    assert!(log.calls.load(O::SeqCst) == 1);
}
#[cfg(kani)]
#[kani::proof]
fn c04_gauge_handle() {
    c04_gauge_handle_body(kani::any(), kani::any());
}

pub fn c04_histogram_handle_body(vbits: u64) {
    let v = f64::from_bits(vbits);
    let log = Arc::new(Log::new());
    let h = Histogram::from_arc(log.clone());
    h.clone().record(v);
    assert!(log.calls.load(O::SeqCst) == 1);
    assert!(log.last_op.load(O::SeqCst) == 6);
    assert!(log.last_u.load(O::SeqCst) == vbits);
    let n = Histogram::noop();
    n.record(v);
    n.record_many(v, usize::MAX);
    assert!(log.calls.load(O::SeqCst) == 1);
}
#[cfg(kani)]
#[kani::proof]
fn c04_histogram_handle() {
    c04_histogram_handle_body(kani::any());
}

// bounded(count <= 4): default HistogramFn::record_many delivers the value exactly `count` times,
// directly, through Arc<T> and through the Histogram handle.
pub fn c04_record_many_body(vbits: u64, count: usize, path: u8) {
    kani::assume(count <= 4);
    let v = f64::from_bits(vbits);
    let log = Arc::new(Log::new());
    match path % 3 {
        0 => HistogramFn::record_many(&*log, v, count),
        1 => HistogramFn::record_many(&log, v, count),
        _ => Histogram::from_arc(log.clone()).record_many(v, count),
    }
    assert!(log.calls.load(O::SeqCst) == count as u64);
    if count > 0 {
        assert!(log.last_op.load(O::SeqCst) == 6);
        assert!(log.last_u.load(O::SeqCst) == vbits);
    }
    kani::cover!(count == 4);
    kani::cover!(count == 0);
}
#[cfg(kani)]
#[kani::proof]
#[kani::unwind(6)]
fn c04_record_many() {
    c04_record_many_body(kani::any(), kani::any(), kani::any());
}

// Arc<T> blanket impls forward each operation once
pub fn c04_arc_forward_body(v: u64, vbits: u64, op: u8) {
    let log = Arc::new(Log::new());
    let f = f64::from_bits(vbits);
    match op % 6 {
        0 => CounterFn::increment(&log, v),
        1 => CounterFn::absolute(&log, v),
        2 => GaugeFn::increment(&log, f),
        3 => GaugeFn::decrement(&log, f),
        4 => GaugeFn::set(&log, f),
        _ => HistogramFn::record(&log, f),
    }
    assert!(log.calls.load(O::SeqCst) == 1);
    assert!(log.last_op.load(O::SeqCst) == 1 + (op % 6) as u64);
    assert!(log.last_u.load(O::SeqCst) == if op % 6 < 2 { v } else { vbits });
}
#[cfg(kani)]
#[kani::proof]
fn c04_arc_forward() {
    c04_arc_forward_body(kani::any(), kani::any(), kani::any());
}

// From<Arc<T>> conversions build live handles on the SAME storage
pub fn c04_from_arc_body(v: u64) {
    let log = Arc::new(Log::new());
    let c: Counter = Counter::from(log.clone());
    let g: Gauge = Gauge::from(log.clone());
    let h: Histogram = Histogram::from(log.clone());
    c.increment(v);
    assert!(log.calls.load(O::SeqCst) == 1 && log.last_op.load(O::SeqCst) == 1 && log.last_u.load(O::SeqCst) == v);
    g.set(f64::from_bits(v));
    assert!(log.calls.load(O::SeqCst) == 2 && log.last_op.load(O::SeqCst) == 5 && log.last_u.load(O::SeqCst) == v);
    h.record(f64::from_bits(v));
    assert!(log.calls.load(O::SeqCst) == 3 && log.last_op.load(O::SeqCst) == 6);
}
#[cfg(kani)]
#[kani::proof]
fn c04_from_arc() {
    c04_from_arc_body(kani::any());
}
