def H(name, clause, kind="complete", tier="quick", timeout=600, replay=True, covers=0, module=None, **kw):
    d = dict(name=name, obligation=f"C04/kani/{name}", clause=clause, kind=kind, tier=tier, timeout=timeout, replay=replay, covers=covers)
    if module: d["module"] = module
    d.update(kw)
    return d

PLAN = {
    "property": "C04",
    "level": "proof",
    "manifest": {
        "technique": "Kani/CBMC: full-domain loop-free harnesses and rely/guarantee stubs on the real impls; record_many bounded(count<=4)",
        "text": "Per-call contracts of the five AtomicU64 handle methods, the handle forwarders, the Arc blanket impls, IntoF64 and GaugeValue::update_value are discharged by CBMC over the full input domain (all u64 / all f64 bit patterns) on the real code compiled by Kani; sequences and interleavings follow by induction from the per-call contract plus atomicity of the single RMW (assumed). record_many is checked for count <= 4 only and is listed as bounded, not proved.",
        "note": "Assumes SC atomics and that each std RMW is atomic (orderings unchecked); Duration conversion is std's; panic unwinding not modelled; record_many bound count<=4.",
    },
    "min_obligations": {"quick": 14, "thorough": 14},
    "assumptions": [
        "atomics are sequentially consistent and each std RMW (fetch_add, fetch_max, swap, a successful fetch_update CAS) is one atomic step; memory orderings are not checked (Kani has no weak-memory model)",
        "no-lost-update under concurrency follows from the per-call contract plus atomicity of the single RMW; the rely/guarantee harnesses havoc the cell before the RMW to model any interference",
        "Duration::into_f64 is std's as_secs_f64 (a full-domain CBMC comparison of the two float conversions timed out at 600 s and was dropped; by inspection a one-line forward)",
        "record_many for arbitrary count is the induction over a 2-line loop; only count <= 4 is machine-checked (bounded, not counted as proved)",
        "panic = failure; unwinding semantics not modelled",
    ],
    "kani": [{
        "crate": "metrics",
        "modules": [
            {"file": "metrics/src/atomics.rs", "mod": "__verif_c04_atomics", "src": "atomics.kani.rs"},
            {"file": "metrics/src/handles.rs", "mod": "__verif_c04_handles", "src": "handles.kani.rs"},
            {"file": "metrics/src/common.rs", "mod": "__verif_c04_common", "src": "common.kani.rs"},
        ],
        "functions": [
            {"item": "<AtomicU64 as CounterFn>::{increment,absolute}", "file": "metrics/src/atomics.rs"},
            {"item": "<AtomicU64 as GaugeFn>::{increment,decrement,set}", "file": "metrics/src/atomics.rs"},
            {"item": "Counter::{increment,absolute,noop,from_arc}, Gauge::{increment,decrement,set,noop,from_arc}, Histogram::{record,record_many,noop,from_arc}", "file": "metrics/src/handles.rs"},
            {"item": "HistogramFn::record_many (default), impl {CounterFn,GaugeFn,HistogramFn} for Arc<T>", "file": "metrics/src/handles.rs"},
            {"item": "IntoF64 for i8..u32,f32,f64; __into_f64; GaugeValue::update_value", "file": "metrics/src/common.rs"},
        ],
        "harnesses": [
            H("c04_counter_increment", "new == old.wrapping_add(v) for all (old, v)"),
            H("c04_counter_absolute", "new == max(old, v) for all (old, v)", covers=2),
            H("c04_counter_absolute_rg", "absolute(v) with other threads raising the counter before each atomic step: afterwards the value is >= v and never below its value at entry", kind="rely-guarantee", replay=False, covers=1, sub="rg"),
            H("c04_gauge_increment", "new == bits(f64(old) + v) for all 2^128 (old, v)", covers=2),
            H("c04_gauge_decrement", "new == bits(f64(old) - v) for all 2^128 (old, v)", covers=1),
            H("c04_gauge_set", "new == bits(v)"),
            H("c04_gauge_increment_rg", "under arbitrary interference the closure is applied once to the value current at the RMW", kind="rely-guarantee", replay=False, sub="rg"),
            H("c04_gauge_decrement_rg", "under arbitrary interference the closure is applied once to the value current at the RMW", kind="rely-guarantee", replay=False, sub="rg"),
            H("c04_counter_handle", "Some(inner) => exactly one call with the same value; noop => none", module="__verif_c04_handles"),
            H("c04_gauge_handle", "exactly one call, value bit-identical; noop => none", module="__verif_c04_handles"),
            H("c04_histogram_handle", "record => one call; noop record/record_many(usize::MAX) => none, no panic", module="__verif_c04_handles"),
            H("c04_arc_forward", "Arc<T> impls forward each op exactly once", module="__verif_c04_handles"),
            H("c04_record_many", "default record_many delivers v exactly count times (direct, Arc, handle)", kind="bounded", bound="count <= 4", covers=2, module="__verif_c04_handles"),
            H("c04_into_f64_ints", "i8..u32 convert exactly (round-trip) for every value", module="__verif_c04_common"),
            H("c04_into_f64_floats", "f32 -> f64 exact and NaN-preserving; f64 identity", module="__verif_c04_common"),
            H("c04_gauge_value_update", "Absolute/Increment/Decrement arms", module="__verif_c04_common"),
            H("c04_from_arc", "From<Arc<T>> for Counter/Gauge/Histogram forward to that storage", module="__verif_c04_handles"),
        ],
    }],
}
