// C05 -- block-level contracts on the real `Block<T>` of metrics-util/src/storage/bucket.rs.
// `Block` is private: this module is appended to bucket.rs itself.  Nothing here touches
// `AtomicBucket` (every AtomicBucket method reaches crossbeam_epoch::pin(), which Kani cannot compile);
// every bucket-level interleaving clause of the statement is therefore NOT decided here.
//
// Ghost vocabulary used below
//   m(write)      = min(write, BLOCK_SIZE)                 number of claimed slots
//   mask(k)       = the word with exactly bits [0, k) set
//   invariant B   = read is a subset of mask(m(write))      (only claimed slots are ever published)
//   quiescent(k)  = write == k <= BLOCK_SIZE, read == mask(k), slots [0, k) initialised
use super::*;

fn mask(k: usize) -> usize {
    if k >= BLOCK_SIZE { usize::MAX } else { (1usize << k) - 1 }
}

// ---------------------------------------------------------------------------------------------
// Block::len   ensures: len <= BLOCK_SIZE, every bit below len is set, bit len (if any) is clear
//              (i.e. len is the longest published prefix; with B, every slot below len is initialised
//              => nothing is observed before it is fully written).  All 2^64 bitmaps.
pub fn c05_len_body(read: usize, write: usize, i: usize) {
    let block = mem::ManuallyDrop::new(Block::<u8>::new()); // never run Drop on a panic path: it spins on a non-quiescent block
    block.read.store(read, Ordering::SeqCst);
    block.write.store(write, Ordering::SeqCst); // len must not depend on write
    let len = block.len();
    assert!(len <= BLOCK_SIZE);
    // specification written without trailing_ones: prefix of ones, then a zero
    assert!(read & mask(len) == mask(len));
    if len < BLOCK_SIZE {
        assert!((read >> len) & 1 == 0);
    } else {
        assert!(read == usize::MAX);
    }
    // pointwise form of "every bit below len set" for a symbolic position
    if i < len {
        assert!((read >> i) & 1 == 1);
    }
    assert!(len == read.trailing_ones() as usize);
    // len reads, never writes
    assert!(block.read.load(Ordering::SeqCst) == read && block.write.load(Ordering::SeqCst) == write);
    kani::cover!(len == BLOCK_SIZE);
    kani::cover!(len == 0 && read != 0);
    kani::cover!(len == 17 && read > mask(17));
}
#[cfg(kani)]
#[kani::proof]
fn c05_len() {
    c05_len_body(kani::any(), kani::any(), kani::any());
}

// ---------------------------------------------------------------------------------------------
// Block::is_quiesced   requires B.  ensures: result <=> every claimed slot is published
//   (read == mask(m(write))), and then len == m(write): a reader that waited for quiescence sees
//   every value whose slot was claimed.  All (write, read) words satisfying B.
pub fn c05_is_quiesced_body(write: usize, read: usize) {
    let m = core::cmp::min(write, BLOCK_SIZE);
    kani::assume(read & !mask(m) == 0); // B
    let block = mem::ManuallyDrop::new(Block::<u8>::new()); // never run Drop on a panic path: it spins on a non-quiescent block
    block.write.store(write, Ordering::SeqCst);
    block.read.store(read, Ordering::SeqCst);
    let q = block.is_quiesced();
    assert!(q == (read == mask(m)));
    if q {
        assert!(block.len() == m);
    } else {
        // some claimed slot is still in flight: a strict prefix only
        assert!(block.len() < m);
    }
    assert!(block.read.load(Ordering::SeqCst) == read && block.write.load(Ordering::SeqCst) == write);
    kani::cover!(q && write > BLOCK_SIZE);
    kani::cover!(q && write == 0);
    kani::cover!(!q && write == 3 && read == 0b101);
    kani::cover!(!q && write > BLOCK_SIZE && read == usize::MAX >> 1);
}
#[cfg(kani)]
#[kani::proof]
fn c05_is_quiesced() {
    c05_is_quiesced_body(kani::any(), kani::any());
}

// ---------------------------------------------------------------------------------------------
// A value type with a destructor: a token that records its own drop (bit `id % 64` of SEEN; a second
// drop of the same id sets DUP), so that a duplicated, lost (leaked by push) or fabricated value is visible.
pub static mut SEEN: u64 = 0;
pub static mut DUP: bool = false;
pub static mut DROP_TOTAL: u32 = 0;
pub struct Tok(pub u8);
impl Drop for Tok {
    fn drop(&mut self) {
        unsafe {
            let b = 1u64 << (self.0 & 63);
            if SEEN & b != 0 {
                DUP = true;
            }
            SEEN |= b;
            DROP_TOTAL += 1;
        }
    }
}
fn reset_drops() {
    unsafe {
        SEEN = 0;
        DUP = false;
        DROP_TOTAL = 0;
    }
}

fn slot_ptr<T>(block: &Block<T>, i: usize) -> *mut T {
    assert!(i < BLOCK_SIZE);
    unsafe { (block.slots.as_ptr() as *mut T).add(i) }
}

/// Put `block` into quiescent(k) with slot i holding Tok(base + i).
fn make_quiescent(block: &Block<Tok>, k: usize, base: u8) {
    let mut i = 0;
    while i < k {
        unsafe { slot_ptr(block, i).write(Tok(base.wrapping_add(i as u8))) };
        i += 1;
    }
    block.write.store(k, Ordering::SeqCst);
    block.read.store(mask(k), Ordering::SeqCst);
}

// ---------------------------------------------------------------------------------------------
// Block::push, sequential inductive step (no interference): from quiescent(k), ANY k in 0..=64,
//   k < 64  => Ok(()), state is quiescent(k+1), data() == old data ++ [value]  (push order),
//              the value was moved, not dropped, not copied
//   k == 64 => Err(v) with v the same token, block unchanged, nothing dropped
// Induction over k from Block::new() == quiescent(0) gives "data() returns exactly the pushed values
// in push order" for every sequential push sequence on one block.
pub fn c05_push_step_body(k: usize, base: u8, value: u8, j: usize) {
    kani::assume(k <= BLOCK_SIZE);
    reset_drops();
    let block = mem::ManuallyDrop::new(Block::<Tok>::new());
    make_quiescent(&block, k, base);
    assert!(block.is_quiesced() && block.len() == k);
    let r = block.push(Tok(value));
    assert!(unsafe { DROP_TOTAL } == 0); // push never drops: neither the old values nor the new one
    if k < BLOCK_SIZE {
        assert!(r.is_ok());
        assert!(block.write.load(Ordering::SeqCst) == k + 1);
        assert!(block.read.load(Ordering::SeqCst) == mask(k + 1));
        assert!(block.is_quiesced());
        let d = block.data();
        assert!(d.len() == k + 1);
        assert!(d[k].0 == value);
        if j < k {
            assert!(d[j].0 == base.wrapping_add(j as u8)); // earlier values untouched, same positions
        }
        assert!(d.as_ptr() == slot_ptr(&block, 0) as *const Tok);
    } else {
        match r {
            Ok(()) => assert!(false),
            Err(v) => {
                assert!(v.0 == value);
                mem::forget(v);
            }
        }
        assert!(block.read.load(Ordering::SeqCst) == usize::MAX);
        let d = block.data();
        assert!(d.len() == BLOCK_SIZE);
        if j < BLOCK_SIZE {
            assert!(d[j].0 == base.wrapping_add(j as u8));
        }
        assert!(block.is_quiesced()); // write is now 65: the clamp in is_quiesced is needed
    }
    assert!(unsafe { DROP_TOTAL } == 0);
    kani::cover!(k == 0);
    kani::cover!(k == BLOCK_SIZE - 1 && j == 5);
    kani::cover!(k == BLOCK_SIZE);
}
#[cfg(kani)]
#[kani::proof]
#[kani::unwind(66)]
fn c05_push_step() {
    c05_push_step_body(kani::any(), kani::any(), kani::any(), kani::any());
}

// ---------------------------------------------------------------------------------------------
// bounded(n <= 3 pushes, from Block::new()): data() is exactly the first len slots in push order and
// is_quiesced/len agree after every push.  Stand-in for the induction above, run end to end.
pub fn c05_data_push_order_body(n: u8, a: u8, b: u8, c: u8) {
    kani::assume(n <= 3);
    reset_drops();
    let vals = [a, b, c];
    let block = mem::ManuallyDrop::new(Block::<Tok>::new());
    assert!(block.len() == 0 && block.is_quiesced() && block.data().is_empty());
    let mut i = 0usize;
    while i < n as usize {
        assert!(block.push(Tok(vals[i])).is_ok());
        i += 1;
        assert!(block.len() == i && block.is_quiesced());
    }
    let d = block.data();
    assert!(d.len() == n as usize);
    let mut i = 0usize;
    while i < n as usize {
        assert!(d[i].0 == vals[i]);
        i += 1;
    }
    assert!(unsafe { DROP_TOTAL } == 0);
    kani::cover!(n == 3 && a == b);
    kani::cover!(n == 0);
}
#[cfg(kani)]
#[kani::proof]
#[kani::unwind(5)]
fn c05_data_push_order() {
    c05_data_push_order_body(kani::any(), kani::any(), kani::any(), kani::any());
}

// ---------------------------------------------------------------------------------------------
// Drop for Block<T>: from quiescent(k), ANY k in 0..=64: exactly the k written slots are dropped,
// each exactly once, and no slot at or above k is touched (never-written slots hold no value).
fn drop_from_quiescent(k: usize, j: u8) {
    reset_drops();
    let block = mem::ManuallyDrop::new(Block::<Tok>::new());
    let mut block = block;
    make_quiescent(&block, k, 0); // token ids are the slot indices
    assert!(block.is_quiesced()); // otherwise Drop would spin forever
    unsafe { mem::ManuallyDrop::drop(&mut block) };
    assert!(unsafe { DROP_TOTAL } as usize == k);
    assert!(!unsafe { DUP }); // nothing dropped twice
    assert!(unsafe { SEEN } == mask(k) as u64); // slot j dropped iff j < k
    if j < 64 {
        assert!((unsafe { SEEN } >> j) & 1 == if (j as usize) < k { 1 } else { 0 });
    }
}
fn drop_cases(k: usize, j: u8, small_only: bool) {
    // case split on k so that each quiescent state is explored with a concrete block (otherwise CBMC
    // unwinds the drop loop once per unwinding of the spin loop `while !self.is_quiesced() {}`: 66 x 65)
    let mut kk = 0usize;
    let mut ran = 0u32;
    while kk <= BLOCK_SIZE {
        if kk == k && (!small_only || kk <= 6 || kk >= BLOCK_SIZE - 1) {
            drop_from_quiescent(kk, j);
            ran += 1;
        }
        kk += 1;
    }
    assert!(ran == 1);
}
// all 65 quiescent states (thorough tier: ~7 min of symbolic execution)
pub fn c05_drop_body(k: usize, j: u8) {
    kani::assume(k <= BLOCK_SIZE);
    drop_cases(k, j, false);
    kani::cover!(k == BLOCK_SIZE);
    kani::cover!(k == 0);
    kani::cover!(k == 7 && j == 6);
}
#[cfg(kani)]
#[kani::proof]
#[kani::unwind(66)]
fn c05_drop() {
    c05_drop_body(kani::any(), kani::any());
}
// quick stand-in: k in {0..=6, 63, 64}
pub fn c05_drop_small_body(k: usize, j: u8) {
    kani::assume(k <= 6 || k == BLOCK_SIZE - 1 || k == BLOCK_SIZE);
    drop_cases(k, j, true);
    kani::cover!(k == BLOCK_SIZE);
    kani::cover!(k == 0);
    kani::cover!(k == 6 && j == 5);
}
#[cfg(kani)]
#[kani::proof]
#[kani::unwind(66)]
fn c05_drop_small() {
    c05_drop_small_body(kani::any(), kani::any());
}

// bounded(n <= 3): the values pushed through the real push are the ones dropped by Drop, once each;
// a value rejected by a full block is not dropped by the block.
pub fn c05_push_then_drop_body(n: u8, a: u8, b: u8, c: u8) {
    kani::assume(n <= 3);
    kani::assume(a < 64 && b < 64 && c < 64);
    kani::assume(a != b && b != c && a != c);
    reset_drops();
    let vals = [a, b, c];
    let block = mem::ManuallyDrop::new(Block::<Tok>::new());
    let mut expect = 0u64;
    let mut i = 0usize;
    while i < n as usize {
        assert!(block.push(Tok(vals[i])).is_ok());
        expect |= 1u64 << vals[i];
        i += 1;
    }
    assert!(unsafe { DROP_TOTAL } == 0);
    assert!(block.is_quiesced()); // otherwise Drop would spin forever
    let mut block = block;
    unsafe { mem::ManuallyDrop::drop(&mut block) };
    assert!(unsafe { DROP_TOTAL } == n as u32);
    assert!(unsafe { SEEN } == expect && !unsafe { DUP });
    kani::cover!(n == 3);
    kani::cover!(n == 1);
}
#[cfg(kani)]
#[kani::proof]
#[kani::unwind(5)]
fn c05_push_then_drop() {
    c05_push_then_drop_body(kani::any(), kani::any(), kani::any(), kani::any());
}

// ---------------------------------------------------------------------------------------------
// Rely/guarantee for Block::push under interference from other pushers of the SAME block.
//   rely (others):   they claim indices through the same fetch_add (so every index is handed out once:
//                    atomicity of the RMW, ASSUMED) and publish only the bits of indices they claimed;
//                    they never write a slot they did not claim.
//   modelled as:     fetch_add stub: `write` is havocked first (others claimed any number of slots),
//                    the value current at the RMW is returned and write := cur + 1;
//                    fetch_or stub: `read` is havocked to ANY word that satisfies B and does not
//                    contain our bit (others published only their own bits), then our operand is or-ed in.
//   guarantee (this push), asserted inside the stubs / after return:
//     G1 exactly one fetch_add(1): the index is claimed once
//     G2 index >= BLOCK_SIZE => Err(value) with the very same token, no slot written, no bit published
//     G3 at the moment fetch_or runs, slot[index] already holds the value (write before publish)
//        and the operand is exactly 1 << index with index < BLOCK_SIZE (no shift overflow, only our bit)
//     G4 no slot other than slot[index] is written (checked for a symbolic other index)
//     G5 the value is moved: never dropped by push (drop counter 0)
#[cfg(kani)]
mod rg {
    use super::*;
    pub static mut FA_CALLS: u32 = 0;
    pub static mut FO_CALLS: u32 = 0;
    pub static mut CLAIMED: usize = 0;
    pub static mut VALUE: u8 = 0;
    pub static mut SLOTS: *const u8 = core::ptr::null();
    pub static mut WRITE_CELL: *const AtomicUsize = core::ptr::null();
    pub static mut READ_CELL: *const AtomicUsize = core::ptr::null();

    pub fn fetch_add_stub(a: &AtomicUsize, v: usize, _o: Ordering) -> usize {
        unsafe {
            assert!(a as *const AtomicUsize == WRITE_CELL); // the claim goes through `write`
            assert!(v == 1);
            let cur: usize = kani::any(); // interference: any number of earlier claims
            *a.as_ptr() = cur.wrapping_add(v);
            CLAIMED = cur;
            FA_CALLS += 1;
            cur
        }
    }

    pub fn fetch_or_stub(a: &AtomicUsize, v: usize, _o: Ordering) -> usize {
        unsafe {
            assert!(a as *const AtomicUsize == READ_CELL); // publication goes through `read`
            assert!(FA_CALLS == 1); // claim strictly before publish
            assert!(CLAIMED < BLOCK_SIZE); // G3: no shift overflow
            assert!(v == 1usize << CLAIMED); // G3: exactly our bit
            // G3: the slot is fully written BEFORE its bit becomes visible (Tok is repr(Rust) over one u8)
            assert!(*SLOTS.add(CLAIMED) == VALUE);
            let cur: usize = kani::any(); // interference: others published their own bits
            kani::assume(cur & v == 0); // rely: nobody else publishes our bit
            *a.as_ptr() = cur | v;
            FO_CALLS += 1;
            cur
        }
    }

    #[kani::proof]
    #[kani::unwind(66)]
    #[kani::stub(core::sync::atomic::Atomic::<usize>::fetch_add, fetch_add_stub)]
    #[kani::stub(core::sync::atomic::Atomic::<usize>::fetch_or, fetch_or_stub)]
    fn c05_push_rg() {
        reset_drops();
        let value: u8 = kani::any();
        let other: usize = kani::any();
        kani::assume(other < BLOCK_SIZE);
        let block = mem::ManuallyDrop::new(Block::<Tok>::new());
        // fill every slot with a sentinel different from the value, so a write is observable
        let sentinel = !value;
        let mut i = 0;
        while i < BLOCK_SIZE {
            unsafe { (slot_ptr(&block, i) as *mut u8).write(sentinel) };
            i += 1;
        }
        assert!(core::mem::size_of::<Tok>() == 1);
        let read0: usize = kani::any();
        unsafe {
            *block.read.as_ptr() = read0;
            *block.write.as_ptr() = kani::any();
            VALUE = value;
            SLOTS = slot_ptr(&block, 0) as *const u8;
            WRITE_CELL = &block.write;
            READ_CELL = &block.read;
        }
        let r = block.push(Tok(value));
        let idx = unsafe { CLAIMED };
        assert!(unsafe { FA_CALLS } == 1); // G1
        assert!(unsafe { *block.write.as_ptr() } == idx.wrapping_add(1));
        match r {
            Ok(()) => {
                assert!(idx < BLOCK_SIZE);
                assert!(unsafe { FO_CALLS } == 1);
                assert!(unsafe { *SLOTS.add(idx) } == value);
                assert!(unsafe { *block.read.as_ptr() } & (1usize << idx) != 0);
                if other != idx {
                    assert!(unsafe { *SLOTS.add(other) } == sentinel); // G4
                }
            }
            Err(v) => {
                assert!(idx >= BLOCK_SIZE); // G2
                assert!(v.0 == value);
                assert!(unsafe { FO_CALLS } == 0);
                assert!(unsafe { *block.read.as_ptr() } == read0);
                assert!(unsafe { *SLOTS.add(other) } == sentinel);
                mem::forget(v);
            }
        }
        assert!(unsafe { DROP_TOTAL } == 0); // G5
        kani::cover!(idx == BLOCK_SIZE - 1);
        kani::cover!(idx == BLOCK_SIZE);
        kani::cover!(idx == usize::MAX);
        kani::cover!(idx == 0 && other == 1);
        }
}
