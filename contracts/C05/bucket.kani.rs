// C05 -- BUCKET-level contracts on the real `AtomicBucket<T>` of metrics-util/src/storage/bucket.rs.
// This module is appended to bucket.rs itself (private fields `tail`, `write`, `read`, `slots`, `next`).
//
// Kani has no threads.  What is checked here is, per harness, ONE real AtomicBucket method (or a short
// sequential series of them) started from ONE designed state of the bucket:
//   * states reachable sequentially (fresh bucket + n <= 2 real pushes), and
//   * hand-built INTERMEDIATE states: the exact memory a concurrent pusher leaves behind when it is
//     pre-empted between two of its atomic steps (slot claimed by `write.fetch_add` but not yet
//     published by `read.fetch_or`; block-full hand-over done).  The state is built from `Block`s
//     directly and linked with `Owned::new(block).into_shared(guard)` / `tail.store`.
// No interleaving is explored: a harness decides its clause for that one state only.
//
// Environment model (all of it is crossbeam, none of it is code under verification):
//   pin_stub            crossbeam_epoch::pin() -> the `unprotected()` guard (pin() itself is a Kani ICE).
//                       With it `Guard::defer_unchecked` runs the deferred destructor IMMEDIATELY, i.e.
//                       the schedule "nobody else is pinned, the epoch advances at once".
//   decompose_tag_stub  crossbeam's tagged-pointer split `(data & !low_bits, data & low_bits)` -> `(data, 0)`,
//                       with `assert!(data & low_bits == 0)`: bucket.rs never sets a tag.  (The mask makes CBMC
//                       treat every block access as a possible access to raw integer-addressed memory:
//                       10^7 SAT variables for a single push.)
//   snooze_stub         crossbeam_utils::Backoff::snooze() -> "the scheduler runs the stalled pusher": the
//                       pending slot write + `read.fetch_or` registered in ENV.pending are performed (at the
//                       ENV.delay-th snooze, delay in {1, 2}), i.e. a waiting reader eventually sees the straggler finish.
//   defer_leak_stub     (only where stated) Guard::defer_unchecked(f) -> the closure is leaked: the schedule
//                       "the epoch never advances".  Used where a detached block is full: Block::drop's
//                       64-iteration loop would force unwind 65 onto every other loop.
use super::*;

#[cfg(kani)]
mod bk {
    use super::*;
    use core::ptr;
    // named explicitly: the harness must not depend on which crossbeam items the file under verification happens to import
    use crossbeam_epoch::{Guard, Owned, Shared};
    use crossbeam_utils::Backoff;
    use core::mem;

    // ------------------------------------------------------------------------------------------
    // environment stubs
    pub fn pin_stub() -> Guard {
        // == ptr::read(crossbeam_epoch::unprotected()): a Guard whose `local` is null (written as a transmute so that
        // CBMC sees the constant and prunes crossbeam's collector paths)
        assert!(mem::size_of::<Guard>() == mem::size_of::<usize>());
        unsafe { mem::transmute::<usize, Guard>(0) }
    }

    pub fn decompose_tag_stub<T: ?Sized + crossbeam_epoch::Pointable>(data: usize) -> (usize, usize) {
        assert!(data & (T::ALIGN - 1) == 0); // no tag bits are ever set by bucket.rs
        (data, 0)
    }

    /// All harness globals live in ONE struct static with a non-zero magic word.  (Kani 0.68 lets an 8-byte
    /// zero-initialised `static mut` share storage with a `const` of the same bytes -- RawVec's ZERO_CAP --, so that
    /// writing the static changed `Vec::new().capacity()`.)
    pub struct Env {
        pub magic: u64,
        pub snoozes: u32,
        pub delay: u32,
        pub pending: *const Block<u8>,
        pub pend_idx: usize,
        pub pend_val: u8,
        pub deferred: u32,
    }
    pub static mut ENV: Env =
        Env { magic: 0xC05B_C05B_C05B_C05B, snoozes: 0, delay: 1, pending: ptr::null(), pend_idx: 0, pend_val: 0, deferred: 0 };

    /// `snooze` = the reader yields; the stalled pusher registered in ENV.pending finishes its push:
    /// slot write, then publication of exactly its bit (the two last steps of Block::push).
    pub fn snooze_stub(_b: &Backoff) {
        unsafe {
            ENV.snoozes += 1;
            if !ENV.pending.is_null() && ENV.snoozes >= ENV.delay {
                let blk = &*ENV.pending;
                (blk.slots.as_ptr() as *mut u8).add(ENV.pend_idx).write(ENV.pend_val);
                blk.read.fetch_or(1usize << ENV.pend_idx, Ordering::SeqCst);
                ENV.pending = ptr::null();
            }
        }
    }
    fn stall(block: *const Block<u8>, idx: usize, val: u8) {
        unsafe {
            ENV.delay = 1;
            ENV.pending = block;
            ENV.pend_idx = idx;
            ENV.pend_val = val;
            ENV.snoozes = 0;
            ENV.deferred = 0;
        }
    }
    /// the straggler finishes only at the `d`-th yield of the waiting reader
    fn set_delay(d: u32) {
        unsafe { ENV.delay = d };
    }
    fn snoozes() -> u32 {
        unsafe { ENV.snoozes }
    }
    fn deferred() -> u32 {
        unsafe { ENV.deferred }
    }
    fn straggler_done() -> bool {
        unsafe { ENV.pending.is_null() }
    }

    pub unsafe fn defer_leak_stub<F, R>(_g: &Guard, f: F)
    where
        F: FnOnce() -> R,
    {
        ENV.deferred += 1;
        mem::forget(f);
    }

    // ------------------------------------------------------------------------------------------
    // state construction
    fn mask(k: usize) -> usize {
        if k >= BLOCK_SIZE { usize::MAX } else { (1usize << k) - 1 }
    }

    /// slot i holds i + 1 (never 0: a zeroed, never-written slot is distinguishable)
    const TABLE: [u8; 64] = [
        1, 2, 3, 4, 5, 6, 7, 8, 9, 10, 11, 12, 13, 14, 15, 16, 17, 18, 19, 20, 21, 22, 23, 24, 25, 26, 27, 28, 29, 30, 31, 32,
        33, 34, 35, 36, 37, 38, 39, 40, 41, 42, 43, 44, 45, 46, 47, 48, 49, 50, 51, 52, 53, 54, 55, 56, 57, 58, 59, 60, 61, 62, 63, 64,
    ];

    fn guard() -> &'static Guard {
        unsafe { crossbeam_epoch::unprotected() }
    }

    /// A block with the given claim counter and publication bitmap; slot i holds i + 1 (loop-free on purpose).
    fn mk_block(write: usize, read: usize) -> Block<u8> {
        assert!(BLOCK_SIZE == 64);
        let mut b: Block<u8> = Block::new();
        b.write = AtomicUsize::new(write);
        b.read = AtomicUsize::new(read);
        unsafe { ptr::write(b.slots.as_mut_ptr() as *mut [u8; 64], TABLE) };
        b
    }
    fn set_slot(b: &mut Block<u8>, i: usize, v: u8) {
        assert!(i < BLOCK_SIZE);
        unsafe { (b.slots.as_mut_ptr() as *mut u8).add(i).write(v) };
    }

    /// Move `b` to the heap exactly like `AtomicBucket::push` does and return the raw pointer.
    fn install(b: Block<u8>) -> *const Block<u8> {
        Owned::new(b).into_shared(guard()).as_raw()
    }
    fn link(from: *const Block<u8>, to: *const Block<u8>) {
        unsafe { (*from).next.store(Shared::from(to), Ordering::SeqCst) };
    }
    fn set_tail(bucket: &AtomicBucket<u8>, to: *const Block<u8>) {
        bucket.tail.store(Shared::from(to), Ordering::SeqCst);
    }
    fn tail_ptr(b: &AtomicBucket<u8>) -> *const Block<u8> {
        b.tail.load(Ordering::SeqCst, guard()).as_raw()
    }
    fn next_ptr(b: *const Block<u8>) -> *const Block<u8> {
        unsafe { (*b).next.load(Ordering::SeqCst, guard()).as_raw() }
    }

    // ------------------------------------------------------------------------------------------
    // observation: what a callback of data_with / clear_with was handed
    pub struct Rec {
        pub calls: usize,
        pub total: usize,
        pub ptr: [*const u8; 2],
        pub len: [usize; 2],
        pub j: usize,       // symbolic probe position
        pub at_j: [u8; 2],  // element j of the k-th slice (0 if out of range)
        pub known: [*const Block<u8>; 2], // blocks of the designed state
        pub overflow: bool,
    }
    impl Rec {
        pub fn new(j: usize, known: [*const Block<u8>; 2]) -> Rec {
            Rec { calls: 0, total: 0, ptr: [ptr::null(); 2], len: [0; 2], j, at_j: [0; 2], known, overflow: false }
        }
        /// THE contract of every hand-out, checked at the moment of the hand-out:
        /// the slice is the data of a block of the bucket, and that block is quiesced at that moment,
        /// so the slice contains EVERY claimed slot (nothing in flight is skipped, C05 "no value lost")
        /// and only published slots (C05 "not observed before fully written").
        pub fn see(&mut self, xs: &[u8]) {
            let k = self.calls;
            self.calls += 1;
            self.total += xs.len();
            if k >= 2 {
                self.overflow = true;
                return;
            }
            self.ptr[k] = xs.as_ptr();
            self.len[k] = xs.len();
            if self.j < xs.len() {
                self.at_j[k] = xs[self.j];
            }
            let b0 = self.known[0];
            let b1 = self.known[1];
            let from0 = !b0.is_null() && xs.as_ptr() == unsafe { (*b0).slots.as_ptr() as *const u8 };
            let from1 = !b1.is_null() && xs.as_ptr() == unsafe { (*b1).slots.as_ptr() as *const u8 };
            assert!(from0 || from1); // nothing fabricated: the slice is the slot array of a block of the bucket
            let blk = unsafe { &*(if from0 { b0 } else { b1 }) };
            let claimed = core::cmp::min(blk.write.load(Ordering::SeqCst), BLOCK_SIZE);
            assert!(blk.is_quiesced()); // never handed out while a claimed slot is unpublished
            assert!(xs.len() == claimed); // every claimed slot is part of the hand-out
            assert!(blk.read.load(Ordering::SeqCst) == mask(claimed));
        }
    }

    // ==========================================================================================
    // 1. sequential contracts, fresh bucket, n <= 2 real pushes
    // ==========================================================================================
    // Each n is run as its own case on its own fresh bucket (a symbolic n would merge "tail null" and
    // "tail = block" states and make every later pointer a case split).

    fn fresh_with(n: usize, a: u8, b: u8) -> AtomicBucket<u8> {
        let bucket: AtomicBucket<u8> = AtomicBucket::new();
        assert!(bucket.is_empty());
        if n >= 1 {
            bucket.push(a);
        }
        if n >= 2 {
            bucket.push(b);
        }
        bucket
    }

    fn seq_snapshot_case(n: usize, a: u8, b: u8, j: usize) {
        let bucket = fresh_with(n, a, b);
        assert!(bucket.is_empty() == (n == 0));
        let t = tail_ptr(&bucket);
        assert!(t.is_null() == (n == 0));
        let mut rec = Rec::new(j, [t, ptr::null()]);
        bucket.data_with(|xs| rec.see(xs));
        assert!(rec.calls == if n == 0 { 0 } else { 1 });
        assert!(rec.total == n && rec.len[0] == n);
        if j < n {
            assert!(rec.at_j[0] == if j == 0 { a } else { b }); // push order
        }
        // a snapshot read takes nothing
        assert!(tail_ptr(&bucket) == t);
        let mut rec2 = Rec::new(j, [t, ptr::null()]);
        bucket.data_with(|xs| rec2.see(xs));
        assert!(rec2.calls == rec.calls && rec2.total == rec.total && rec2.at_j[0] == rec.at_j[0]);
        assert!(bucket.is_empty() == (n == 0));
        assert!(snoozes() == 0); // nothing in flight: no waiting
    }

    /// bounded(n <= 2): after pushes v1..vn on a fresh bucket: is_empty() == (n == 0); data_with hands out
    /// exactly one slice [v1..vn] in push order (none for n == 0); a snapshot does not consume: a second
    /// data_with sees the same.
    #[kani::proof]
    #[kani::unwind(3)]
    #[kani::stub(crossbeam_epoch::pin, pin_stub)]
    #[kani::stub(crossbeam_epoch::atomic::decompose_tag, decompose_tag_stub)]
    #[kani::stub(crossbeam_utils::Backoff::snooze, snooze_stub)]
    fn c05b_seq_snapshot() {
        let n: u8 = kani::any();
        let a: u8 = kani::any();
        let b: u8 = kani::any();
        let j: usize = kani::any();
        kani::assume(n <= 2);
        match n {
            0 => seq_snapshot_case(0, a, b, j),
            1 => seq_snapshot_case(1, a, b, j),
            _ => seq_snapshot_case(2, a, b, j),
        }
        kani::cover!(n == 2 && j == 1 && a == b);
        kani::cover!(n == 0);
        kani::cover!(n == 1);
    }

    fn seq_clear_case(n: usize, a: u8, b: u8, j: usize) {
        stall(ptr::null(), 0, 0);
        let bucket = fresh_with(n, a, b);
        let t = tail_ptr(&bucket);
        let mut rec = Rec::new(j, [t, ptr::null()]);
        bucket.clear_with(|xs| rec.see(xs));
        assert!(rec.calls == if n == 0 { 0 } else { 1 });
        assert!(rec.total == n && rec.len[0] == n);
        if j < n {
            assert!(rec.at_j[0] == if j == 0 { a } else { b });
        }
        assert!(deferred() == if n == 0 { 0 } else { 1 }); // the detached block is scheduled for destruction once
        // afterwards: empty for everybody
        assert!(tail_ptr(&bucket).is_null());
        assert!(bucket.is_empty());
        let mut rec2 = Rec::new(j, [t, ptr::null()]);
        bucket.data_with(|xs| rec2.see(xs));
        assert!(rec2.calls == 0);
        let mut rec3 = Rec::new(j, [t, ptr::null()]);
        bucket.clear_with(|xs| rec3.see(xs));
        assert!(rec3.calls == 0); // nothing is handed out twice
        assert!(deferred() == if n == 0 { 0 } else { 1 }); // nothing is scheduled for destruction twice
    }

    /// bounded(n <= 2): clear_with hands out exactly v1..vn once (one slice, push order), leaves the bucket
    /// empty (is_empty, data_with hands out nothing, tail null); a second clear_with hands out nothing.
    #[kani::proof]
    #[kani::unwind(3)]
    #[kani::stub(crossbeam_epoch::pin, pin_stub)]
    #[kani::stub(crossbeam_epoch::atomic::decompose_tag, decompose_tag_stub)]
    #[kani::stub(crossbeam_utils::Backoff::snooze, snooze_stub)]
    #[kani::stub(crossbeam_epoch::Guard::defer_unchecked, defer_leak_stub)]
    fn c05b_seq_clear() {
        let n: u8 = kani::any();
        let a: u8 = kani::any();
        let b: u8 = kani::any();
        let j: usize = kani::any();
        kani::assume(n <= 2);
        match n {
            0 => seq_clear_case(0, a, b, j),
            1 => seq_clear_case(1, a, b, j),
            _ => seq_clear_case(2, a, b, j),
        }
        kani::cover!(n == 2 && j == 1);
        kani::cover!(n == 0);
        kani::cover!(n == 1);
    }

    // ==========================================================================================
    // 2. hand-built intermediate states
    // ==========================================================================================
    fn slots_of(b: *const Block<u8>) -> *const u8 {
        unsafe { (*b).slots.as_ptr() as *const u8 }
    }

    /// State A -- "straggler in a handed-over block".  History: 63 pushes completed into block O; pusher P
    /// claimed the last slot (write 63 -> 64) and is pre-empted BEFORE writing slot 63 / publishing bit 63;
    /// pusher Q found O full (write -> 65), CAS-ed the fresh block N into tail, linked N.next = O and (k == 1)
    /// pushed its own value 101 into N.  Returns (bucket, N, O); P's remaining two steps are registered in ENV.pending.
    fn state_a(k: usize, o_write: usize) -> (AtomicBucket<u8>, *const Block<u8>, *const Block<u8>) {
        assert!(k <= 2 && o_write >= BLOCK_SIZE);
        let mut o = mk_block(o_write, mask(63));
        set_slot(&mut o, 63, 0); // claimed, not written yet
        let po = install(o);
        let mut n = mk_block(k, mask(k));
        set_slot(&mut n, 0, 101);
        set_slot(&mut n, 1, 102);
        let pn = install(n);
        link(pn, po);
        let bucket: AtomicBucket<u8> = AtomicBucket::new();
        set_tail(&bucket, pn);
        stall(po, 63, 64);
        assert!(!unsafe { &*po }.is_quiesced() && unsafe { &*po }.len() == 63);
        (bucket, pn, po)
    }

    /// what both readers must have been handed on state A once they return: N's k values, then ALL 64 of O
    fn check_a(rec: &Rec, k: usize, pn: *const Block<u8>, po: *const Block<u8>) {
        assert!(rec.calls == 2 && !rec.overflow);
        assert!(rec.ptr[0] == slots_of(pn) && rec.len[0] == k); // newest block first
        assert!(rec.ptr[1] == slots_of(po) && rec.len[1] == BLOCK_SIZE); // the whole old block, straggler included
        assert!(rec.total == BLOCK_SIZE + k);
        if rec.j < k {
            assert!(rec.at_j[0] == 101 + rec.j as u8);
        }
        if rec.j < BLOCK_SIZE {
            assert!(rec.at_j[1] == rec.j as u8 + 1); // push order inside the block; j == 63 is the straggler's 64
        }
        assert!(straggler_done() && snoozes() >= 1); // it had to wait for the straggler (1 or 2 yields)
    }

    #[kani::proof]
    #[kani::unwind(3)]
    #[kani::stub(crossbeam_epoch::pin, pin_stub)]
    #[kani::stub(crossbeam_epoch::atomic::decompose_tag, decompose_tag_stub)]
    #[kani::stub(crossbeam_utils::Backoff::snooze, snooze_stub)]
    #[kani::stub(crossbeam_epoch::Guard::defer_unchecked, defer_leak_stub)]
    fn c05b_straggler_clear() {
        let k1: bool = kani::any();
        let w: usize = kani::any();
        let j: usize = kani::any();
        kani::assume(w >= BLOCK_SIZE);
        let k = if k1 { 1 } else { 0 };
        let (bucket, pn, po) = if k1 { state_a(1, w) } else { state_a(0, w) };
        let late: bool = kani::any();
        set_delay(if late { 2 } else { 1 });
        let mut rec = Rec::new(j, [pn, po]);
        bucket.clear_with(|xs| rec.see(xs)); // Rec::see asserts "handed out => quiesced, every claimed slot included"
        check_a(&rec, k, pn, po);
        assert!(tail_ptr(&bucket).is_null() && bucket.is_empty());
        assert!(deferred() >= 1);
        kani::cover!(k1 && j == 63 && w > 65 && late);
        kani::cover!(!k1 && j == 0 && w == 64 && !late);
    }

    #[kani::proof]
    #[kani::unwind(3)]
    #[kani::stub(crossbeam_epoch::pin, pin_stub)]
    #[kani::stub(crossbeam_epoch::atomic::decompose_tag, decompose_tag_stub)]
    #[kani::stub(crossbeam_utils::Backoff::snooze, snooze_stub)]
    fn c05b_straggler_snapshot() {
        let k1: bool = kani::any();
        let w: usize = kani::any();
        let j: usize = kani::any();
        kani::assume(w >= BLOCK_SIZE);
        let k = if k1 { 1 } else { 0 };
        let (bucket, pn, po) = if k1 { state_a(1, w) } else { state_a(0, w) };
        let late: bool = kani::any();
        set_delay(if late { 2 } else { 1 });
        assert!(!bucket.is_empty()); // 63 completed pushes are visible even when the tail block is fresh and empty
        let mut rec = Rec::new(j, [pn, po]);
        bucket.data_with(|xs| rec.see(xs));
        check_a(&rec, k, pn, po);
        assert!(tail_ptr(&bucket) == pn && next_ptr(pn) == po && next_ptr(po).is_null()); // a snapshot takes nothing
        assert!(!bucket.is_empty());
        kani::cover!(k1 && j == 63 && w > 65 && late);
        kani::cover!(!k1 && j == 0 && w == 64 && !late);
    }

    /// State B -- a tail block with a claimed-but-unpublished slot in the MIDDLE: three pushers claimed slots
    /// 0, 1, 2; those of 0 and 2 completed (read == 0b101), the pusher of slot 1 is pre-empted before its slot write.
    fn state_b() -> (AtomicBucket<u8>, *const Block<u8>) {
        let mut t = mk_block(3, 0b101);
        set_slot(&mut t, 1, 0);
        let pt = install(t);
        let bucket: AtomicBucket<u8> = AtomicBucket::new();
        set_tail(&bucket, pt);
        stall(pt, 1, 2);
        assert!(!unsafe { &*pt }.is_quiesced() && unsafe { &*pt }.len() == 1);
        (bucket, pt)
    }
    fn check_b(rec: &Rec, pt: *const Block<u8>) {
        assert!(rec.calls == 1);
        assert!(rec.ptr[0] == slots_of(pt) && rec.len[0] == 3 && rec.total == 3);
        if rec.j < 3 {
            assert!(rec.at_j[0] == rec.j as u8 + 1);
        }
        assert!(straggler_done() && snoozes() >= 1);
    }

    #[kani::proof]
    #[kani::unwind(3)]
    #[kani::stub(crossbeam_epoch::pin, pin_stub)]
    #[kani::stub(crossbeam_epoch::atomic::decompose_tag, decompose_tag_stub)]
    #[kani::stub(crossbeam_utils::Backoff::snooze, snooze_stub)]
    #[kani::stub(crossbeam_epoch::Guard::defer_unchecked, defer_leak_stub)]
    fn c05b_inflight_tail() {
        let clear: bool = kani::any();
        let j: usize = kani::any();
        let late: bool = kani::any();
        if clear {
            let (bucket, pt) = state_b();
            set_delay(if late { 2 } else { 1 });
            let mut rec = Rec::new(j, [pt, ptr::null()]);
            bucket.clear_with(|xs| rec.see(xs));
            check_b(&rec, pt);
            assert!(tail_ptr(&bucket).is_null() && bucket.is_empty());
        } else {
            let (bucket, pt) = state_b();
            set_delay(if late { 2 } else { 1 });
            let mut rec = Rec::new(j, [pt, ptr::null()]);
            bucket.data_with(|xs| rec.see(xs));
            check_b(&rec, pt);
            assert!(tail_ptr(&bucket) == pt && !bucket.is_empty());
        }
        kani::cover!(clear && j == 1 && late);
        kani::cover!(!clear && j == 2 && !late);
    }

    // ==========================================================================================
    // 3. block-full hand-over by the real push
    // ==========================================================================================
    /// State H -- the tail block O is full (64 slots claimed); `stalled`: the pusher of slot 63 has not published yet.
    fn handover_case(stalled: bool, v: u8, j: usize) {
        let mut o = mk_block(BLOCK_SIZE, if stalled { mask(63) } else { usize::MAX });
        if stalled {
            set_slot(&mut o, 63, 0);
        }
        let po = install(o);
        let bucket: AtomicBucket<u8> = AtomicBucket::new();
        set_tail(&bucket, po);
        stall(if stalled { po } else { ptr::null() }, 63, 64);

        bucket.push(v); // ONE real push: Block::push -> Err, CAS of a fresh block, link, push into the new block

        let pn = tail_ptr(&bucket);
        assert!(!pn.is_null() && pn != po); // a new tail block was installed ...
        assert!(next_ptr(pn) == po); // ... whose next is the old tail: the old block is not lost
        assert!(next_ptr(po).is_null());
        let n = unsafe { &*pn };
        let o = unsafe { &*po };
        assert!(n.write.load(Ordering::SeqCst) == 1 && n.read.load(Ordering::SeqCst) == 1);
        assert!(n.data().len() == 1 && n.data()[0] == v); // the pushed value ended up in the new tail block
        // the old block: one more (rejected) claim, nothing else touched
        assert!(o.write.load(Ordering::SeqCst) == BLOCK_SIZE + 1);
        assert!(o.read.load(Ordering::SeqCst) == if stalled { mask(63) } else { usize::MAX });
        if j < 63 {
            assert!(unsafe { *slots_of(po).add(j) } == j as u8 + 1);
        }
        assert!(snoozes() == 0); // push never waits for the straggler
        assert!(!bucket.is_empty());

        // a snapshot afterwards sees the new value AND all 64 old ones (after the straggler finished)
        let mut rec = Rec::new(j, [pn, po]);
        bucket.data_with(|xs| rec.see(xs));
        assert!(rec.calls == 2 && rec.total == BLOCK_SIZE + 1);
        assert!(rec.ptr[0] == slots_of(pn) && rec.len[0] == 1 && rec.ptr[1] == slots_of(po) && rec.len[1] == BLOCK_SIZE);
        if j < BLOCK_SIZE {
            assert!(rec.at_j[1] == j as u8 + 1);
        }
        if j == 0 {
            assert!(rec.at_j[0] == v);
        }
    }

    #[kani::proof]
    #[kani::unwind(3)]
    #[kani::stub(crossbeam_epoch::pin, pin_stub)]
    #[kani::stub(crossbeam_epoch::atomic::decompose_tag, decompose_tag_stub)]
    #[kani::stub(crossbeam_utils::Backoff::snooze, snooze_stub)]
    fn c05b_push_handover() {
        let stalled: bool = kani::any();
        let v: u8 = kani::any();
        let j: usize = kani::any();
        if stalled {
            handover_case(true, v, j);
        } else {
            handover_case(false, v, j);
        }
        kani::cover!(stalled && j == 63);
        kani::cover!(!stalled && j == 0 && v == 0);
    }

    // ==========================================================================================
    // 4. is_empty on intermediate states
    // ==========================================================================================
    fn chain2(n_write: usize, n_read: usize, o_write: usize, o_read: usize) -> AtomicBucket<u8> {
        let po = install(mk_block(o_write, o_read));
        let pn = install(mk_block(n_write, n_read));
        link(pn, po);
        let bucket: AtomicBucket<u8> = AtomicBucket::new();
        set_tail(&bucket, pn);
        bucket
    }

    /// is_empty must not say "empty" while completed, uncleared pushes exist:
    ///   0: the tail block is fresh and empty (hand-over just happened), the old block is full
    ///   1: same, the old block still has its last slot in flight (63 completed pushes)
    ///   2: the tail block has one claimed, unpublished slot, the old block is full
    ///   3: a single block with k published values, k in 1..=64 (write may exceed 64)
    #[kani::proof]
    #[kani::unwind(3)]
    #[kani::stub(crossbeam_epoch::pin, pin_stub)]
    #[kani::stub(crossbeam_epoch::atomic::decompose_tag, decompose_tag_stub)]
    fn c05b_is_empty_states() {
        let case: u8 = kani::any();
        let k: usize = kani::any();
        let extra: usize = kani::any();
        kani::assume(case < 4 && k >= 1 && k <= BLOCK_SIZE && extra <= 2);
        let empty = match case {
            0 => chain2(0, 0, BLOCK_SIZE + 1, usize::MAX).is_empty(),
            1 => chain2(0, 0, BLOCK_SIZE + 1, mask(63)).is_empty(),
            2 => chain2(1, 0, BLOCK_SIZE + 1, usize::MAX).is_empty(),
            _ => {
                let pt = install(mk_block(if k == BLOCK_SIZE { k + extra } else { k }, mask(k)));
                let bucket: AtomicBucket<u8> = AtomicBucket::new();
                set_tail(&bucket, pt);
                bucket.is_empty()
            }
        };
        assert!(!empty);
        kani::cover!(case == 0);
        kani::cover!(case == 1);
        kani::cover!(case == 2);
        kani::cover!(case == 3 && k == BLOCK_SIZE && extra == 2);
        kani::cover!(case == 3 && k == 1);
    }

    // ==========================================================================================
    // 5. reclamation (real Guard::defer_unchecked on the unprotected guard: destructors run at once)
    // ==========================================================================================
    pub struct DropLog {
        pub magic: u64,
        pub seen: u64,
        pub dup: bool,
        pub drops: u32,
    }
    pub static mut DROPS: DropLog = DropLog { magic: 0xD20B_D20B_D20B_D20B, seen: 0, dup: false, drops: 0 };
    /// a value with a destructor that logs its own drop
    pub struct DTok(pub u8);
    impl Drop for DTok {
        fn drop(&mut self) {
            unsafe {
                let b = 1u64 << (self.0 & 63);
                if DROPS.seen & b != 0 {
                    DROPS.dup = true;
                }
                DROPS.seen |= b;
                DROPS.drops += 1;
            }
        }
    }
    fn drops() -> u32 {
        unsafe { DROPS.drops }
    }

    fn reclaim_case(n: usize) {
        unsafe {
            DROPS.seen = 0;
            DROPS.dup = false;
            DROPS.drops = 0;
        }
        let bucket: AtomicBucket<DTok> = AtomicBucket::new();
        if n >= 1 {
            bucket.push(DTok(3));
        }
        if n >= 2 {
            bucket.push(DTok(5));
        }
        assert!(drops() == 0); // push moves, never drops
        let mut total = 0usize;
        let mut ids = 0u64;
        bucket.clear_with(|xs| {
            assert!(drops() == 0); // nothing is destroyed before / while it is handed out
            total += xs.len();
            if xs.len() >= 1 {
                ids |= 1u64 << xs[0].0;
            }
            if xs.len() >= 2 {
                ids |= 1u64 << xs[1].0;
            }
        });
        let want: u64 = if n == 0 { 0 } else if n == 1 { 1 << 3 } else { (1 << 3) | (1 << 5) };
        assert!(total == n && ids == want);
        // the detached block was destroyed: every pushed value dropped exactly once
        assert!(drops() == n as u32 && unsafe { DROPS.seen } == want && !unsafe { DROPS.dup });
        let mut again = 0usize;
        bucket.clear_with(|xs| again += 1);
        assert!(again == 0 && drops() == n as u32); // second clear: nothing handed out, nothing destroyed twice
        assert!(bucket.is_empty());
    }

    /// bounded(n <= 2), value type WITH destructor: push never drops; clear_with hands every value out once and
    /// the values are destroyed exactly once each, after the hand-out (epoch schedule: immediately).
    #[kani::proof]
    #[kani::unwind(4)]
    #[kani::stub(crossbeam_epoch::pin, pin_stub)]
    #[kani::stub(crossbeam_epoch::atomic::decompose_tag, decompose_tag_stub)]
    #[kani::stub(crossbeam_utils::Backoff::snooze, snooze_stub)]
    fn c05b_seq_reclaim() {
        let n: u8 = kani::any();
        kani::assume(n <= 2);
        match n {
            0 => reclaim_case(0),
            1 => reclaim_case(1),
            _ => reclaim_case(2),
        }
        kani::cover!(n == 0);
        kani::cover!(n == 2);
    }

    /// bounded(n <= 2): `data()` (the Vec-collecting snapshot) == the pushed values in push order.
    #[kani::proof]
    #[kani::unwind(3)]
    #[kani::stub(crossbeam_epoch::pin, pin_stub)]
    #[kani::stub(crossbeam_epoch::atomic::decompose_tag, decompose_tag_stub)]
    #[kani::stub(crossbeam_utils::Backoff::snooze, snooze_stub)]
    fn c05b_seq_data_vec() {
        let two: bool = kani::any();
        let a: u8 = kani::any();
        let b: u8 = kani::any();
        if two {
            let bucket = fresh_with(2, a, b);
            let v = bucket.data();
            assert!(v.len() == 2 && v[0] == a && v[1] == b);
        } else {
            let bucket = fresh_with(1, a, b);
            let v = bucket.data();
            assert!(v.len() == 1 && v[0] == a);
        }
        let empty: AtomicBucket<u8> = AtomicBucket::new();
        assert!(empty.data().is_empty());
        kani::cover!(two && a != b);
        kani::cover!(!two);
    }

    // ==========================================================================================
    // 6. publication contract of the hand-over: "a block becomes reachable only fully linked"
    // ==========================================================================================
    // Kani cannot run a reader "right after" push's CAS, so the clause is stated AT the CAS: the AtomicUsize
    // compare-exchange underneath crossbeam's `Atomic::compare_exchange` is replaced by a stub that (i) when a non-null block replaces a non-null tail
    // (the hand-over), asserts that the new block's `next` ALREADY equals the block it replaces -- from the instant
    // the new block is visible through `tail`, every reader walking `next` reaches the old block and its (up to 64)
    // completed values -- and (ii) then performs the compare-exchange on the cell (sequentially: compare, store).
    // If the link is stored only after the CAS there is a window in which is_empty / data_with / clear_with see a
    // fresh empty tail and miss all completed values of the old block; a clear_with in that window detaches the new
    // block alone and the old block's values are handed to no clear, ever (witness_link_window.rs).
    pub struct CasLog {
        pub magic: u64,
        pub handovers: u32,
        pub installs: u32,
        pub detaches: u32,
        pub tail_cell: *const AtomicUsize,
    }
    pub static mut CAS: CasLog =
        CasLog { magic: 0xCA5C_A5CA_5CA5_CA5C, handovers: 0, installs: 0, detaches: 0, tail_cell: ptr::null() };

    /// Stub for the AtomicUsize compare-exchange underneath `crossbeam_epoch::Atomic::compare_exchange`
    /// (generic path `core::sync::atomic::Atomic::<usize>::compare_exchange`; crossbeam's own generic method
    /// cannot be stubbed: Kani rejects the signature of a stub for a method of a generic impl).
    /// Memory is accessed through `as_ptr()`: calling the method itself would recurse into the stub.
    pub fn cas_stub(a: &AtomicUsize, cur: usize, new: usize, _s: Ordering, _f: Ordering) -> Result<usize, usize> {
        unsafe {
            assert!(a as *const AtomicUsize == CAS.tail_cell); // the only CAS target of bucket.rs is `tail`
            if cur != 0 && new != 0 {
                // the hand-over CAS: a fresh block replaces a non-null tail
                CAS.handovers += 1;
                let nb = &*(new as *const Block<u8>);
                let linked = nb.next.load(Ordering::SeqCst, guard()).as_raw() as usize;
                assert!(linked == cur); // PUBLICATION: the block is linked to the tail it replaces BEFORE it becomes reachable
                assert!(*nb.write.as_ptr() == 0 && *nb.read.as_ptr() == 0); // and is otherwise fresh
            } else if cur == 0 {
                CAS.installs += 1;
            } else {
                CAS.detaches += 1;
            }
            let seen = *a.as_ptr();
            if seen == cur {
                *a.as_ptr() = new;
                Ok(seen)
            } else {
                Err(seen)
            }
        }
    }

    fn publication_case(stalled: bool, v: u8) {
        let mut o = mk_block(BLOCK_SIZE, if stalled { mask(63) } else { usize::MAX });
        if stalled {
            set_slot(&mut o, 63, 0);
        }
        let po = install(o);
        let bucket: AtomicBucket<u8> = AtomicBucket::new();
        set_tail(&bucket, po);
        stall(ptr::null(), 0, 0);
        unsafe {
            CAS.handovers = 0;
            CAS.installs = 0;
            CAS.detaches = 0;
            // Atomic<Block<u8>> is { data: AtomicUsize, PhantomData }
            assert!(mem::size_of::<Atomic<Block<u8>>>() == mem::size_of::<AtomicUsize>());
            CAS.tail_cell = &bucket.tail as *const Atomic<Block<u8>> as *const AtomicUsize;
        }
        bucket.push(v); // ONE real push on a full tail block; the stub checks the publication clause at its CAS
        assert!(unsafe { CAS.handovers } == 1 && unsafe { CAS.installs } == 0 && unsafe { CAS.detaches } == 0);
        let pn = tail_ptr(&bucket);
        assert!(!pn.is_null() && pn != po && next_ptr(pn) == po);
        assert!(unsafe { &*pn }.data().len() == 1 && unsafe { &*pn }.data()[0] == v);
    }

    /// State H (tail block full; optionally slot 63 still in flight), ONE real push: at the moment the fresh block
    /// is compare-exchanged into `tail` its `next` already points to the old tail block.
    #[kani::proof]
    #[kani::unwind(3)]
    #[kani::stub(crossbeam_epoch::pin, pin_stub)]
    #[kani::stub(crossbeam_epoch::atomic::decompose_tag, decompose_tag_stub)]
    #[kani::stub(crossbeam_utils::Backoff::snooze, snooze_stub)]
    #[kani::stub(core::sync::atomic::Atomic::<usize>::compare_exchange, cas_stub)]
    fn c05b_handover_publication() {
        let stalled: bool = kani::any();
        let v: u8 = kani::any();
        if stalled {
            publication_case(true, v);
        } else {
            publication_case(false, v);
        }
        kani::cover!(stalled);
        kani::cover!(!stalled && v == 7);
    }

    /// RECLAMATION: clear_with may only schedule detached blocks for destruction through the epoch guard
    /// (`Guard::defer_unchecked`); it must never free one itself, because a snapshot reader or a straggling pusher that pinned
    /// before the detach can still hold a reference.  Designed state: a chain of 33 empty, quiesced blocks (one more than
    /// DEFERRED_BLOCK_BATCH_SIZE, so both the full-batch and the remainder path run).  The epoch never advances
    /// (defer_unchecked leaks its closure), i.e. "another thread stays pinned": after clear_with returns, a reader that
    /// obtained the first, the 32nd and the last block before the clear dereferences them -- CBMC's pointer checks fail on a
    /// deallocated object.  Both hand-offs to the guard are counted.
    /// With the epoch held back every deferred destructor is leaked, so on the real code `Shared::into_owned` (the only way a
    /// detached block is turned back into an owned box and freed) is never EXECUTED during clear_with.  Any execution is a
    /// destruction behind the guard's back: reported here, and the path is cut (the 32 block destructors are not explored).
    pub unsafe fn into_owned_outside_guard_stub<'g, T: ?Sized + crossbeam_epoch::Pointable + 'g>(s: Shared<'g, T>) -> Owned<T> where 'g: 'g {
        assert!(false, "a detached block is destroyed outside the epoch guard");
        kani::assume(false);
        mem::transmute_copy::<Shared<'g, T>, Owned<T>>(&s)
    }

    #[kani::proof]
    #[kani::unwind(35)]
    #[kani::stub(crossbeam_epoch::pin, pin_stub)]
    #[kani::stub(crossbeam_epoch::atomic::decompose_tag, decompose_tag_stub)]
    #[kani::stub(crossbeam_utils::Backoff::snooze, snooze_stub)]
    #[kani::stub(crossbeam_epoch::Guard::defer_unchecked, defer_leak_stub)]
    #[kani::stub(crossbeam_epoch::Shared::into_owned, into_owned_outside_guard_stub)]
    fn c05b_reclaim_only_deferred() {
        stall(ptr::null(), 0, 0);
        let bucket: AtomicBucket<u8> = AtomicBucket::new();
        let mut ptrs: [*const Block<u8>; 33] = [ptr::null(); 33];
        let mut i = 0;
        while i < 33 {
            ptrs[i] = install(Block::new());
            if i > 0 { link(ptrs[i - 1], ptrs[i]); }
            i += 1;
        }
        set_tail(&bucket, ptrs[0]);
        let mut calls = 0usize;
        bucket.clear_with(|xs| { assert!(xs.len() == 0); calls += 1; });
        assert!(calls == 33);
        assert!(tail_ptr(&bucket).is_null());
        // every detached block went to the guard (pinned tree: one full batch of 32 and the remainder)
        assert!(deferred() >= 1);
        // the pinned reader's references are still valid memory (nothing was freed behind the guard's back)
        for k in [0usize, 31, 32] {
            let b = unsafe { &*ptrs[k] };
            assert!(b.write.load(Ordering::SeqCst) == 0 && b.read.load(Ordering::SeqCst) == 0);
        }
    }
}
