def H(name, clause, kind="complete", tier="quick", timeout=600, replay=True, covers=0, **kw):
    d = dict(name=name, obligation=f"C05/kani/{name}", clause=clause, kind=kind, tier=tier, timeout=timeout, replay=replay, covers=covers)
    d.update(kw)
    return d

def B(name, clause, bound, covers=0, tier="quick", timeout=900, **kw):
    # bucket-level harness (module __verif_c05b::bk): needs kani::stub => no concrete replay
    return H(name, clause, kind="bounded", tier=tier, timeout=timeout, replay=False, covers=covers, bound=bound, module="__verif_c05b", sub="bk", **kw)

BUCKET = "metrics-util/src/storage/bucket.rs"

PLAN = {
    "property": "C05",
    "level": "proof",
    "manifest": {
        "technique": "Kani/CBMC on the real private Block<T> (harness module appended to bucket.rs): full-domain contracts for len / is_quiesced, inductive push step and Drop over all 65 quiescent states, rely/guarantee stubs on fetch_add / fetch_or for push. "
                     "Bucket level (second appended module, listed as BOUNDED, never counted as proved): the real AtomicBucket::push / is_empty / data / data_with / clear_with run sequentially (n <= 2 pushes) and, one method at a time, on hand-built intermediate states a pre-empted concurrent pusher leaves behind (straggler in a handed-over block, in-flight slot in the tail block, full tail block); crossbeam's pin / tagged-pointer split / Backoff::snooze replaced by environment stubs",
        "text": "Claimed for the block-level clauses only. On the real Block<T>: len is the longest published prefix for all 2^64 read bitmaps (nothing below len is unpublished => with the block invariant nothing is observed before it is fully written); is_quiesced is true exactly when every claimed slot is published, for all (write, read) words satisfying the invariant; push claims its index once, hands the value back untouched when the block is full, writes its slot strictly before publishing exactly its own bit (no shift overflow), touches no other slot and never drops the value, under arbitrary interference of other pushers modelled by stubs (rely/guarantee); from any quiescent state k in 0..=64 a push yields data() == old data ++ [value] (push order, by induction from Block::new()); Drop of a block drops exactly the written slots once each. "
                "Bucket level, BOUNDED evidence only (each harness = ONE designed state, ONE real method call; no interleaving is explored): sequentially (n <= 2) data_with / data / clear_with hand out exactly the pushed values in push order, clear hands them out once, destroys them once, a second clear nothing; on a handed-over block whose last slot is claimed but unpublished, and on a tail block with an in-flight middle slot, data_with and clear_with never hand a block out while a claimed slot is unpublished and, once the straggler finishes, hand out every claimed slot; push on a full tail installs a new block linked to the old one without losing it; is_empty is false on the hand-over states with completed pushes. "
                "NOT DECIDED: every genuine interleaving clause -- a pusher pre-empted between loading tail and claiming a slot while clear_with detaches the chain, readers racing clearers, epoch reclamation with other pinned threads, memory orderings. The hand-over publication order is an obligation of its own (c05b_handover_publication: the fresh block must be linked to the old tail BEFORE it is compare-exchanged into tail; witness_link_window.rs shows the loss of 64 completed values with the real clear_with when it is not).",
        "note": "Bucket-level interleaving clauses are NOT proved: Kani has no threads; the bucket harnesses each fix one intermediate state built by hand from the pusher's atomic steps and run one real method on it (listed as bounded). crossbeam_epoch::pin is stubbed (Kani ICE) by the unprotected guard, crossbeam's decompose_tag by the identity (asserting zero tag bits), Backoff::snooze by 'the stalled pusher finishes'. Assumes SC atomics, atomic RMWs (orderings unchecked), T instantiated with u8 / a 1-byte drop-counting token; sequences bounded to 3 block pushes / 2 bucket pushes are listed as bounded, not proved.",
    },
    "min_obligations": {"quick": 4, "thorough": 5},
    "assumptions": [
        "SCOPE: only the Block<T> obligations are claimed as proved. The bucket-level harnesses (c05b_*) are bounded evidence: one designed state + one real AtomicBucket method each; interleavings (AtomicBucket::push racing clear_with between tail.load and the slot claim, readers racing clearers, epoch reclamation with other pinned threads) are NOT explored and not claimed",
        "c05b_* environment stubs (crossbeam, not code under verification): crossbeam_epoch::pin() -> a Guard with null `local` (== epoch::unprotected(): deferred destructors run immediately, i.e. the schedule where no other thread is pinned); crossbeam_epoch::atomic::decompose_tag(data) -> (data, 0) with assert!(data & (ALIGN-1) == 0) (bucket.rs never tags pointers); crossbeam_utils::Backoff::snooze -> the pusher registered as stalled performs its slot write and read.fetch_or (a waiting reader is eventually served; the wait loops therefore terminate within the unwinding bound); in c05b_seq_clear / c05b_straggler_clear / c05b_inflight_tail Guard::defer_unchecked leaks its closure (the schedule where the epoch never advances); in c05b_handover_publication core::sync::atomic::Atomic::<usize>::compare_exchange is a stub that asserts the publication clause and then does compare + store on the cell (single thread: equivalent)",
        "c05b_* intermediate states are written down by hand from the atomic steps of Block::push / AtomicBucket::push (claim = write.fetch_add, publish = read.fetch_or, hand-over = CAS tail then next.store); that these are exactly the states concurrent executions produce is argued, not checked",
        "atomics are sequentially consistent and fetch_add / fetch_or are single atomic steps (Kani has no weak-memory model; Acquire/Release orderings are not checked); hence every index is handed out by fetch_add exactly once",
        "rely of c05_push_rg: other pushers of the same block claim their indices through the same fetch_add, publish only bits of indices they claimed and write only slots they claimed; the stubs havoc `write` before the claim and `read` (minus our bit) before the publication",
        "block invariant B (read is a subset of the claimed prefix, a published slot is initialised) is established by Block::new (all zero) and preserved by push (c05_push_rg G3/G4); is_quiesced and Drop are verified under B / from quiescent states",
        "the write counter does not wrap: fewer than 2^64 rejected pushes hit one block (each rejected push installs or observes a new tail block)",
        "generic T is instantiated with a 1-byte drop-counting token (and u8); the code under contract is parametric in T (no T-specific branches)",
        "panic = failure; unwinding not modelled",
    ],
    "witnesses": [
        {"match": r"c05b_handover_publication", "src": "witness_link_window.rs", "crate": "metrics-util", "file": "metrics-util/src/storage/bucket.rs"},
    ],
    "kani": [{
        "crate": "metrics-util",
        "parallel": 6,
        "modules": [{"file": BUCKET, "mod": "__verif_c05", "src": "block.kani.rs"},
                    {"file": BUCKET, "mod": "__verif_c05b", "src": "bucket.kani.rs"}],
        "functions": [
            {"item": "Block::len", "file": BUCKET},
            {"item": "Block::is_quiesced", "file": BUCKET},
            {"item": "Block::push", "file": BUCKET},
            {"item": "Block::data", "file": BUCKET},
            {"item": "Block::new", "file": BUCKET},
            {"item": "impl Drop for Block<T>", "file": BUCKET},
            {"item": "AtomicBucket::push", "file": BUCKET},
            {"item": "AtomicBucket::is_empty", "file": BUCKET},
            {"item": "AtomicBucket::data", "file": BUCKET},
            {"item": "AtomicBucket::data_with", "file": BUCKET},
            {"item": "AtomicBucket::clear_with", "file": BUCKET},
        ],
        "harnesses": [
            H("c05_len", "len <= BLOCK_SIZE, every bit below len set, bit len clear, == trailing_ones(read); all 2^64 bitmaps", covers=3),
            H("c05_is_quiesced", "under invariant B: is_quiesced <=> read == mask(min(write, 64)) and then len == min(write, 64); all (write, read)", covers=4),
            H("c05_push_rg", "push under interference: index claimed once; index >= 64 => Err(same value), nothing written/published; slot written before exactly bit 1<<index is published; no other slot touched; value never dropped",
              kind="rely-guarantee", replay=False, covers=4, sub="rg"),
            H("c05_push_step", "from quiescent(k), all k in 0..=64: k<64 => Ok, quiescent(k+1), data() == old ++ [value]; k==64 => Err(same value), block unchanged; no drop", covers=3),
            H("c05_drop", "Drop from quiescent(k), all k in 0..=64: slot j dropped exactly once iff j < k", covers=3, tier="thorough", timeout=1800),
            H("c05_drop_small", "Drop from quiescent(k), k in {0..6, 63, 64}: slot j dropped exactly once iff j < k (quick stand-in for c05_drop)",
              kind="bounded", bound="k in {0..=6, 63, 64}", covers=3),
            H("c05_data_push_order", "n <= 3 pushes from Block::new(): data() == the n values in push order, len/is_quiesced agree after each push",
              kind="bounded", bound="n <= 3 pushes", covers=2),
            H("c05_push_then_drop", "n <= 3 pushed tokens are dropped exactly once each by Drop, none by push",
              kind="bounded", bound="n <= 3 pushes", covers=2),
            # ---- bucket level (bucket.kani.rs): ONE designed state + ONE real method per harness; bounded, never counted as proved
            B("c05b_seq_snapshot", "fresh bucket, n real pushes: is_empty <=> n == 0; data_with hands out exactly [v1..vn] (one slice, push order); a snapshot takes nothing (second data_with identical)",
              bound="n <= 2 pushes; sequential", covers=3),
            B("c05b_seq_clear", "fresh bucket, n real pushes: clear_with hands out exactly [v1..vn] once, tail null / is_empty / data_with empty afterwards, second clear_with hands out nothing, block scheduled for destruction once",
              bound="n <= 2 pushes; sequential; defer_unchecked leaked", covers=3),
            B("c05b_seq_reclaim", "value type with destructor: push never drops; clear_with hands each value out once; nothing destroyed before/while handed out; each value destroyed exactly once afterwards; second clear destroys nothing",
              bound="n <= 2 pushes; sequential; epoch schedule = destructors run immediately", covers=2),
            B("c05b_reclaim_only_deferred", "RECLAMATION: clear_with over a chain of 33 quiesced blocks hands every detached block to the epoch guard (one full batch of 32 + the remainder) and frees none itself: with the epoch held back (defer_unchecked leaks) a reader pinned before the clear can still dereference the first, the 32nd and the last block",
              bound="one designed chain (33 empty blocks); sequential; epoch never advances; crossbeam's Shared::into_owned stubbed to 'assert!(false)' (with the epoch held back the real code never executes it)", covers=0, timeout=1200),
            B("c05b_straggler_clear", "state A (old block full, slot 63 claimed but unpublished, behind a fresh tail with k values): clear_with never hands a block out while a claimed slot is unpublished; after the straggler finishes it hands out the k tail values then ALL 64 of the old block in push order; bucket empty afterwards",
              bound="one designed state: k in {0,1}, old write in 64..=usize::MAX; straggler completes at the 1st or 2nd yield of the reader", covers=2),
            B("c05b_straggler_snapshot", "state A: is_empty false; data_with never hands a block out while a claimed slot is unpublished; hands out the k tail values then ALL 64 of the old block in push order; takes nothing",
              bound="one designed state: k in {0,1}, old write in 64..=usize::MAX; straggler completes at the 1st or 2nd yield of the reader", covers=2),
            B("c05b_inflight_tail", "state B (tail block write=3, read=0b101: middle slot in flight): clear_with / data_with wait and hand out all 3 values in slot order, never the published prefix [1] alone",
              bound="one designed state; straggler completes at the 1st or 2nd yield of the reader; defer_unchecked leaked", covers=2),
            B("c05b_push_handover", "state H (tail block full, optionally slot 63 unpublished): ONE real push installs a new tail whose next is the old tail, the value is the only element of the new tail, the old block keeps its 64 slots (write 65, read untouched), push does not wait; a following data_with hands out [v] then all 64",
              bound="one designed state: stalled in {false,true}, any v", covers=2),
            B("c05b_handover_publication", "PUBLICATION: at the moment the real push compare-exchanges a fresh block into a non-null tail, that block's next already equals the tail it replaces (a block becomes reachable only fully linked: no window in which is_empty / data_with / clear_with miss the old block's completed values); checked inside a stub of the AtomicUsize compare_exchange under crossbeam's Atomic",
              bound="one designed state (full tail block, slot 63 published or in flight), one real push; CAS stub performs compare+store sequentially", covers=2),
            B("c05b_is_empty_states", "is_empty is false on: fresh empty tail + full old block; fresh tail + old block with 63 published; tail with a claimed unpublished slot + full old block; single block with k published values",
              bound="four designed states; k in 1..=64, write up to 66", covers=5),
            B("c05b_seq_data_vec", "data() (Vec snapshot) == pushed values in push order; empty bucket -> empty Vec",
              bound="n <= 2 pushes; sequential", covers=2, tier="thorough", timeout=1200),
        ],
    }],
}
