def H(name, clause, kind="complete", tier="quick", timeout=600, replay=True, covers=0, **kw):
    d = dict(name=name, obligation=f"C05/kani/{name}", clause=clause, kind=kind, tier=tier, timeout=timeout, replay=replay, covers=covers)
    d.update(kw)
    return d

BUCKET = "metrics-util/src/storage/bucket.rs"

PLAN = {
    "property": "C05",
    "level": "proof",
    "manifest": {
        "technique": "Kani/CBMC on the real private Block<T> (harness module appended to bucket.rs): full-domain contracts for len / is_quiesced, inductive push step and Drop over all 65 quiescent states, rely/guarantee stubs on fetch_add / fetch_or for push; BLOCK-LEVEL CLAUSES ONLY",
        "text": "Claimed for the block-level clauses only. On the real Block<T>: len is the longest published prefix for all 2^64 read bitmaps (nothing below len is unpublished => with the block invariant nothing is observed before it is fully written); is_quiesced is true exactly when every claimed slot is published, for all (write, read) words satisfying the invariant; push claims its index once, hands the value back untouched when the block is full, writes its slot strictly before publishing exactly its own bit (no shift overflow), touches no other slot and never drops the value, under arbitrary interference of other pushers modelled by stubs (rely/guarantee); from any quiescent state k in 0..=64 a push yields data() == old data ++ [value] (push order, by induction from Block::new()); Drop of a block drops exactly the written slots once each. "
                "NOT DECIDED by this technique: every interleaving clause at bucket level -- push racing clear_with, the block-full hand-over (CAS of a fresh block into tail, then linking next), snapshot readers racing clearers, and epoch-based reclamation. No AtomicBucket method is reachable (Kani cannot compile crossbeam_epoch::pin()); the 'no value lost / duplicated whatever the interleaving of pushers, readers and clearers' part of the statement is outside the claim.",
        "note": "Bucket-level interleaving clauses (push vs clear_with, block hand-over, epoch reclamation, is_empty/data_with vs concurrent writers) are NOT decided: AtomicBucket is unreachable for Kani (ICE in crossbeam_epoch::pin) and Verus would need a rewrite onto permission-typed atomics (a model, not the code). Assumes SC atomics, atomic RMWs (orderings unchecked), T instantiated with a 1-byte drop-counting token; sequences bounded to 3 pushes are listed as bounded, not proved.",
    },
    "min_obligations": {"quick": 4, "thorough": 5},
    "assumptions": [
        "SCOPE: only Block<T> is verified. Every interleaving clause of the statement at bucket level (AtomicBucket::push racing clear_with, block-full hand-over, data_with/is_empty racing writers, epoch reclamation of detached blocks) is NOT decided by this technique and is not claimed",
        "atomics are sequentially consistent and fetch_add / fetch_or are single atomic steps (Kani has no weak-memory model; Acquire/Release orderings are not checked); hence every index is handed out by fetch_add exactly once",
        "rely of c05_push_rg: other pushers of the same block claim their indices through the same fetch_add, publish only bits of indices they claimed and write only slots they claimed; the stubs havoc `write` before the claim and `read` (minus our bit) before the publication",
        "block invariant B (read is a subset of the claimed prefix, a published slot is initialised) is established by Block::new (all zero) and preserved by push (c05_push_rg G3/G4); is_quiesced and Drop are verified under B / from quiescent states",
        "the write counter does not wrap: fewer than 2^64 rejected pushes hit one block (each rejected push installs or observes a new tail block)",
        "generic T is instantiated with a 1-byte drop-counting token (and u8); the code under contract is parametric in T (no T-specific branches)",
        "panic = failure; unwinding not modelled",
    ],
    "kani": [{
        "crate": "metrics-util",
        "parallel": 4,
        "modules": [{"file": BUCKET, "mod": "__verif_c05", "src": "block.kani.rs"}],
        "functions": [
            {"item": "Block::len", "file": BUCKET},
            {"item": "Block::is_quiesced", "file": BUCKET},
            {"item": "Block::push", "file": BUCKET},
            {"item": "Block::data", "file": BUCKET},
            {"item": "Block::new", "file": BUCKET},
            {"item": "impl Drop for Block<T>", "file": BUCKET},
        ],
        "harnesses": [
            H("c05_len", "len <= BLOCK_SIZE, every bit below len set, bit len clear, == trailing_ones(read); all 2^64 bitmaps", covers=3),
            H("c05_is_quiesced", "under invariant B: is_quiesced <=> read == mask(min(write, 64)) and then len == min(write, 64); all (write, read)", covers=4),
            H("c05_push_rg", "push under interference: index claimed once; index >= 64 => Err(same value), nothing written/published; slot written before exactly bit 1<<index is published; no other slot touched; value never dropped",
              kind="rely-guarantee", replay=False, covers=4, sub="rg"),
            H("c05_push_step", "from quiescent(k), all k in 0..=64: k<64 => Ok, quiescent(k+1), data() == old ++ [value]; k==64 => Err(same value), block unchanged; no drop", covers=3),
            H("c05_drop", "Drop from quiescent(k), all k in 0..=64: slot j dropped exactly once iff j < k", covers=3, tier="thorough", timeout=1800),
            H("c05_drop_small", "Drop from quiescent(k), k in {0..6, 63, 64}: slot j dropped exactly once iff j < k (quick stand-in for c05_drop)",
              kind="bounded", bound="k in {0..=6, 63, 64}", covers=3),
            H("c05_data_push_order", "n <= 3 pushes from Block::new(): data() == the n values in push order, len/is_quiesced agree after each push",
              kind="bounded", bound="n <= 3 pushes", covers=2),
            H("c05_push_then_drop", "n <= 3 pushed tokens are dropped exactly once each by Drop, none by push",
              kind="bounded", bound="n <= 3 pushes", covers=2),
        ],
    }],
}
