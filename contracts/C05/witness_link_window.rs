// Hand-derived from the failed obligation C05/kani/c05b_handover_publication ("a block becomes reachable only fully
// linked"): in the pinned AtomicBucket::push the fresh block is compare-exchanged into `tail` BEFORE `next` is stored.
// A clear_with that runs in that window detaches the fresh block alone; the pusher then links the old, full block
// under the detached block: its 64 COMPLETED values are handed to no clear and visible to no later snapshot.
//
// The pusher of the 65th value is executed BY HAND with exactly the statements of the pinned AtomicBucket::push up to
// and including its compare_exchange, then the real clear_with runs (the "other thread"), then the pusher's remaining
// statements.  The test is therefore only meaningful for trees whose push still publishes before linking; on a tree
// where push links first (no `new_tail.next.store(` left in AtomicBucket::push) the hand-executed statements are not
// that tree's push and the test skips itself.
use super::*;

fn tree_still_links_after_publishing() -> bool {
    let src = include_str!("bucket.rs");
    let own = src.find("mod __verif_witness").unwrap_or(src.len());
    src[..own].contains("new_tail.next.store(")
}

#[test]
fn completed_values_of_a_full_block_survive_a_clear_during_the_hand_over() {
    if !tree_still_links_after_publishing() {
        eprintln!("witness_link_window: push no longer links after publishing; nothing to demonstrate");
        return;
    }
    let bucket: AtomicBucket<u64> = AtomicBucket::new();
    for i in 0..BLOCK_SIZE as u64 {
        bucket.push(i + 1); // 64 pushes, all completed before anything else happens
    }
    let mut got: Vec<u64> = Vec::new();

    // ---- pusher Q, 65th push: statements of AtomicBucket::push (pinned code), up to and including the hand-over CAS
    let guard = &epoch_pin();
    let tail = bucket.tail.load(Ordering::Acquire, guard);
    assert!(!tail.is_null());
    let tail_block = unsafe { tail.deref() };
    let value = match tail_block.push(1000u64) {
        Ok(_) => panic!("the first block must be full after {} pushes", BLOCK_SIZE),
        Err(value) => value,
    };
    let ptr = match bucket.tail.compare_exchange(tail, Owned::new(Block::new()), Ordering::AcqRel, Ordering::Acquire, guard) {
        Ok(ptr) => ptr,
        Err(_) => panic!("single-threaded test: the CAS cannot fail"),
    };
    // ---- Q is pre-empted here (Q stays pinned: the blocks it holds are not reclaimed)

    // ---- the other thread: one real clear
    bucket.clear_with(|xs| got.extend_from_slice(xs));

    // ---- Q resumes: the rest of the Ok(ptr) arm
    let new_tail = unsafe { ptr.deref() };
    new_tail.next.store(tail, Ordering::Release);
    assert!(new_tail.push(value).is_ok());

    // ---- any later clear
    bucket.clear_with(|xs| got.extend_from_slice(xs));

    let missing: Vec<u64> = (1..=BLOCK_SIZE as u64).filter(|v| !got.contains(v)).collect();
    assert!(
        missing.is_empty(),
        "{} of {} values whose push had completed before the first clear began were handed to no clear (first missing: {:?}); clears delivered {:?}",
        missing.len(), BLOCK_SIZE, missing.first(), got
    );
    let dup = got.iter().filter(|v| **v == 1).count();
    assert!(dup == 1, "value 1 handed out {} times", dup);
}
