PLAN = {
    "property": "C06",
    "level": "proof",
    "manifest": {
        "technique": "Kani/CBMC complete harnesses for shard selection (unsafe get_unchecked in bounds for every hash, shard counts 1..8) + Verus: bit-vector lemma for every power-of-two shard count and get_or_create/delete/get glue over ASSUMED hashbrown raw-entry and RwLock specifications",
        "text": "The registry's representation invariant (three shard vectors of equal power-of-two length, mask = len-1) is established by the constructors and makes every unchecked index in bounds for every 64-bit hash; the selected shard depends only on the key's hash and kind. The get-or-create / delete / get glue is proved, over assumed map and lock specifications, to operate on the entry of the key's equality class present under the lock at that moment, creating storage only when absent.",
        "note": "hashbrown raw-entry API, std RwLock and Key's Hash/Eq consistency (C03) are assumed; Kani cannot execute hashbrown (measured), so map behaviour itself is not verified; racing creators/deleters are covered only through 'the map under a freshly acquired lock is arbitrary'; Registry::clear is proved to reach every shard of every kind once (ghost accounting spliced after the real `.clear()` statements; what clear does to a map is hashbrown's contract); visit/retain/get_*_handles iteration is hashbrown's contract and not covered.",
    },
    "min_obligations": {"quick": 15, "thorough": 15},
    "assumptions": [
        "std::thread::available_parallelism is stubbed by any power of two <= 8 (next_power_of_two makes the real value a power of two)",
        "hashbrown HashMap (raw_entry, raw_entry_mut, remove_entry, or_insert_with, iter, retain, clear) behaves as documented; not executed",
        "RwLock is a lock",
        "K: Hashable returns a hash consistent with Eq (for metrics::Key: property C03)",
    ],
    "witnesses": [
        {"match": r"fn clear", "name": "impl Registry :: fn clear", "src": "witness_clear.rs", "crate": "metrics-util", "file": "metrics-util/src/registry/mod.rs"},
    ],
    "verus": [
        {"template": "registry.verus.rs", "tier": "quick", "rlimit": 50, "min_functions": 13},
    ],
    "kani": [{
        "crate": "metrics-util", "parallel": 4,
        "modules": [{"file": "metrics-util/src/registry/mod.rs", "mod": "__verif_c06", "src": "registry.kani.rs"}],
        "functions": [{"item": "Registry::new, get_hash_and_shard_for_{counter,gauge,histogram}", "file": "metrics-util/src/registry/mod.rs"}],
        "harnesses": [
            {"name": "c06_new_invariant", "obligation": "C06/kani/c06_new_invariant", "clause": "new(): |counters| == |gauges| == |histograms| == power of two, shard_mask == len - 1", "kind": "complete", "tier": "quick", "timeout": 900, "replay": False, "covers": 2, "sub": "k"},
            {"name": "c06_shard_selection", "obligation": "C06/kani/c06_shard_selection", "clause": "for every u64 hash the shard is vec_of_kind[hash & mask], in bounds; returned hash == key's hash", "kind": "complete", "tier": "quick", "timeout": 900, "replay": False, "covers": 1, "sub": "k"},
        ],
    }],
}
