// C06 — shard selection of metrics-util/src/registry/mod.rs: the three `get_unchecked` calls are in bounds, the shard a key
// maps to is a function of its hash only, and the three kinds use three disjoint shard vectors.
use super::*;
use std::hash::{Hash, Hasher};
use std::sync::Arc;
use std::sync::atomic::AtomicU64;

#[derive(Clone, PartialEq, Eq)]
pub struct TK(pub u64);
impl Hash for TK { fn hash<H: Hasher>(&self, state: &mut H) { state.write_u64(self.0) } }
impl Hashable for TK {
    type Hasher = KeyHasher;
    fn hashable(&self) -> u64 { self.0 } // pre-hashed key: every u64 is a possible hash
}

pub struct TS;
#[derive(Clone)]
pub struct H0;
impl metrics::HistogramFn for H0 { fn record(&self, _: f64) {} }
impl Storage<TK> for TS {
    type Counter = Arc<AtomicU64>;
    type Gauge = Arc<AtomicU64>;
    type Histogram = H0;
    fn counter(&self, _: &TK) -> Self::Counter { Arc::new(AtomicU64::new(0)) }
    fn gauge(&self, _: &TK) -> Self::Gauge { Arc::new(AtomicU64::new(0)) }
    fn histogram(&self, _: &TK) -> Self::Histogram { H0 }
}

#[cfg(kani)]
mod k {
    use super::*;
    // `available_parallelism` is a syscall: any power of two up to 8 shards
    pub fn shard_count_stub() -> usize {
        let e: u8 = kani::any();
        kani::assume(e <= 3);
        1usize << e
    }

    // Registry::new establishes the representation invariant the SAFETY comments rely on
    #[kani::proof]
    #[kani::unwind(10)]
    #[kani::stub(shard_count, shard_count_stub)]
    fn c06_new_invariant() {
        let r: Registry<TK, TS> = Registry::new(TS);
        let n = r.counters.len();
        assert!(n.is_power_of_two() && n <= 8);
        assert!(r.gauges.len() == n && r.histograms.len() == n);
        assert!(r.shard_mask == n - 1);
        kani::cover!(n == 8);
        kani::cover!(n == 1);
        core::mem::forget(r); // dropping empty hashbrown tables is intractable for CBMC (measured); Drop is not part of the claim
    }

    // for every hash: the selected shard is element (hash & mask) of the vector of THAT kind (in bounds: CBMC pointer checks on
    // get_unchecked), and the hash handed to the raw-entry lookup is the key's own hash
    #[kani::proof]
    #[kani::unwind(10)]
    #[kani::stub(shard_count, shard_count_stub)]
    fn c06_shard_selection() {
        let r: Registry<TK, TS> = Registry::new(TS);
        let h: u64 = kani::any();
        let key = TK(h);
        let idx = (h as usize) & (r.counters.len() - 1);
        assert!(idx < r.counters.len());
        let (hc, sc) = r.get_hash_and_shard_for_counter(&key);
        assert!(hc == h && core::ptr::eq(sc, &r.counters[idx]));
        let (hg, sg) = r.get_hash_and_shard_for_gauge(&key);
        assert!(hg == h && core::ptr::eq(sg, &r.gauges[idx]));
        let (hh, sh) = r.get_hash_and_shard_for_histogram(&key);
        assert!(hh == h && core::ptr::eq(sh, &r.histograms[idx]));
        kani::cover!(idx == 7);
        core::mem::forget(r); // dropping empty hashbrown tables is intractable for CBMC (measured); Drop is not part of the claim
    }
}
