// C06 — Verus contracts for metrics-util/src/registry/mod.rs: shard selection (the unsafe get_unchecked) and the
// get-or-create / get / delete glue, over ASSUMED specifications of hashbrown's raw-entry API and std's RwLock.
// //@ITEM blocks are replaced on every run by the item's text taken verbatim from /repo's working tree.
#![allow(unused_imports, dead_code, unused_variables, unused_mut)]
use vstd::prelude::*;
use std::sync::{RwLock, RwLockReadGuard, RwLockWriteGuard, PoisonError, LockResult};
use std::ops::{Deref, DerefMut};

verus! {

global size_of usize == 8;

//@INCLUDE prelude/std_extra.rs

//@INCLUDE prelude/rwlock.rs

// R12: `V.get_unchecked(I)` -> `shim_get_unchecked(&V, I)` (the method is generic over SliceIndex, no assume_specification possible).
// The SAFETY comment of the caller becomes a proof obligation: the index must be in bounds.
#[verifier::external_body]
pub unsafe fn shim_get_unchecked<T>(v: &Vec<T>, i: usize) -> (r: &T)
    requires i < v@.len(),
    ensures *r == v@[i as int],
{
    v.get_unchecked(i)
}

// ------------------------------------------------------------------ hashbrown (dependency stub, ASSUMED contract of the raw-entry API)
// The map is viewed as Map<K, V> over key equality classes. `from_key_hashed_nocheck(hash, k)` finds the entry of k's class
// PROVIDED the caller passes k's own hash (that is what "nocheck" means): stated as a precondition.
pub trait Hashable {
    spec fn hash_of(&self) -> u64;
    #[verifier::when_used_as_spec(hash_of)]
    fn hashable(&self) -> (r: u64)
        ensures r == self.hash_of();
}

pub mod hb {
    use vstd::prelude::*;
    use super::Hashable;

    #[verifier::external_body]
    #[verifier::reject_recursive_types(K)]
    #[verifier::reject_recursive_types(V)]
    pub struct HashMap<K, V> { _p: std::marker::PhantomData<(K, V)> }

    #[verifier::reject_recursive_types(K)]
    #[verifier::reject_recursive_types(V)]
    pub struct RawEntryBuilder<'a, K, V> { pub map: &'a HashMap<K, V> }
    #[verifier::reject_recursive_types(K)]
    #[verifier::reject_recursive_types(V)]
    pub struct RawEntryBuilderMut<'a, K, V> { pub map: &'a mut HashMap<K, V> }
    #[verifier::reject_recursive_types(K)]
    #[verifier::reject_recursive_types(V)]
    pub struct RawOccupiedEntryMut<'a, K, V> { pub map: &'a mut HashMap<K, V>, pub key: Ghost<K> }
    #[verifier::reject_recursive_types(K)]
    #[verifier::reject_recursive_types(V)]
    pub struct RawVacantEntryMut<'a, K, V> { pub map: &'a mut HashMap<K, V>, pub key: Ghost<K> }
    #[verifier::reject_recursive_types(K)]
    #[verifier::reject_recursive_types(V)]
    pub enum RawEntryMut<'a, K, V> { Occupied(RawOccupiedEntryMut<'a, K, V>), Vacant(RawVacantEntryMut<'a, K, V>) }

    impl<K, V> HashMap<K, V> {
        pub uninterp spec fn view(&self) -> Map<K, V>;

        #[verifier::external_body]
        pub fn raw_entry(&self) -> (b: RawEntryBuilder<'_, K, V>)
            ensures b.map == self,
        { unimplemented!() }

        #[verifier::external_body]
        pub fn raw_entry_mut(&mut self) -> (b: RawEntryBuilderMut<'_, K, V>)
            ensures *b.map == *old(self), *final(self) == *final(b.map),
        { unimplemented!() }
    }

    impl<'a, K: Hashable, V> RawEntryBuilder<'a, K, V> {
        #[verifier::external_body]
        pub fn from_key_hashed_nocheck(self, hash: u64, k: &K) -> (r: Option<(&'a K, &'a V)>)
            requires hash == k.hash_of(),
            ensures match r {
                Some((kk, v)) => self.map@.contains_key(*k) && *v == self.map@[*k] && *kk == *k,
                None => !self.map@.contains_key(*k),
            },
        { unimplemented!() }
    }

    impl<'a, K: Hashable, V> RawEntryBuilder<'a, K, V> {
        /// read-side lookup by hash and an arbitrary predicate: SOME stored key the predicate accepted, or none accepted
        #[verifier::external_body]
        pub fn from_hash<F: FnMut(&K) -> bool>(self, hash: u64, is_match: F) -> (r: Option<(&'a K, &'a V)>)
            requires forall|k: &K| is_match.requires((k,)),
            ensures match r {
                Some((kk, v)) => self.map@.contains_key(*kk) && *v == self.map@[*kk] && is_match.ensures((kk,), true),
                None => forall|k: K| #![trigger self.map@.contains_key(k)] self.map@.contains_key(k) && k.hash_of() == hash ==> is_match.ensures((&k,), false),
            },
        { unimplemented!() }
    }

    impl<'a, K: Hashable, V> RawEntryBuilderMut<'a, K, V> {
        /// lookup by hash and an arbitrary match predicate: finds SOME stored key accepted by the predicate (not necessarily
        /// the caller's key), or reports vacancy if no stored key is accepted
        #[verifier::external_body]
        pub fn from_hash<F: FnMut(&K) -> bool>(self, hash: u64, is_match: F) -> (r: RawEntryMut<'a, K, V>)
            requires forall|k: &K| is_match.requires((k,)),
            ensures match r {
                // the key found is one the predicate accepted ...
                RawEntryMut::Occupied(e) => old(self.map)@.contains_key(e.key@) && is_match.ensures((&e.key@,), true)
                    && *e.map == *old(self.map) && *final(e.map) == *final(self.map),
                // ... vacancy means every stored key with this hash was rejected; it establishes nothing about any particular key
                RawEntryMut::Vacant(e) => (forall|k: K| #![trigger old(self.map)@.contains_key(k)] old(self.map)@.contains_key(k) && k.hash_of() == hash ==> is_match.ensures((&k,), false))
                    && *e.map == *old(self.map) && *final(e.map) == *final(self.map),
            },
        { unimplemented!() }

        #[verifier::external_body]
        pub fn from_key_hashed_nocheck(self, hash: u64, k: &K) -> (r: RawEntryMut<'a, K, V>)
            requires hash == k.hash_of(),
            ensures match r {
                RawEntryMut::Occupied(e) => old(self.map)@.contains_key(*k) && e.key@ == *k && *e.map == *old(self.map) && *final(e.map) == *final(self.map),
                RawEntryMut::Vacant(e) => !old(self.map)@.contains_key(*k) && e.key@ == *k && *e.map == *old(self.map) && *final(e.map) == *final(self.map),
            },
        { unimplemented!() }
    }

    impl<'a, K, V> RawEntryMut<'a, K, V> {
        /// state of the underlying map when the entry was obtained / once the entry (and what it returned) is gone
        pub open spec fn map_now(self) -> Map<K, V> { match self { RawEntryMut::Occupied(e) => e.map@, RawEntryMut::Vacant(e) => e.map@ } }
        #[verifier::prophetic]
        pub open spec fn map_final(self) -> Map<K, V> { match self { RawEntryMut::Occupied(e) => (*final(e.map))@, RawEntryMut::Vacant(e) => (*final(e.map))@ } }

        /// unconditional insert: REPLACES the value of an occupied entry.  C06 ("every get-or-create with an equal key operates on
        /// that same storage until it is deleted") forbids the registry to overwrite a live storage: property-derived usage
        /// restriction, stated as a precondition.
        #[verifier::external_body]
        pub fn insert(self, key: K, value: V) -> (r: RawOccupiedEntryMut<'a, K, V>)
            requires self matches RawEntryMut::Vacant(e) && !e.map@.contains_key(e.key@),
            ensures r.key@ == key, r.map@ == self.map_now().insert(key, value), self.map_final() == (*final(r.map))@,
        { unimplemented!() }

        #[verifier::external_body]
        pub fn or_insert(self, default_key: K, default_val: V) -> (r: (&'a mut K, &'a mut V))
            // hashbrown's raw-entry contract: inserting through a vacant entry does NOT check for an existing equal key; the
            // vacancy must have been established for the key (`e.key`, set by from_key_hashed_nocheck; a `from_hash` lookup with
            // an arbitrary predicate establishes nothing), or the table ends up with two entries (two storages) for one key.
            // That the key then inserted is a faithful clone of the looked-up key is ASSUMED (K: Clone)
            requires self matches RawEntryMut::Vacant(e) ==> !e.map@.contains_key(e.key@),
            ensures match self {
                RawEntryMut::Occupied(e) => *r.1 == e.map@[e.key@] && self.map_final() == e.map@.insert(e.key@, *final(r.1)),
                RawEntryMut::Vacant(e) => *r.1 == default_val && self.map_final() == e.map@.insert(default_key, *final(r.1)),
            },
        { unimplemented!() }

        #[verifier::external_body]
        pub fn or_insert_with<F: FnOnce() -> (K, V)>(self, default: F) -> (r: (&'a mut K, &'a mut V))
            requires self is Vacant ==> default.requires(()),
                     // hashbrown's raw-entry contract (see or_insert): the inserted key must be known to be absent
                     self matches RawEntryMut::Vacant(e) ==> !e.map@.contains_key(e.key@),
            ensures match self {
                // occupied: the existing value, `default` is NOT called, no other entry changes
                RawEntryMut::Occupied(e) => *r.1 == e.map@[e.key@] && self.map_final() == e.map@.insert(e.key@, *final(r.1)),
                // vacant: `default` is called exactly once and its (key, value) is inserted
                RawEntryMut::Vacant(e) => exists|kv: (K, V)| default.ensures((), kv) && *r.1 == kv.1
                    && self.map_final() == e.map@.insert(kv.0, *final(r.1)),
            },
        { unimplemented!() }
    }

    impl<'a, K, V> RawOccupiedEntryMut<'a, K, V> {
        #[verifier::external_body]
        pub fn into_key_value(self) -> (r: (&'a mut K, &'a mut V))
            ensures *r.1 == old(self.map)@[self.key@], (*final(self.map))@ == old(self.map)@.insert(self.key@, *final(r.1)),
        { unimplemented!() }
        #[verifier::external_body]
        pub fn get(&self) -> (r: &V)
            ensures *r == old(self.map)@[self.key@],
        { unimplemented!() }

        #[verifier::external_body]
        pub fn remove_entry(self) -> (r: (K, V))
            ensures (*final(self.map))@ == old(self.map)@.remove(self.key@), r.1 == old(self.map)@[self.key@],
        { unimplemented!() }
    }
}
use hb::RawEntryMut;
pub type RegistryHashMap<K, V> = hb::HashMap<K, V>;

pub trait Storage<K> {
    type Counter: Clone;
    type Gauge: Clone;
    type Histogram: Clone;
    fn counter(&self, key: &K) -> Self::Counter;
    fn gauge(&self, key: &K) -> Self::Gauge;
    fn histogram(&self, key: &K) -> Self::Histogram;
}

#[verifier::reject_recursive_types(K)]
#[verifier::reject_recursive_types(S)]
//@ITEM file=metrics-util/src/registry/mod.rs sel=struct Registry
//@END

impl<K, S> Registry<K, S> where S: Storage<K> {
    /// representation invariant (established by the constructors, checked by Kani harness c06_new_invariant; the fields are
    /// private and no method changes the vectors' lengths or the mask)
    spec fn wf(&self) -> bool {
        &&& self.counters@.len() >= 1
        &&& self.gauges@.len() == self.counters@.len()
        &&& self.histograms@.len() == self.counters@.len()
        &&& self.shard_mask == self.counters@.len() - 1
    }
}

/// index safety for EVERY hash and EVERY mask: masking can only clear bits
proof fn lemma_mask_le(h: usize, m: usize)
    ensures (h & m) <= m,
{
    assert((h & m) <= m) by(bit_vector);
}

impl<K, S> Registry<K, S> where S: Storage<K>, K: Hashable {

//@ITEM file=metrics-util/src/registry/mod.rs sel=impl<K, S> Registry<K, S> where S: Storage<K>, K: Hashable, :: fn get_hash_and_shard_for_counter ret=r
//@REWRITE R12 re:self\.(\w+)\.get_unchecked\( ==> shim_get_unchecked(&self.\1, 
//@SPEC
    requires self.wf(),
    ensures r.0 == key.hash_of(), *r.1 == self.counters@[(key.hash_of() as usize & self.shard_mask) as int],
//@BEFORE 1 let shard = unsafe {
        proof { lemma_mask_le(hash as usize, self.shard_mask); }
//@END

//@ITEM file=metrics-util/src/registry/mod.rs sel=impl<K, S> Registry<K, S> where S: Storage<K>, K: Hashable, :: fn get_hash_and_shard_for_gauge ret=r
//@REWRITE R12 re:self\.(\w+)\.get_unchecked\( ==> shim_get_unchecked(&self.\1, 
//@SPEC
    requires self.wf(),
    ensures r.0 == key.hash_of(), *r.1 == self.gauges@[(key.hash_of() as usize & self.shard_mask) as int],
//@BEFORE 1 let shard = unsafe {
        proof { lemma_mask_le(hash as usize, self.shard_mask); }
//@END

//@ITEM file=metrics-util/src/registry/mod.rs sel=impl<K, S> Registry<K, S> where S: Storage<K>, K: Hashable, :: fn get_hash_and_shard_for_histogram ret=r
//@REWRITE R12 re:self\.(\w+)\.get_unchecked\( ==> shim_get_unchecked(&self.\1, 
//@SPEC
    requires self.wf(),
    ensures r.0 == key.hash_of(), *r.1 == self.histograms@[(key.hash_of() as usize & self.shard_mask) as int],
//@BEFORE 1 let shard = unsafe {
        proof { lemma_mask_le(hash as usize, self.shard_mask); }
//@END
}


impl<K, S> Registry<K, S> where S: Storage<K>, K: Eq + Hashable {

//@ITEM file=metrics-util/src/registry/mod.rs sel=impl<K, S> Registry<K, S> where S: Storage<K>, K: Eq \+ Hashable, :: fn delete_counter ret=existed
//@SPEC
    requires self.wf(),
//@AFTER 1 let mut shard_write = shard.write()
        let ghost m0 = (*wguarded(&shard_write))@;
//@BEFORE 1 return true;
            // reports existence truthfully and removes exactly the entry of this key
            proof { assert(m0.contains_key(*key) && (*wguarded(&shard_write))@ == m0.remove(*key)); }
//@BEFORE 1 =false
        proof { assert(!m0.contains_key(*key) && (*wguarded(&shard_write))@ == m0); }
//@END

//@ITEM file=metrics-util/src/registry/mod.rs sel=impl<K, S> Registry<K, S> where S: Storage<K>, K: Eq \+ Hashable, :: fn delete_gauge ret=existed
//@SPEC
    requires self.wf(),
//@AFTER 1 let mut shard_write = shard.write()
        let ghost m0 = (*wguarded(&shard_write))@;
//@BEFORE 1 return true;
            // reports existence truthfully and removes exactly the entry of this key
            proof { assert(m0.contains_key(*key) && (*wguarded(&shard_write))@ == m0.remove(*key)); }
//@BEFORE 1 =false
        proof { assert(!m0.contains_key(*key) && (*wguarded(&shard_write))@ == m0); }
//@END

//@ITEM file=metrics-util/src/registry/mod.rs sel=impl<K, S> Registry<K, S> where S: Storage<K>, K: Eq \+ Hashable, :: fn delete_histogram ret=existed
//@SPEC
    requires self.wf(),
//@AFTER 1 let mut shard_write = shard.write()
        let ghost m0 = (*wguarded(&shard_write))@;
//@BEFORE 1 return true;
            // reports existence truthfully and removes exactly the entry of this key
            proof { assert(m0.contains_key(*key) && (*wguarded(&shard_write))@ == m0.remove(*key)); }
//@BEFORE 1 =false
        proof { assert(!m0.contains_key(*key) && (*wguarded(&shard_write))@ == m0); }
//@END
}


impl<K, S> Registry<K, S> where S: Storage<K>, K: Eq + Hashable {

//@ITEM file=metrics-util/src/registry/mod.rs sel=impl<K, S> Registry<K, S> where S: Storage<K>, K: Eq \+ Hashable, :: fn get_counter ret=found
//@REWRITE R13 re:\|\(_, v\)\| v\.clone\(\) ==> |kv| kv.1.clone()
//@SPEC
    requires self.wf(),
//@END

//@ITEM file=metrics-util/src/registry/mod.rs sel=impl<K, S> Registry<K, S> where S: Storage<K>, K: Eq \+ Hashable, :: fn get_gauge ret=found
//@REWRITE R13 re:\|\(_, v\)\| v\.clone\(\) ==> |kv| kv.1.clone()
//@SPEC
    requires self.wf(),
//@END

//@ITEM file=metrics-util/src/registry/mod.rs sel=impl<K, S> Registry<K, S> where S: Storage<K>, K: Eq \+ Hashable, :: fn get_histogram ret=found
//@REWRITE R13 re:\|\(_, v\)\| v\.clone\(\) ==> |kv| kv.1.clone()
//@SPEC
    requires self.wf(),
//@END
}

impl<K, S> Registry<K, S> where S: Storage<K>, K: Clone + Eq + Hashable {

//@ITEM file=metrics-util/src/registry/mod.rs sel=impl<K, S> Registry<K, S> where S: Storage<K>, K: Clone \+ Eq \+ Hashable, :: fn get_or_create_counter ret=out
//@SPEC
    requires
        self.wf(),
        forall|c: &S::Counter| op.requires((c,)),
    ensures
        // `op` ran (exactly once: it is FnOnce) on some storage of this kind
        exists|c: S::Counter| op.ensures((&c,), out),
//@BEFORE 1 op(v)
        // "every get-or-create with an equal key operates on that same storage": on the read-locked fast path `op` is handed the
        // storage the shard maps THIS key to (not that of another key that merely shares its hash)
        proof { assert((*rguarded(&shard_read))@.contains_key(*key) && *v == (*rguarded(&shard_read))@[*key]); }
//@END

//@ITEM file=metrics-util/src/registry/mod.rs sel=impl<K, S> Registry<K, S> where S: Storage<K>, K: Clone \+ Eq \+ Hashable, :: fn get_or_create_gauge ret=out
//@SPEC
    requires
        self.wf(),
        forall|c: &S::Gauge| op.requires((c,)),
    ensures
        // `op` ran (exactly once: it is FnOnce) on some storage of this kind
        exists|c: S::Gauge| op.ensures((&c,), out),
//@BEFORE 1 op(v)
        // "every get-or-create with an equal key operates on that same storage": on the read-locked fast path `op` is handed the
        // storage the shard maps THIS key to (not that of another key that merely shares its hash)
        proof { assert((*rguarded(&shard_read))@.contains_key(*key) && *v == (*rguarded(&shard_read))@[*key]); }
//@END

//@ITEM file=metrics-util/src/registry/mod.rs sel=impl<K, S> Registry<K, S> where S: Storage<K>, K: Clone \+ Eq \+ Hashable, :: fn get_or_create_histogram ret=out
//@SPEC
    requires
        self.wf(),
        forall|c: &S::Histogram| op.requires((c,)),
    ensures
        // `op` ran (exactly once: it is FnOnce) on some storage of this kind
        exists|c: S::Histogram| op.ensures((&c,), out),
//@BEFORE 1 op(v)
        // "every get-or-create with an equal key operates on that same storage": on the read-locked fast path `op` is handed the
        // storage the shard maps THIS key to (not that of another key that merely shares its hash)
        proof { assert((*rguarded(&shard_read))@.contains_key(*key) && *v == (*rguarded(&shard_read))@[*key]); }
//@END
}

// ------------------------------------------------------------------ Registry::clear: every shard of every kind is visited
/// R2: `for shard in &V` over a `Vec<RwLock<..>>` -> loop over shim_shards / shim_shard_next (std: the elements, in order, each once)
#[verifier::external_body] #[verifier::reject_recursive_types(T)]
pub struct ShardIter<'a, T> { _p: std::marker::PhantomData<&'a T> }
pub mod shard_iter_axioms {
    use vstd::prelude::*;
    /// how many elements the iterator has still to yield
    pub uninterp spec fn left<T>(it: &super::ShardIter<'_, T>) -> nat;
}
pub use shard_iter_axioms::left;
#[verifier::external_body]
pub fn shim_shards<'a, T>(v: &'a Vec<T>) -> (it: ShardIter<'a, T>) ensures left(&it) == v@.len() { unimplemented!() }
#[verifier::external_body]
pub fn shim_shard_next<'a, T>(it: &mut ShardIter<'a, T>) -> (r: Option<&'a T>)
    ensures r is Some ==> left(old(it)) > 0 && left(final(it)) == left(old(it)) - 1,
            r is None ==> left(old(it)) == 0 && left(final(it)) == 0,
{ unimplemented!() }
impl<K, V> hb::HashMap<K, V> {
    #[verifier::external_body]
    pub fn clear(&mut self) ensures final(self)@ == Map::<K, V>::empty() { unimplemented!() }
}

impl<K, S: Storage<K>> Registry<K, S> {
//@ITEM file=metrics-util/src/registry/mod.rs sel=impl<K, S> Registry<K, S> where S: Storage<K>, :: fn clear
//@FORLOOP 1 it1 shim_shards shim_shard_next
//@FORLOOP 2 it2 shim_shards shim_shard_next
//@FORLOOP 3 it3 shim_shards shim_shard_next
//@SPEC
    // ghost accounting (spliced after each real `.clear()` statement): how many shards of each kind were cleared under their lock
//@BODYSTART
        let ghost mut c1: nat = 0;
        let ghost mut c2: nat = 0;
        let ghost mut c3: nat = 0;
//@LOOP 1
            invariant c1 + left(&it1) == self.counters@.len(),
            ensures left(&it1) == 0,
            decreases left(&it1),
//@AFTER 1 stmt:.clear();
            proof { c1 = c1 + 1; }
//@LOOP 2
            invariant c2 + left(&it2) == self.gauges@.len(), c1 == self.counters@.len(),
            ensures left(&it2) == 0,
            decreases left(&it2),
//@AFTER 2 stmt:.clear();
            proof { c2 = c2 + 1; }
//@LOOP 3
            invariant c3 + left(&it3) == self.histograms@.len(), c1 == self.counters@.len(), c2 == self.gauges@.len(),
            ensures left(&it3) == 0,
            decreases left(&it3),
//@AFTER 3 stmt:.clear();
            proof { c3 = c3 + 1; }
//@BODYEND
        // clear() reaches every shard of every kind exactly once (what is in a shard's map is emptied by hashbrown's clear)
        assert(c1 == self.counters@.len() && c2 == self.gauges@.len() && c3 == self.histograms@.len());
//@END
}

} // verus!
fn main() {}
