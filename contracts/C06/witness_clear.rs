// Hand-derived from the contract of `Registry::clear` ("clear removes every storage of every kind; listings taken afterwards
// report no key"): the real registry with enough keys to populate every shard of all three kinds.
use super::*;
use crate::registry::AtomicStorage;
use metrics::Key;

#[test]
fn clear_leaves_no_storage_of_any_kind_in_any_shard() {
    let registry: Registry<Key, AtomicStorage> = Registry::atomic();
    for i in 0..1000 {
        let k = Key::from_name(format!("k{i}"));
        registry.get_or_create_counter(&k, |_| ());
        registry.get_or_create_gauge(&k, |_| ());
        registry.get_or_create_histogram(&k, |_| ());
    }
    assert_eq!((registry.get_counter_handles().len(), registry.get_gauge_handles().len(), registry.get_histogram_handles().len()), (1000, 1000, 1000));
    registry.clear();
    assert_eq!((registry.get_counter_handles().len(), registry.get_gauge_handles().len(), registry.get_histogram_handles().len()), (0, 0, 0),
               "clear must empty every shard of every kind");
    for i in 0..1000 {
        let k = Key::from_name(format!("k{i}"));
        assert!(registry.get_counter(&k).is_none() && registry.get_gauge(&k).is_none() && registry.get_histogram(&k).is_none());
    }
}
