// C07 (label precedence clause, configuration side) — Verus contract for PrometheusBuilder::add_global_label
// (metrics-exporter-prometheus/src/exporter/builder.rs): global labels are stored under their RAW names, which is what
// key_to_parts (labels.verus.rs) merges the key's own labels against.
#![allow(unused_imports, dead_code, unused_variables, unused_mut)]
use vstd::prelude::*;
use std::collections::HashMap;
use std::num::NonZeroU32;

verus! {

global size_of usize == 8;

//@INCLUDE prelude/std_extra.rs

#[verifier::external_body] pub struct ExporterConfig { _p: [u8; 0] }
#[verifier::external_body] pub struct Quantile { _p: [u8; 0] }
#[verifier::external_body] pub struct Duration { _p: [u8; 0] }
#[verifier::external_body] pub struct Matcher { _p: [u8; 0] }
#[verifier::external_body] pub struct MetricKindMask { _p: [u8; 0] }
#[verifier::external_body] pub struct IpNet { _p: [u8; 0] }

/// indexmap::IndexMap<String, String> (dependency stub); view = association list in insertion order
#[verifier::external_body]
#[verifier::reject_recursive_types(K)]
#[verifier::reject_recursive_types(V)]
pub struct IndexMap<K, V> { _p: std::marker::PhantomData<(K, V)> }
impl IndexMap<String, String> {
    pub uninterp spec fn view(&self) -> Seq<(Seq<char>, Seq<char>)>;
    #[verifier::external_body]
    pub fn new() -> (r: Self) ensures r@ == Seq::<(Seq<char>, Seq<char>)>::empty() { unimplemented!() }
    // ASSUMED indexmap contract: insert replaces the value of an existing key IN PLACE, a new key is appended
    #[verifier::external_body]
    pub fn insert(&mut self, k: String, v: String) -> (r: Option<String>)
        ensures final(self)@ == upsert(old(self)@, k@, v@),
    { unimplemented!() }
}
pub open spec fn find(m: Seq<(Seq<char>, Seq<char>)>, k: Seq<char>) -> int
    decreases m.len(),
{
    if m.len() == 0 { -1 } else if m.last().0 == k && find(m.drop_last(), k) < 0 { m.len() - 1 } else { find(m.drop_last(), k) }
}
pub open spec fn upsert(m: Seq<(Seq<char>, Seq<char>)>, k: Seq<char>, v: Seq<char>) -> Seq<(Seq<char>, Seq<char>)> {
    if find(m, k) >= 0 { m.update(find(m, k), (k, v)) } else { m.push((k, v)) }
}

/// the text a value converts to (`Into<String>`): uninterpreted
pub uninterp spec fn text_of<T>(t: T) -> Seq<char>;
// R18: `X.into()` (Into<String> on a generic type) -> `shim_into_string(X)`
#[verifier::external_body]
pub fn shim_into_string<T: Into<String>>(t: T) -> (r: String) ensures r@ == text_of(t) { t.into() }

// formatting.rs sanitisers as opaque functions (their grammar is C08's); NOT the identity
pub uninterp spec fn sanitized_key(s: Seq<char>) -> Seq<char>;
#[verifier::external_body]
pub fn sanitize_label_key(key: &str) -> (r: String) ensures r@ == sanitized_key(key@) { unimplemented!() }

//@ITEM file=metrics-exporter-prometheus/src/exporter/builder.rs sel=struct PrometheusBuilder
//@REWRITE R14 re:\s*#\[cfg_attr\([^\n]*\n ==> \n
//@REWRITE R14 re:\s*#\[cfg\(feature = "http-listener"\)\]\n ==> \n
//@END

impl PrometheusBuilder {
    spec fn globals(&self) -> Seq<(Seq<char>, Seq<char>)> { match self.global_labels { Some(m) => m@, None => Seq::empty() } }

//@ITEM file=metrics-exporter-prometheus/src/exporter/builder.rs sel=impl PrometheusBuilder :: fn add_global_label ret=r
//@REWRITE R16 re:\(mut self, ==> (self,
//@REWRITE R16 re:\bself\.global_labels ==> this.global_labels
//@REWRITE R16 re:\n(\s*)self\n ==> \n\1this\n
//@REWRITE R18 re:\bkey\.into\(\) ==> shim_into_string(key)
//@REWRITE R18 re:\bvalue\.into\(\) ==> shim_into_string(value)
//@SPEC
    ensures
        // the label is stored under the name exactly as given (key_to_parts matches the key's own labels against THIS name; the
        // rendering sanitises later); an existing global label of that name is replaced in place, a new one is appended
        r.globals() == upsert(self.globals(), text_of(key), text_of(value)),
//@BODYSTART
        let mut this = self;
//@END
}

} // verus!
fn main() {}
