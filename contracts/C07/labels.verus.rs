// C07 (label precedence clause) — Verus contract for metrics-exporter-prometheus/src/formatting.rs `key_to_parts`
#![allow(unused_imports, dead_code, unused_variables, unused_mut)]
use vstd::prelude::*;

verus! {

global size_of usize == 8;

//@INCLUDE prelude/std_extra.rs

#[verifier::external_body] pub struct Key { _p: [u8; 0] }
#[verifier::external_body] pub struct Label { _p: [u8; 0] }
impl Label {
    pub uninterp spec fn k(&self) -> Seq<char>;
    pub uninterp spec fn v(&self) -> Seq<char>;
    #[verifier::external_body] pub fn key(&self) -> (r: &str) ensures r@ == self.k() { unimplemented!() }
    #[verifier::external_body] pub fn value(&self) -> (r: &str) ensures r@ == self.v() { unimplemented!() }
}
/// iterator over a key's labels (dependency stub)
#[verifier::external_body] pub struct LabelIter<'a> { _p: std::marker::PhantomData<&'a Label> }
pub mod li_axioms {
    use vstd::prelude::*;
    pub uninterp spec fn li_remaining<'a>(it: &super::LabelIter<'a>) -> Seq<&'a super::Label>;
}
pub use li_axioms::li_remaining;
impl Key {
    pub uninterp spec fn label_seq(&self) -> Seq<&Label>;
    pub uninterp spec fn name_view(&self) -> Seq<char>;
    #[verifier::external_body] pub fn name(&self) -> (r: &str) ensures r@ == self.name_view() { unimplemented!() }
    #[verifier::external_body] pub fn labels(&self) -> (r: LabelIter<'_>) ensures li_remaining(&r) == self.label_seq() { unimplemented!() }
}
pub fn shim_same<T>(t: T) -> (r: T) ensures r == t { t }
#[verifier::external_body]
pub fn shim_li_next<'a>(it: &mut LabelIter<'a>) -> (r: Option<&'a Label>)
    ensures match r {
        Some(x) => li_remaining(old(it)).len() > 0 && x == li_remaining(old(it))[0] && li_remaining(final(it)) == li_remaining(old(it)).skip(1),
        None => li_remaining(old(it)).len() == 0 && li_remaining(final(it)) == li_remaining(old(it)),
    },
{ unimplemented!() }

/// indexmap::IndexMap<String, String> (dependency stub); view = association list in insertion order
#[verifier::external_body]
#[verifier::reject_recursive_types(K)]
#[verifier::reject_recursive_types(V)]
pub struct IndexMap<K, V> { _p: std::marker::PhantomData<(K, V)> }
impl IndexMap<String, String> {
    pub uninterp spec fn view(&self) -> Seq<(Seq<char>, Seq<char>)>;
    // ASSUMED indexmap contract: insert replaces the value of an existing key IN PLACE, a new key is appended
    #[verifier::external_body]
    pub fn insert(&mut self, k: String, v: String) -> (r: Option<String>)
        ensures final(self)@ == upsert(old(self)@, k@, v@),
    { unimplemented!() }
}
impl Clone for IndexMap<String, String> {
    #[verifier::external_body] fn clone(&self) -> (r: Self) ensures r@ == self@ { unimplemented!() }
}
impl Default for IndexMap<String, String> {
    #[verifier::external_body] fn default() -> (r: Self) ensures r@ == Seq::<(Seq<char>, Seq<char>)>::empty() { unimplemented!() }
}

/// position of label name `k` in the association list, or -1
pub open spec fn find(m: Seq<(Seq<char>, Seq<char>)>, k: Seq<char>) -> int
    decreases m.len(),
{
    if m.len() == 0 { -1 } else if m.last().0 == k && find(m.drop_last(), k) < 0 { m.len() - 1 } else { find(m.drop_last(), k) }
}
pub open spec fn upsert(m: Seq<(Seq<char>, Seq<char>)>, k: Seq<char>, v: Seq<char>) -> Seq<(Seq<char>, Seq<char>)> {
    if find(m, k) >= 0 { m.update(find(m, k), (k, v)) } else { m.push((k, v)) }
}
/// the label set a series carries: the configured global labels, each overridden IN PLACE by the key's own label of the same
/// (unsanitised) name, then the key's remaining labels in their order
pub open spec fn merged(globals: Seq<(Seq<char>, Seq<char>)>, own: Seq<&Label>) -> Seq<(Seq<char>, Seq<char>)>
    decreases own.len(),
{
    if own.len() == 0 { globals } else { upsert(merged(globals, own.drop_last()), own.last().k(), own.last().v()) }
}

pub uninterp spec fn sanitized_name(s: Seq<char>) -> String;
#[verifier::external_body]
pub fn sanitize_metric_name(name: &str) -> (r: String) ensures r == sanitized_name(name@) { unimplemented!() }
/// rendering of the merged (name, value) pairs as `name="value"` strings: sanitising + format! are opaque here (C08 owns them)
pub uninterp spec fn rendered(m: Seq<(Seq<char>, Seq<char>)>) -> Vec<String>;
// R20: `M.iter().map(|(k, v)| format!(..)).collect()` -> `shim_render_labels(&M)`: an iterator-adapter chain with format!
#[verifier::external_body]
pub fn shim_render_labels(m: &IndexMap<String, String>) -> (r: Vec<String>) ensures r == rendered(m@) { unimplemented!() }


//@ITEM file=metrics-exporter-prometheus/src/formatting.rs sel=fn key_to_parts ret=r
// R19: `E.for_each(|P| { B });` -> `for P in E { B }` (std: for_each calls the closure on each element in order), then R2
//@REWRITE R19 re:key\.labels\(\)\.for_each\(\|label\| \{ ==> for label in key.labels() {
//@REWRITE R19 re:\}\);\n(\s*)let labels = values ==> }\n\1let labels = values
//@REWRITE R20 re:values\s*\.iter\(\)\s*\.map\(\|\(k, v\)\| format!\("\{\}=\\"\{\}\\"", sanitize_label_key\(k\), sanitize_label_value\(v\)\)\)\s*\.collect\(\) ==> shim_render_labels(&values)
//@FORLOOP 1 it shim_same shim_li_next
//@AFTER 1 let mut values =
    let ghost g0 = values@;
    let ghost own = key.label_seq();
    proof { assert(g0 == (match default_labels { Some(g) => g@, None => Seq::<(Seq<char>, Seq<char>)>::empty() })); assert(own.take(0) =~= Seq::<&Label>::empty()); }
//@LOOP 1
        invariant
            own == key.label_seq(),
            li_remaining(&it).len() <= own.len(),
            li_remaining(&it) == own.skip(own.len() - li_remaining(&it).len()),
            values@ == merged(g0, own.take(own.len() - li_remaining(&it).len())),
        ensures li_remaining(&it).len() == 0,
        decreases li_remaining(&it).len(),
//@BEFORE 1 values.insert(
        let ghost i0 = own.len() - li_remaining(&it).len() - 1;
        proof {
            assert(label == own[i0]);
            assert(own.take(i0 + 1).drop_last() =~= own.take(i0));
            assert(own.take(i0 + 1).last() == label);
        }
//@AFTERLOOP 1
    proof { assert(own.take(own.len() as int) =~= own); }
//@SPEC
    ensures
        r.0 == sanitized_name(key.name_view()),
        // global labels overridden by the key's own labels of the same name (key wins), order: globals first, then new key labels
        r.1 == rendered(merged(match default_labels { Some(g) => g@, None => Seq::empty() }, key.label_seq())),
//@END

} // verus!
fn main() {}
