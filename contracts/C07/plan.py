PLAN = {
    "property": "C07",
    "level": "proof",
    "manifest": {
        "technique": "Verus (z3) on recorder.rs functions extracted verbatim (get_recent_metrics, drain_histograms_to_distributions, add_description_if_missing) against a functional specification of the snapshot, over ASSUMED specifications of registry handle listing, recency, key_to_parts, std HashMap/IndexMap/RwLock and the bucket",
        "text": "Partly claimed. Proved, for any number of keys and any handle values: the counters (gauges) section of a snapshot is exactly the fold over the live handles that the recency tracker keeps of `put(series_of(key), load(atomic))` -- the series identity always computed with the recorder's global labels, the value the atomic's content at the load (bit-reinterpreted for gauges), last writer wins; draining records the pending samples of each histogram's bucket into the distribution of the series that key renders as (created from the builder for that name if absent) and touches no other distribution; an expired histogram removes exactly that series' distribution (and an emptied per-name map); key_to_parts merges the global labels with the key's own (same name: the key wins, in place; new names appended); a description is inserted only if the sanitised name has none yet (HELP = first description).",
        "note": "render() is proved to emit (HELP? TYPE SAMPLE* blank)* with every sample inside the family of its TYPE line (abstract lines; C08 owns the line grammar). NOT decided here: float formatting round-trip, `_sum` as a float fold, concurrent record/render (inherits C05's gap), that AtomicBucket::clear_with hands each sample out exactly once (assumed), that Distribution::record_samples counts each sample (C15's contract). Atomic handle updates are C04's contracts.",
    },
    "min_obligations": {"quick": 5, "thorough": 5},
    "assumptions": [
        "Registry::get_*_handles lists each live (key, handle) once (C06 + hashbrown iteration); HashMap::into_iter yields each entry once (typed shims shim_map_into_iter/shim_map_next)",
        "Recency::should_store_* is an opaque predicate keeps(kind, key, generation) here (its own contract is C12)",
        "in recorder.verus.rs key_to_parts is an uninterpreted function parts_of(key, default_labels); its label merge (globals overridden in place by the key's own labels) is proved in labels.verus.rs with R19 (for_each -> for) and R20 (the sanitise+format! chain as an opaque shim)",
        "std HashMap entry API (vstd entry/or_insert + assumed or_insert_with/or_default), assumed HashMap::get_mut, vstd remove; IndexMap entry/or_insert_with/swap_remove/is_empty/clone as documented by indexmap; RwLock is a lock (content arbitrary at acquisition)",
        "obeys_key_model::<String>() and ::<Vec<String>>(): std Hash/Eq of String and Vec<String> agree",
        "R17: `bucket.clear_with(|s| entry.record_samples(s))` is one opaque step recorded(entry, pending(bucket)); AtomicBucket (C05) and Distribution::record_samples (C15) are not re-verified here",
        "SPEC-closure: the `|| self.distribution_builder.get_distribution(name.as_str())` closure carries an ensures annotation checked against its body",
        "f64::from_bits uninterpreted; usize 64 bit",
    ],
    # plain tests of the render / drain contract clauses on the real crate: run when the named obligation fails (replay), was
    # demoted to undecided, or its function could not be extracted; a FAILING witness confirms a violation
    "witnesses": [
        {"match": r"(fn render|fn drain_histograms_to_distributions|fn get_recent_metrics)", "name": "impl Inner :: fn render", "src": "witness_render_totals.rs",
         "crate": "metrics-exporter-prometheus", "file": "metrics-exporter-prometheus/src/recorder.rs"},
    ],
    "verus": [
        {"template": "recorder.verus.rs", "tier": "quick", "rlimit": 60, "min_functions": 5},
        {"template": "labels.verus.rs", "tier": "quick", "rlimit": 40, "min_functions": 1},
        {"template": "builder_labels.verus.rs", "tier": "quick", "rlimit": 40, "min_functions": 1},
    ],
}
