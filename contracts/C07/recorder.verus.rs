// C07/C12 (Prometheus side) — Verus contracts for metrics-exporter-prometheus/src/recorder.rs
#![feature(allocator_api)]
#![allow(unused_imports, dead_code, unused_variables, unused_mut)]
use vstd::prelude::*;
use vstd::std_specs::hash::*;
use std::collections::HashMap;
use std::collections::hash_map::Entry;
use std::sync::{RwLock, RwLockReadGuard, RwLockWriteGuard, PoisonError, LockResult};
use std::sync::atomic::Ordering;
use std::ops::{Deref, DerefMut};

verus! {

global size_of usize == 8;

//@INCLUDE prelude/std_extra.rs
//@INCLUDE prelude/rwlock.rs

// ASSUMED: f64::from_bits is a bijection on bit patterns (uninterpreted here)
pub uninterp spec fn f64_of_bits(b: u64) -> f64;
pub assume_specification[ f64::from_bits ](b: u64) -> (r: f64)
    ensures r == f64_of_bits(b);

//@INCLUDE prelude/hashmap_entry.rs
//@INCLUDE prelude/hashmap_get_mut.rs
broadcast use {getmut_axioms::axiom_same_key_refl, vstd::std_specs::hash::group_hash_axioms, line_axioms::axiom_blank_text};

#[verifier::external_type_specification]
#[verifier::external_body]
#[verifier::reject_recursive_types(K)]
#[verifier::reject_recursive_types(V)]
#[verifier::reject_recursive_types(A)]
pub struct ExHashMapIntoIter<K, V, A: std::alloc::Allocator>(std::collections::hash_map::IntoIter<K, V, A>);

// iterator shims (R2), as in C09
pub mod axioms {
    use vstd::prelude::*;
    pub uninterp spec fn remaining<I: Iterator>(it: &I) -> Seq<I::Item>;
    pub uninterp spec fn into_remaining<I: IntoIterator>(i: &I) -> Seq<I::Item>;
}
pub use axioms::{remaining, into_remaining};
#[verifier::external_body]
pub fn shim_into_iter<I: IntoIterator>(i: I) -> (r: I::IntoIter)
    ensures remaining(&r) == into_remaining(&i),
{ i.into_iter() }
#[verifier::external_body]
pub fn shim_next<I: Iterator>(it: &mut I) -> (r: Option<I::Item>)
    ensures match r {
        Some(x) => remaining(old(it)).len() > 0 && x == remaining(old(it))[0] && remaining(final(it)) == remaining(old(it)).skip(1),
        None => remaining(old(it)).len() == 0 && remaining(final(it)) == remaining(old(it)),
    },
{ it.next() }

// typed variants for std HashMap iteration (Verus cannot equate Seq<<HashMap<K,V> as IntoIterator>::Item> with Seq<(K,V)>)
pub mod map_axioms {
    use vstd::prelude::*;
    /// the order in which `m.into_iter()` yields m's entries (each exactly once: ASSUMED std contract)
    pub uninterp spec fn map_order<K, V>(m: &std::collections::HashMap<K, V>) -> Seq<(K, V)>;
    pub uninterp spec fn map_remaining<K, V>(it: &std::collections::hash_map::IntoIter<K, V>) -> Seq<(K, V)>;
}
pub use map_axioms::{map_order, map_remaining};
#[verifier::external_body]
pub fn shim_map_into_iter<K, V>(m: HashMap<K, V>) -> (r: std::collections::hash_map::IntoIter<K, V>)
    ensures map_remaining(&r) == map_order(&m),
{ m.into_iter() }
#[verifier::external_body]
pub fn shim_map_next<K, V>(it: &mut std::collections::hash_map::IntoIter<K, V>) -> (r: Option<(K, V)>)
    ensures match r {
        Some(x) => map_remaining(old(it)).len() > 0 && x == map_remaining(old(it))[0] && map_remaining(final(it)) == map_remaining(old(it)).skip(1),
        None => map_remaining(old(it)).len() == 0 && map_remaining(final(it)) == map_remaining(old(it)),
    },
{ it.next() }

#[verifier::external_body] pub struct Key { _p: [u8; 0] }
#[verifier::external_body] pub struct Generation { _p: [u8; 0] }
#[verifier::external_body] pub struct Histogram { _p: [u8; 0] }
#[verifier::external_body] pub struct RollingSummary { _p: [u8; 0] }
#[verifier::external_body] pub struct Summary { _p: [u8; 0] }
#[verifier::external_body] pub struct Quantile { _p: [u8; 0] }
#[verifier::external_body] pub struct Instant { _p: [u8; 0] }
impl Instant { #[verifier::external_body] pub fn now() -> Instant { unimplemented!() } }
impl Histogram {
    #[verifier::external_body] pub fn buckets(&self) -> Vec<(f64, u64)> { unimplemented!() }
    #[verifier::external_body] pub fn count(&self) -> u64 { unimplemented!() }
    #[verifier::external_body] pub fn sum(&self) -> f64 { unimplemented!() }
}
impl RollingSummary {
    #[verifier::external_body] pub fn snapshot(&self, now: Instant) -> Summary { unimplemented!() }
    #[verifier::external_body] pub fn count(&self) -> usize { unimplemented!() }
}
impl Summary { #[verifier::external_body] pub fn quantile(&self, q: f64) -> Option<f64> { unimplemented!() } }
impl Quantile { #[verifier::external_body] pub fn value(&self) -> f64 { unimplemented!() } }
//@ITEM file=metrics-exporter-prometheus/src/distribution.rs sel=enum Distribution
//@REWRITE stub-arc Arc<Vec<Quantile>> ==> std::sync::Arc<Vec<Quantile>>
//@END
impl Distribution {
    #[verifier::external_body]
    pub fn record_samples(&mut self, samples: &[f64]) { unimplemented!() }
}
/// what a bucket hands out when cleared now (ASSUMED, C05's scope), and a distribution after recording a batch (C15's contract)
pub uninterp spec fn pending(b: &Bucket) -> Seq<f64>;
pub uninterp spec fn recorded(d: Distribution, samples: Seq<f64>) -> Distribution;
// R17: `B.clear_with(|samples| E.record_samples(samples))` -> `shim_clear_into(B, E)`: Verus has no closures that capture a mutable
// reference. The shim's body is that expression; its specification is the wiring it performs.
#[verifier::external_body]
pub fn shim_clear_into(b: &Bucket, e: &mut Distribution)
    ensures *final(e) == recorded(*old(e), pending(b)),
{
    b.clear_with(|samples| e.record_samples(samples))
}
#[verifier::external_body] pub struct DistributionBuilder { _p: [u8; 0] }
impl DistributionBuilder {
    pub uninterp spec fn fresh_for(&self, name: Seq<char>) -> Distribution;
    /// "histogram" or "summary" for this metric name (C15: "histogram" exactly when get_distribution(name) is the Histogram variant)
    pub uninterp spec fn dist_type(&self, name: Seq<char>) -> Seq<char>;
    #[verifier::external_body]
    pub fn get_distribution_type(&self, name: &str) -> (r: &str) ensures r@ == self.dist_type(name@) { unimplemented!() }
    #[verifier::external_body]
    pub fn get_distribution(&self, name: &str) -> (r: Distribution) ensures r == self.fresh_for(name@) { unimplemented!() }
}
#[verifier::external_body] pub struct SharedString { _p: [u8; 0] }
impl SharedString {
    // Deref<Target = str> API a rewritten body may use (uninterpreted results)
    pub uninterp spec fn text(&self) -> Seq<char>;
    #[verifier::external_body] pub fn trim(&self) -> (r: &str) { unimplemented!() }
    #[verifier::external_body] pub fn is_empty(&self) -> (r: bool) ensures r == (self.text().len() == 0) { unimplemented!() }
    #[verifier::external_body] pub fn as_ref(&self) -> (r: &str) ensures r@ == self.text() { unimplemented!() }
    #[verifier::external_body] pub fn len(&self) -> (r: usize) { unimplemented!() }
}
pub type Unit = RUnit;
#[verifier::external_body] pub struct GenerationalAtomicStorage { _p: [u8; 0] }
#[verifier::external_body]
#[verifier::reject_recursive_types(K)]
#[verifier::reject_recursive_types(V)]
pub struct IndexMap<K, V> { _p: std::marker::PhantomData<(K, V)> }
impl<K, V> IndexMap<K, V> {
    /// insertion-ordered map viewed as a Map (order is not needed by these contracts)
    pub uninterp spec fn view(&self) -> Map<K, V>;
    #[verifier::external_body]
    pub fn swap_remove(&mut self, k: &K) -> (r: Option<V>)
        ensures final(self)@ == old(self)@.remove(*k), r is Some <==> old(self)@.contains_key(*k),
    { unimplemented!() }
    #[verifier::external_body]
    pub fn is_empty(&self) -> (r: bool)
        ensures r == (self@.dom() =~= Set::<K>::empty()),
    { unimplemented!() }
}
#[verifier::reject_recursive_types(K)]
#[verifier::reject_recursive_types(V)]
pub struct IndexEntry<'a, K, V> { pub map: &'a mut IndexMap<K, V>, pub key: K }
#[verifier::external_body]
#[verifier::reject_recursive_types(K)]
#[verifier::reject_recursive_types(V)]
pub struct IndexDrain<'a, K, V> { _p: std::marker::PhantomData<&'a mut (K, V)> }
pub mod drain_axioms {
    use vstd::prelude::*;
    pub uninterp spec fn idrain_remaining<'a, K, V>(it: &super::IndexDrain<'a, K, V>) -> Seq<(K, V)>;
    pub uninterp spec fn hdrain_remaining<'a, K, V>(it: &std::collections::hash_map::Drain<'a, K, V>) -> Seq<(K, V)>;
}
pub use drain_axioms::{idrain_remaining, hdrain_remaining};
impl<K, V> IndexMap<K, V> {
    #[verifier::external_body]
    pub fn drain(&mut self, r: std::ops::RangeFull) -> (d: IndexDrain<'_, K, V>) { unimplemented!() }
}
#[verifier::external_body]
pub fn shim_idrain_next<'a, K, V>(it: &mut IndexDrain<'a, K, V>) -> (r: Option<(K, V)>)
    ensures match r {
        Some(x) => idrain_remaining(old(it)).len() > 0 && x == idrain_remaining(old(it))[0] && idrain_remaining(final(it)) == idrain_remaining(old(it)).skip(1),
        None => idrain_remaining(old(it)).len() == 0 && idrain_remaining(final(it)) == idrain_remaining(old(it)),
    },
{ unimplemented!() }
#[verifier::external_type_specification]
#[verifier::external_body]
#[verifier::reject_recursive_types(K)]
#[verifier::reject_recursive_types(V)]
#[verifier::reject_recursive_types(A)]
pub struct ExHashMapDrain<'a, K: 'a, V: 'a, A: std::alloc::Allocator>(std::collections::hash_map::Drain<'a, K, V, A>);
#[verifier::external_body]
pub fn shim_hdrain_next<'a, K, V>(it: &mut std::collections::hash_map::Drain<'a, K, V>) -> (r: Option<(K, V)>)
    ensures match r {
        Some(x) => hdrain_remaining(old(it)).len() > 0 && x == hdrain_remaining(old(it))[0] && hdrain_remaining(final(it)) == hdrain_remaining(old(it)).skip(1),
        None => hdrain_remaining(old(it)).len() == 0 && hdrain_remaining(final(it)) == hdrain_remaining(old(it)),
    },
{ it.next() }
pub fn shim_same<T>(t: T) -> (r: T) ensures r == t { t }
// ASSUMED std contract: drain() yields every entry of the map exactly once (in map_order) and leaves the map empty
pub assume_specification<'a, K, V, S, A: std::alloc::Allocator>[ std::collections::HashMap::<K, V, S, A>::drain ](m: &'a mut std::collections::HashMap<K, V, S, A>) -> (d: std::collections::hash_map::Drain<'a, K, V, A>);
impl<K, V> IndexMap<K, V> {
    #[verifier::external_body]
    pub fn entry(&mut self, key: K) -> (e: IndexEntry<'_, K, V>)
        ensures e.key == key, *e.map == *old(self), *final(self) == *final(e.map),
    { unimplemented!() }
}
impl<'a, K, V> IndexEntry<'a, K, V> {
    // ASSUMED indexmap contract: existing value of an occupied entry, else insert the default; no other entry changes
    #[verifier::external_body]
    pub fn or_insert_with<F: FnOnce() -> V>(self, default: F) -> (r: &'a mut V)
        requires !old(self.map)@.contains_key(self.key) ==> default.requires(()),
        ensures
            old(self.map)@.contains_key(self.key) ==> *r == old(self.map)@[self.key],
            !old(self.map)@.contains_key(self.key) ==> default.ensures((), *r),
            (*final(self.map))@ == old(self.map)@.insert(self.key, *final(r)),
    { unimplemented!() }
}
impl<K, V> Default for IndexMap<K, V> {
    #[verifier::external_body]
    fn default() -> (r: Self) ensures r@ == Map::<K, V>::empty() { unimplemented!() }
}
impl<K, V> Clone for IndexMap<K, V> {
    #[verifier::external_body]
    fn clone(&self) -> (r: Self) ensures r@ == self@ { unimplemented!() }
}
#[verifier::external_body]
#[verifier::reject_recursive_types(K)]
#[verifier::reject_recursive_types(S)]
pub struct Registry<K, S> { _p: std::marker::PhantomData<(K, S)> }
#[verifier::external_body]
#[verifier::reject_recursive_types(K)]
pub struct Recency<K> { _p: std::marker::PhantomData<K> }

// ---- handles as the registry hands them out (dependency stubs, ASSUMED specs)
#[verifier::external_body] pub struct AtomicCell { _p: [u8; 0] }
impl AtomicCell {
    /// the value a load at this moment returns (the atomic's content is whatever C04's handle contracts made it)
    pub uninterp spec fn now(&self) -> u64;
    #[verifier::external_body]
    pub fn load(&self, o: Ordering) -> (r: u64) ensures r == self.now() { unimplemented!() }
}
#[verifier::external_body] pub struct Bucket { _p: [u8; 0] }
impl Bucket {
    /// ASSUMED (C05's scope, sequential reading): every sample pushed and not yet taken is handed to the callback exactly once
    #[verifier::external_body]
    pub fn clear_with<F: FnMut(&[f64])>(&self, f: F)
        requires forall|s: &[f64]| f.requires((s,)),
    { unimplemented!() }
}
#[verifier::external_body] pub struct CounterHandle { _p: [u8; 0] }
#[verifier::external_body] pub struct GaugeHandle { _p: [u8; 0] }
#[verifier::external_body] pub struct HistogramHandle { _p: [u8; 0] }
impl CounterHandle {
    pub uninterp spec fn cell(&self) -> AtomicCell;
    pub uninterp spec fn gen(&self) -> Generation;
    #[verifier::external_body] pub fn get_generation(&self) -> (r: Generation) ensures r == self.gen() { unimplemented!() }
    #[verifier::external_body] pub fn get_inner(&self) -> (r: &AtomicCell) ensures *r == self.cell() { unimplemented!() }
}
impl GaugeHandle {
    pub uninterp spec fn cell(&self) -> AtomicCell;
    pub uninterp spec fn gen(&self) -> Generation;
    #[verifier::external_body] pub fn get_generation(&self) -> (r: Generation) ensures r == self.gen() { unimplemented!() }
    #[verifier::external_body] pub fn get_inner(&self) -> (r: &AtomicCell) ensures *r == self.cell() { unimplemented!() }
}
impl HistogramHandle {
    pub uninterp spec fn gen(&self) -> Generation;
    pub uninterp spec fn get_inner_spec(&self) -> &Bucket;
    #[verifier::external_body] pub fn get_generation(&self) -> (r: Generation) ensures r == self.gen() { unimplemented!() }
    #[verifier::external_body] pub fn get_inner(&self) -> (r: &Bucket) ensures r == self.get_inner_spec() { unimplemented!() }
}
impl<S> Registry<Key, S> {
    /// the live handles at the moment of the call (C06: one per key), in the order the returned map will be iterated
    pub uninterp spec fn counter_seq(&self) -> Seq<(Key, CounterHandle)>;
    pub uninterp spec fn gauge_seq(&self) -> Seq<(Key, GaugeHandle)>;
    pub uninterp spec fn histogram_seq(&self) -> Seq<(Key, HistogramHandle)>;
    #[verifier::external_body] pub fn get_counter_handles(&self) -> (r: HashMap<Key, CounterHandle>) ensures map_order(&r) == self.counter_seq() { unimplemented!() }
    #[verifier::external_body] pub fn get_gauge_handles(&self) -> (r: HashMap<Key, GaugeHandle>) ensures map_order(&r) == self.gauge_seq() { unimplemented!() }
    #[verifier::external_body] pub fn get_histogram_handles(&self) -> (r: HashMap<Key, HistogramHandle>) ensures map_order(&r) == self.histogram_seq() { unimplemented!() }
}
impl Recency<Key> {
    pub uninterp spec fn keeps(&self, kind: int, key: &Key, gen: Generation) -> bool;
    #[verifier::external_body]
    pub fn should_store_counter<S>(&self, key: &Key, gen: Generation, registry: &Registry<Key, S>) -> (r: bool) ensures r == self.keeps(0, key, gen) { unimplemented!() }
    #[verifier::external_body]
    pub fn should_store_gauge<S>(&self, key: &Key, gen: Generation, registry: &Registry<Key, S>) -> (r: bool) ensures r == self.keeps(1, key, gen) { unimplemented!() }
    #[verifier::external_body]
    pub fn should_store_histogram<S>(&self, key: &Key, gen: Generation, registry: &Registry<Key, S>) -> (r: bool) ensures r == self.keeps(2, key, gen) { unimplemented!() }
}

/// the series identity a key renders as: (sanitised name, rendered label list) under the given default labels
pub uninterp spec fn parts_of(key: &Key, default_labels: Option<&IndexMap<String, String>>) -> (String, Vec<String>);
#[verifier::external_body]
pub fn key_to_parts(key: &Key, default_labels: Option<&IndexMap<String, String>>) -> (r: (String, Vec<String>))
    ensures r == parts_of(key, default_labels),
{ unimplemented!() }

// ------------------------------------------------------------------ what a snapshot must contain (specification)
pub type Series<V> = Map<String, Map<Vec<String>, V>>;
/// record value `v` for series (name, labels): last writer wins, nothing else changes
pub open spec fn put<V>(m: Series<V>, name: String, labels: Vec<String>, v: V) -> Series<V> {
    m.insert(name, (if m.contains_key(name) { m[name] } else { Map::<Vec<String>, V>::empty() }).insert(labels, v))
}
pub open spec fn deep<V>(h: HashMap<String, HashMap<Vec<String>, V>>) -> Series<V> {
    Map::new(h@.dom(), |k: String| h@[k]@)
}

//@ITEM file=metrics-exporter-prometheus/src/common.rs sel=struct Snapshot
//@END

//@ITEM file=metrics-exporter-prometheus/src/recorder.rs sel=struct Inner
//@END

/// removing the aggregated distribution of series (name, labels); an emptied per-name map disappears with it; nothing else changes
pub open spec fn expire_step(d0: Map<String, IndexMap<Vec<String>, Distribution>>, d1: Map<String, IndexMap<Vec<String>, Distribution>>, name: String, labels: Vec<String>) -> bool {
    if !d0.contains_key(name) { d1 == d0 } else {
        let inner = d0[name]@.remove(labels);
        if inner.dom() =~= Set::<Vec<String>>::empty() { d1 == d0.remove(name) }
        else {
            &&& d1.dom() == d0.dom()
            &&& d1[name]@ == inner
            &&& forall|k: String| k != name && d0.contains_key(k) ==> d1[k] == d0[k]
        }
    }
}

pub open spec fn drain_step(d0: Map<String, IndexMap<Vec<String>, Distribution>>, d1: Map<String, IndexMap<Vec<String>, Distribution>>,
                            name: String, labels: Vec<String>, builder: DistributionBuilder, samples: Seq<f64>) -> bool {
    let inner0 = if d0.contains_key(name) { d0[name]@ } else { Map::<Vec<String>, Distribution>::empty() };
    let dist0 = if inner0.contains_key(labels) { inner0[labels] } else { builder.fresh_for(name@) };
    &&& d1.dom() == d0.dom().insert(name)
    &&& d1[name]@ == inner0.insert(labels, recorded(dist0, samples))
    &&& forall|k: String| k != name && d0.contains_key(k) ==> d1[k] == d0[k]
}

impl Inner {
    /// the series a key is rendered as by THIS recorder: sanitised name + its labels merged over the configured global labels
    pub open spec fn series_of(&self, key: &Key) -> (String, Vec<String>) { parts_of(key, Some(&self.global_labels)) }

    /// counters section of a snapshot: every live counter the recency tracker keeps, under its series, with the value its atomic
    /// holds when it is loaded
    pub open spec fn counters_of(&self, hs: Seq<(Key, CounterHandle)>) -> Series<u64>
        decreases hs.len(),
    {
        if hs.len() == 0 { Map::empty() } else {
            let prev = self.counters_of(hs.drop_last());
            let (k, c) = hs.last();
            if self.recency.keeps(0, &k, c.gen()) { put(prev, self.series_of(&k).0, self.series_of(&k).1, c.cell().now()) } else { prev }
        }
    }
    pub open spec fn gauges_of(&self, hs: Seq<(Key, GaugeHandle)>) -> Series<f64>
        decreases hs.len(),
    {
        if hs.len() == 0 { Map::empty() } else {
            let prev = self.gauges_of(hs.drop_last());
            let (k, g) = hs.last();
            if self.recency.keeps(1, &k, g.gen()) { put(prev, self.series_of(&k).0, self.series_of(&k).1, f64_of_bits(g.cell().now())) } else { prev }
        }
    }

//@ITEM file=metrics-exporter-prometheus/src/recorder.rs sel=impl Inner :: fn drain_histograms_to_distributions
//@FORLOOP 1 it shim_map_into_iter shim_map_next
//@REWRITE R17 re:(\w+(?:\.\w+\(\))*)\.clear_with\(\|samples\| (\w+)\.record_samples\(samples\)\) ==> shim_clear_into(\1, \2)
//@REWRITE SPEC-closure re:\|\| self\.distribution_builder\.get_distribution\(name\.as_str\(\)\) ==> || -> (d: Distribution) ensures d == self.distribution_builder.fresh_for(name@) { self.distribution_builder.get_distribution(name.as_str()) }
//@SPEC
    requires obeys_key_model::<String>(), obeys_key_model::<Vec<String>>(),
//@LOOP 1
            invariant obeys_key_model::<String>(), obeys_key_model::<Vec<String>>(),
            decreases map_remaining(&it).len(),
//@AFTER 1 let mut wg = self.distributions.write()
            let ghost d0 = (*wguarded(&wg))@;
//@AFTER 1 shim_clear_into(
            // every drained sample of this key's bucket is recorded into the distribution of the series THIS key renders as
            // (created from the builder for that metric name if it did not exist); no other distribution changes
            proof { assert(drain_step(d0, (*wguarded(&wg))@, self.series_of(&key).0, self.series_of(&key).1, self.distribution_builder, pending(histogram.get_inner_spec()))); }
//@END

//@ITEM file=metrics-exporter-prometheus/src/recorder.rs sel=impl Inner :: fn get_recent_metrics ret=snap
//@FORLOOP 1 it1 shim_map_into_iter shim_map_next
//@FORLOOP 2 it2 shim_map_into_iter shim_map_next
//@FORLOOP 3 it3 shim_map_into_iter shim_map_next
//@SPEC
    requires
        obeys_key_model::<String>(), obeys_key_model::<Vec<String>>(),   // std: Hash and Eq of String / Vec<String> agree
    ensures
        deep(snap.counters) == self.counters_of(self.registry.counter_seq()),
        deep(snap.gauges) == self.gauges_of(self.registry.gauge_seq()),
//@AFTER 1 let counter_handles =
        let ghost cs = self.registry.counter_seq();
//@LOOP 1
            invariant
                obeys_key_model::<String>(), obeys_key_model::<Vec<String>>(),
                cs == self.registry.counter_seq(),
                map_remaining(&it1).len() <= cs.len(),
                map_remaining(&it1) == cs.skip(cs.len() - map_remaining(&it1).len()),
                deep(counters) =~= self.counters_of(cs.take(cs.len() - map_remaining(&it1).len())),
            ensures map_remaining(&it1).len() == 0,
            decreases map_remaining(&it1).len(),
//@BEFORE 1 let gen = counter.get_generation();
            let ghost i1 = cs.len() - map_remaining(&it1).len() - 1;
            let ghost pre1 = deep(counters);
            proof {
                assert(cs[i1] == (key, counter));
                assert(cs.take(i1 + 1).drop_last() =~= cs.take(i1));
                assert(cs.take(i1 + 1).last() == cs[i1]);
            }
//@AFTER 1 let value = counter.get_inner().load(Ordering::Acquire);
            let ghost c0 = counters@;
//@AFTER 1 *entry = value;
            proof {
                let inner0 = if c0.contains_key(name) { c0[name]@ } else { Map::<Vec<String>, u64>::empty() };
                assert(counters@.dom() =~= c0.dom().insert(name));
                assert(counters@[name]@ =~= inner0.insert(labels, value));
                assert forall|k: String| k != name && c0.contains_key(k) implies counters@[k] == c0[k] by {}
                assert(deep(counters) =~= put(pre1, self.series_of(&key).0, self.series_of(&key).1, counter.cell().now()));
            }
//@AFTERLOOP 1
        proof { assert(cs.take(cs.len() as int) =~= cs); }
//@AFTER 1 let gauge_handles =
        let ghost gs = self.registry.gauge_seq();
//@LOOP 2
            invariant
                obeys_key_model::<String>(), obeys_key_model::<Vec<String>>(),
                gs == self.registry.gauge_seq(),
                deep(counters) == self.counters_of(self.registry.counter_seq()),
                map_remaining(&it2).len() <= gs.len(),
                map_remaining(&it2) == gs.skip(gs.len() - map_remaining(&it2).len()),
                deep(gauges) =~= self.gauges_of(gs.take(gs.len() - map_remaining(&it2).len())),
            ensures map_remaining(&it2).len() == 0,
            decreases map_remaining(&it2).len(),
//@BEFORE 1 let gen = gauge.get_generation();
            let ghost i2 = gs.len() - map_remaining(&it2).len() - 1;
            let ghost pre2 = deep(gauges);
            proof {
                assert(gs[i2] == (key, gauge));
                assert(gs.take(i2 + 1).drop_last() =~= gs.take(i2));
                assert(gs.take(i2 + 1).last() == gs[i2]);
            }
//@AFTER 1 let value = f64::from_bits(gauge.get_inner().load(Ordering::Acquire));
            let ghost g0 = gauges@;
//@AFTER 2 *entry = value;
            proof {
                let inner0 = if g0.contains_key(name) { g0[name]@ } else { Map::<Vec<String>, f64>::empty() };
                assert(gauges@.dom() =~= g0.dom().insert(name));
                assert(gauges@[name]@ =~= inner0.insert(labels, value));
                assert forall|k: String| k != name && g0.contains_key(k) implies gauges@[k] == g0[k] by {}
                assert(deep(gauges) =~= put(pre2, self.series_of(&key).0, self.series_of(&key).1, f64_of_bits(gauge.cell().now())));
            }
//@AFTERLOOP 2
        proof { assert(gs.take(gs.len() as int) =~= gs); }
//@AFTER 1 let mut wg = self.distributions.write()
                let ghost d0 = (*wguarded(&wg))@;
//@BEFORE 1 if delete_by_name {
                let ghost d_mid = (*wguarded(&wg))@;
                proof {
                    assert(same_key::<String, String>(name, &name));
                    if d0.contains_key(name) {
                        assert(d_mid.dom() == d0.dom());
                        assert(d_mid[name]@ == d0[name]@.remove(labels));
                        assert(forall|k: String| k != name && d0.contains_key(k) ==> d_mid[k] == d0[k]);
                        assert(delete_by_name == (d_mid[name]@.dom() =~= Set::<Vec<String>>::empty()));
                    } else {
                        assert(d_mid == d0);
                        assert(!delete_by_name);
                    }
                }
//@BEFORE 3 continue;
                // the aggregated distribution that is dropped is the one THIS key renders as (same series identity as everywhere else)
                proof {
                    if delete_by_name { assert((*wguarded(&wg))@ == d_mid.remove(name)); assert(d_mid.remove(name) =~= d0.remove(name)); }
                    assert(expire_step(d0, (*wguarded(&wg))@, self.series_of(&key).0, self.series_of(&key).1));
                }
//@LOOP 3
            invariant
                obeys_key_model::<String>(), obeys_key_model::<Vec<String>>(),
                deep(counters) == self.counters_of(self.registry.counter_seq()),
                deep(gauges) == self.gauges_of(self.registry.gauge_seq()),
            decreases map_remaining(&it3).len(),
//@END
}


// ------------------------------------------------------------------ render(): abstract lines (specification)
/// metrics::Unit as render() sees it (opaque, Copy)
#[derive(Clone, Copy)]
pub struct RUnit { pub u: u8 }
pub enum Line {
    Help { name: Seq<char> },
    Type { name: Seq<char>, ty: Seq<char> },
    Sample { name: Seq<char>, suffix: Option<Seq<char>>, unit: Option<RUnit>, extra: Option<Seq<char>>, rest: Seq<char> },
    Blank,
}
pub mod line_axioms {
    use vstd::prelude::*;
    pub uninterp spec fn line_text(l: super::Line) -> Seq<char>;
    /// the family name HELP/TYPE print for (name, unit): formatting.rs `metric_family_name` (C08's contract)
    pub uninterp spec fn fam_spec(name: Seq<char>, unit: Option<super::RUnit>) -> Seq<char>;
    #[verifier::external_body]
    pub broadcast proof fn axiom_blank_text()
        ensures #[trigger] line_text(super::Line::Blank) == seq!['\n'],
    {
    }
    pub uninterp spec fn sample_rest<T, T2>(labels: Seq<String>, extra: Option<(&'static str, T)>, value: T2) -> Seq<char>;
}
pub use line_axioms::{line_text, fam_spec, sample_rest};
pub open spec fn text_of(tr: Seq<Line>) -> Seq<char>
    decreases tr.len(),
{
    if tr.len() == 0 { Seq::<char>::empty() } else { text_of(tr.drop_last()) + line_text(tr.last()) }
}
/// exposition structure as a scanner over the abstract lines: (HELP? TYPE SAMPLE* BLANK)*, every sample inside the family of the
/// preceding TYPE line (same family name) and carrying only a suffix / extra label a Prometheus family may have
pub enum Scan { Idle, AfterHelp { fam: Seq<char> }, InFamily { fam: Seq<char> }, Bad }
pub open spec fn sample_shape_ok(suffix: Option<Seq<char>>, extra: Option<Seq<char>>) -> bool {
    ||| (suffix is None && extra is None)                                   // counter / gauge sample
    ||| (suffix is None && extra == Some("quantile"@))                      // summary quantile
    ||| (suffix == Some("bucket"@) && extra == Some("le"@))                 // histogram bucket
    ||| ((suffix == Some("sum"@) || suffix == Some("count"@)) && extra is None)
}
pub open spec fn scan_step(st: Scan, l: Line) -> Scan {
    match (st, l) {
        (Scan::Idle, Line::Help { name }) => Scan::AfterHelp { fam: name },
        (Scan::Idle, Line::Type { name, ty }) => Scan::InFamily { fam: name },
        (Scan::AfterHelp { fam }, Line::Type { name, ty }) => if name == fam { Scan::InFamily { fam } } else { Scan::Bad },
        (Scan::InFamily { fam }, Line::Sample { name, suffix, unit, extra, rest }) =>
            if fam_spec(name, unit) == fam && sample_shape_ok(suffix, extra) { Scan::InFamily { fam } } else { Scan::Bad },
        (Scan::InFamily { fam }, Line::Blank) => Scan::Idle,
        _ => Scan::Bad,
    }
}
pub open spec fn scan(tr: Seq<Line>) -> Scan
    decreases tr.len(),
{
    if tr.len() == 0 { Scan::Idle } else { scan_step(scan(tr.drop_last()), tr.last()) }
}
pub proof fn lemma_push(tr: Seq<Line>, l: Line)
    ensures text_of(tr.push(l)) == text_of(tr) + line_text(l), scan(tr.push(l)) == scan_step(scan(tr), l),
{
    assert(tr.push(l).drop_last() =~= tr);
}

pub open spec fn opt_view(s: Option<&'static str>) -> Option<Seq<char>> { match s { Some(x) => Some(x@), None => None } }
pub open spec fn extra_name<T>(e: Option<(&'static str, T)>) -> Option<Seq<char>> { match e { Some((n, _)) => Some(n@), None => None } }

// formatting.rs functions as their C08 contracts say, abstracted to whole lines (ASSUMED here, PROVED in the C08 check)
#[verifier::external_body]
pub fn write_help_line(buffer: &mut String, name: &str, desc: &SharedString)
    ensures final(buffer)@ == old(buffer)@ + line_text(Line::Help { name: name@ }),
{ unimplemented!() }
#[verifier::external_body]
pub fn write_type_line(buffer: &mut String, name: &str, metric_type: &str)
    ensures final(buffer)@ == old(buffer)@ + line_text(Line::Type { name: name@, ty: metric_type@ }),
{ unimplemented!() }
#[verifier::external_body]
pub fn write_metric_line<T, T2>(buffer: &mut String, name: &str, suffix: Option<&'static str>, labels: &[String],
                                additional_label: Option<(&'static str, T)>, value: T2, unit: Option<RUnit>)
    ensures exists|rest: Seq<char>| final(buffer)@ == old(buffer)@ + #[trigger] line_text(Line::Sample { name: name@, suffix: opt_view(suffix), unit: unit,
                extra: extra_name(additional_label), rest: rest }),
{ unimplemented!() }
#[verifier::external_body]
pub fn metric_family_name(name: &str, unit: Option<RUnit>) -> (r: String)
    ensures r@ == fam_spec(name@, unit),
{ unimplemented!() }

impl Inner {
//@ITEM file=metrics-exporter-prometheus/src/recorder.rs sel=impl Inner :: fn render ret=out
//@REWRITE SPEC-closure re:description\.and_then\(\|\(_, unit\)\| \*unit\)\.filter\(\|_\| self\.enable_unit_suffix\) ==> description.and_then(|du: &(SharedString, Option<Unit>)| -> (u: Option<Unit>) ensures u == du.1 { du.1 }).filter(|fu: &Unit| -> (b: bool) ensures b == self.enable_unit_suffix { self.enable_unit_suffix })
//@FORLOOP 1 o1 shim_same shim_hdrain_next
//@FORLOOP 2 i1 shim_same shim_hdrain_next
//@FORLOOP 3 o2 shim_same shim_hdrain_next
//@FORLOOP 4 i2 shim_same shim_hdrain_next
//@FORLOOP 5 o3 shim_same shim_hdrain_next
//@FORLOOP 6 i3 shim_same shim_idrain_next
//@SPEC
    requires obeys_key_model::<String>(), obeys_key_model::<Vec<String>>(),
    ensures
        // the output is (HELP? TYPE SAMPLE* blank)* with every sample inside the family its TYPE line declares
        exists|tr: Seq<Line>| out@ == text_of(tr) && scan(tr) is Idle,
//@AFTER 1 let mut output = String::new();
        let ghost mut tr: Seq<Line> = Seq::empty();
//@LOOP 1
            invariant output@ == text_of(tr), scan(tr) is Idle,
            decreases hdrain_remaining(&o1).len(),
//@LOOP 2
                invariant output@ == text_of(tr), scan(tr) == (Scan::InFamily { fam: fam_spec(name@, unit) }),
                decreases hdrain_remaining(&i1).len(),
//@LOOP 3
            invariant output@ == text_of(tr), scan(tr) is Idle,
            decreases hdrain_remaining(&o2).len(),
//@LOOP 4
                invariant output@ == text_of(tr), scan(tr) == (Scan::InFamily { fam: fam_spec(name@, unit) }),
                decreases hdrain_remaining(&i2).len(),
//@LOOP 5
            invariant output@ == text_of(tr), scan(tr) is Idle,
            decreases hdrain_remaining(&o3).len(),
//@LOOP 6
                invariant output@ == text_of(tr), scan(tr) == (Scan::InFamily { fam: fam_spec(name@, unit) }),
                decreases idrain_remaining(&i3).len(),
//@LOOP 7
                            invariant output@ == text_of(tr), scan(tr) == (Scan::InFamily { fam: fam_spec(name@, unit) }),
//@LOOP 8
                        invariant output@ == text_of(tr), scan(tr) == (Scan::InFamily { fam: fam_spec(name@, unit) }),
//@AFTER 1 stmt:write_help_line(
                proof { lemma_push(tr, Line::Help { name: fam_spec(name@, unit) }); tr = tr.push(Line::Help { name: fam_spec(name@, unit) }); }
//@AFTER 2 stmt:write_help_line(
                proof { lemma_push(tr, Line::Help { name: fam_spec(name@, unit) }); tr = tr.push(Line::Help { name: fam_spec(name@, unit) }); }
//@AFTER 3 stmt:write_help_line(
                proof { lemma_push(tr, Line::Help { name: fam_spec(name@, unit) }); tr = tr.push(Line::Help { name: fam_spec(name@, unit) }); }
//@AFTER 1 stmt:write_type_line(
            proof { let l = Line::Type { name: fam_spec(name@, unit), ty: "counter"@ }; lemma_push(tr, l); tr = tr.push(l); }
//@AFTER 2 stmt:write_type_line(
            proof { let l = Line::Type { name: fam_spec(name@, unit), ty: "gauge"@ }; lemma_push(tr, l); tr = tr.push(l); }
//@AFTER 3 stmt:write_type_line(
            proof {
                // the TYPE of a distribution family is decided by the metric's own (bare) name -- the name its distributions were built for
                assert(distribution_type@ == self.distribution_builder.dist_type(name@));
                let l = Line::Type { name: fam_spec(name@, unit), ty: distribution_type@ }; lemma_push(tr, l); tr = tr.push(l);
            }
//@AFTER 1 stmt:write_metric_line
                proof {
                    let o0 = text_of(tr);
                    let rest = choose|rest: Seq<char>| output@ == o0 + #[trigger] line_text(Line::Sample { name: name@, suffix: None::<Seq<char>>, unit: unit, extra: None::<Seq<char>>, rest: rest });
                    let l = Line::Sample { name: name@, suffix: None::<Seq<char>>, unit: unit, extra: None::<Seq<char>>, rest: rest };
                    assert(output@ == o0 + line_text(l));
                    lemma_push(tr, l); tr = tr.push(l);
                }
//@AFTER 2 stmt:write_metric_line
                proof {
                    let o0 = text_of(tr);
                    let rest = choose|rest: Seq<char>| output@ == o0 + #[trigger] line_text(Line::Sample { name: name@, suffix: None::<Seq<char>>, unit: unit, extra: None::<Seq<char>>, rest: rest });
                    let l = Line::Sample { name: name@, suffix: None::<Seq<char>>, unit: unit, extra: None::<Seq<char>>, rest: rest };
                    assert(output@ == o0 + line_text(l));
                    lemma_push(tr, l); tr = tr.push(l);
                }
//@AFTER 3 stmt:write_metric_line
                proof {
                    let o0 = text_of(tr);
                    let rest = choose|rest: Seq<char>| output@ == o0 + #[trigger] line_text(Line::Sample { name: name@, suffix: None::<Seq<char>>, unit: unit, extra: Some("quantile"@), rest: rest });
                    let l = Line::Sample { name: name@, suffix: None::<Seq<char>>, unit: unit, extra: Some("quantile"@), rest: rest };
                    assert(output@ == o0 + line_text(l));
                    lemma_push(tr, l); tr = tr.push(l);
                }
//@AFTER 4 stmt:write_metric_line
                proof {
                    let o0 = text_of(tr);
                    let rest = choose|rest: Seq<char>| output@ == o0 + #[trigger] line_text(Line::Sample { name: name@, suffix: Some("bucket"@), unit: unit, extra: Some("le"@), rest: rest });
                    let l = Line::Sample { name: name@, suffix: Some("bucket"@), unit: unit, extra: Some("le"@), rest: rest };
                    assert(output@ == o0 + line_text(l));
                    lemma_push(tr, l); tr = tr.push(l);
                }
//@AFTER 5 stmt:write_metric_line
                proof {
                    let o0 = text_of(tr);
                    let rest = choose|rest: Seq<char>| output@ == o0 + #[trigger] line_text(Line::Sample { name: name@, suffix: Some("bucket"@), unit: unit, extra: Some("le"@), rest: rest });
                    let l = Line::Sample { name: name@, suffix: Some("bucket"@), unit: unit, extra: Some("le"@), rest: rest };
                    assert(output@ == o0 + line_text(l));
                    lemma_push(tr, l); tr = tr.push(l);
                }
//@AFTER 6 stmt:write_metric_line
                proof {
                    let o0 = text_of(tr);
                    let rest = choose|rest: Seq<char>| output@ == o0 + #[trigger] line_text(Line::Sample { name: name@, suffix: Some("sum"@), unit: unit, extra: None::<Seq<char>>, rest: rest });
                    let l = Line::Sample { name: name@, suffix: Some("sum"@), unit: unit, extra: None::<Seq<char>>, rest: rest };
                    assert(output@ == o0 + line_text(l));
                    lemma_push(tr, l); tr = tr.push(l);
                }
//@AFTER 7 stmt:write_metric_line
                proof {
                    let o0 = text_of(tr);
                    let rest = choose|rest: Seq<char>| output@ == o0 + #[trigger] line_text(Line::Sample { name: name@, suffix: Some("count"@), unit: unit, extra: None::<Seq<char>>, rest: rest });
                    let l = Line::Sample { name: name@, suffix: Some("count"@), unit: unit, extra: None::<Seq<char>>, rest: rest };
                    assert(output@ == o0 + line_text(l));
                    lemma_push(tr, l); tr = tr.push(l);
                }
//@AFTER 1 output.push('\n');
            proof { lemma_push(tr, Line::Blank); tr = tr.push(Line::Blank); assert(output@ =~= text_of(tr)); }
//@AFTER 2 output.push('\n');
            proof { lemma_push(tr, Line::Blank); tr = tr.push(Line::Blank); assert(output@ =~= text_of(tr)); }
//@AFTER 3 output.push('\n');
            proof { lemma_push(tr, Line::Blank); tr = tr.push(Line::Blank); assert(output@ =~= text_of(tr)); }
//@END
}

#[verifier::external_body] pub struct KeyName { _p: [u8; 0] }
impl KeyName {
    #[verifier::external_body] pub fn as_str(&self) -> &str { unimplemented!() }
}
pub uninterp spec fn sanitized_name(s: Seq<char>) -> String;
#[verifier::external_body]
pub fn sanitize_metric_name(name: &str) -> (r: String) ensures r == sanitized_name(name@) { unimplemented!() }

//@ITEM file=metrics-exporter-prometheus/src/recorder.rs sel=struct PrometheusRecorder
//@REWRITE stub-arc Arc<Inner> ==> std::sync::Arc<Inner>
//@END

impl PrometheusRecorder {
//@ITEM file=metrics-exporter-prometheus/src/recorder.rs sel=impl PrometheusRecorder :: fn add_description_if_missing
//@SPEC
    requires obeys_key_model::<String>(),
//@AFTER 1 self.inner.descriptions.write().unwrap_or_else(PoisonError::into_inner);
        let ghost m0 = (*wguarded(&descriptions))@;
//@AFTER 1 stmt:descriptions.entry(
        // HELP shows the FIRST description given for a (sanitised) name: an existing entry is never replaced
        proof {
            let m1 = (*wguarded(&descriptions))@;
            assert(m0.contains_key(sanitized) ==> m1 == m0);
            assert(!m0.contains_key(sanitized) ==> m1 == m0.insert(sanitized, (description, unit)));
        }
//@END
}

} // verus!
fn main() {}
