// Hand-derived from the contract of `Inner::render` / `drain_histograms_to_distributions` ("each counter series shows the total
// of its increments; for each histogram series the cumulative _count equals the number of samples ever recorded under that key
// and _sum their sum, every sample counted exactly once however record(), render() and run_upkeep() are interleaved"):
// concrete runs with values a float cannot carry and with more samples than one storage block holds.
use super::*;
use crate::PrometheusBuilder;
use metrics::{Key, Level, Metadata, Recorder};

static W_METADATA: Metadata<'static> = Metadata::new("w", Level::INFO, None);

fn line_value(rendered: &str, series: &str) -> String {
    rendered.lines().find_map(|l| l.strip_prefix(series).and_then(|r| r.strip_prefix(' '))).unwrap_or_else(|| panic!("no line `{series}` in:\n{rendered}")).to_string()
}

#[test]
fn counters_are_rendered_exactly() {
    let recorder = PrometheusBuilder::new().build_recorder();
    let c = recorder.register_counter(&Key::from_name("big"), &W_METADATA);
    c.increment((1u64 << 53) + 1);
    c.increment(2);
    assert_eq!(line_value(&recorder.handle().render(), "big"), "9007199254740995");
    c.absolute(u64::MAX - 1);
    assert_eq!(line_value(&recorder.handle().render(), "big"), "18446744073709551614");
}

#[test]
fn every_sample_is_counted_once_across_blocks_renders_and_upkeep() {
    let recorder = PrometheusBuilder::new().set_buckets(&[10.0, 100.0]).unwrap().build_recorder();
    let handle = recorder.handle();
    let h = recorder.register_histogram(&Key::from_name("h"), &W_METADATA);
    for i in 0..200 { h.record((i % 150) as f64); }          // several storage blocks in one drain
    let r1 = handle.render();
    assert_eq!(line_value(&r1, "h_count"), "200");
    assert_eq!(line_value(&r1, "h_bucket{le=\"10\"}"), "22");   // 0..=10 from both passes: 11 + 11
    assert_eq!(line_value(&r1, "h_bucket{le=\"+Inf\"}"), "200");
    h.record(5.0);
    handle.run_upkeep();
    for _ in 0..70 { h.record(50.0); }
    let r2 = handle.render();
    let r3 = handle.render();
    assert_eq!(line_value(&r2, "h_count"), "271");
    assert_eq!(line_value(&r3, "h_count"), "271");
    assert_eq!(line_value(&r2, "h_bucket{le=\"10\"}"), "23");
    assert_eq!(line_value(&r2, "h_bucket{le=\"100\"}"), "222"); // 101+50 = 151 <=100 in the first 200, +1 +70
    let sum: f64 = line_value(&r2, "h_sum").parse().unwrap();
    let expect: f64 = (0..200).map(|i| (i % 150) as f64).sum::<f64>() + 5.0 + 70.0 * 50.0;
    assert_eq!(sum, expect);
}
