// C08 — character classes and name sanitisers of metrics-exporter-prometheus/src/formatting.rs
use super::*;

// complete over all `char` values (the whole 21-bit scalar domain): each predicate is exactly its Prometheus class
pub fn c08_char_classes_body(c: char) {
    let lower = ('a'..='z').contains(&c);
    let upper = ('A'..='Z').contains(&c);
    let digit = ('0'..='9').contains(&c);
    assert!(valid_metric_name_start_character(c) == (lower || upper || c == '_' || c == ':'));
    assert!(valid_metric_name_character(c) == (lower || upper || digit || c == '_' || c == ':'));
    assert!(valid_label_key_start_character(c) == (lower || upper || c == '_'));
    assert!(valid_label_key_character(c) == (lower || upper || digit || c == '_'));
    kani::cover!(c == 'é');
    kani::cover!(c == ':');
}
#[cfg(kani)]
#[kani::proof]
fn c08_char_classes() {
    c08_char_classes_body(kani::any());
}

fn ascii3(a: u8, b: u8, c: u8, n: u8) -> ([u8; 3], usize) {
    kani::assume(a < 128 && b < 128 && c < 128);
    kani::assume(n >= 1 && n <= 3);
    ([a, b, c], n as usize)
}

// bounded(<= 3 ASCII chars): same length, first char in the start class, the rest in the continue class, valid input unchanged
pub fn c08_sanitize_metric_name_body(a: u8, b: u8, c: u8, n: u8) {
    let (buf, n) = ascii3(a, b, c, n);
    let s = core::str::from_utf8(&buf[..n]).unwrap();
    let out = sanitize_metric_name(s);
    let ob = out.as_bytes();
    assert!(ob.len() == n);
    let mut i = 0;
    while i < n {
        let ch = buf[i] as char;
        let ok = if i == 0 { valid_metric_name_start_character(ch) } else { valid_metric_name_character(ch) };
        assert!(ob[i] == if ok { buf[i] } else { b'_' });
        i += 1;
    }
    kani::cover!(n >= 2 && ob[0] == b'_' && ob[1] == b'9');
}
#[cfg(kani)]
#[kani::proof]
#[kani::unwind(5)]
fn c08_sanitize_metric_name() {
    c08_sanitize_metric_name_body(kani::any(), kani::any(), kani::any(), kani::any());
}

pub fn c08_sanitize_label_key_body(a: u8, b: u8, c: u8, n: u8) {
    let (buf, n) = ascii3(a, b, c, n);
    let s = core::str::from_utf8(&buf[..n]).unwrap();
    let out = sanitize_label_key(s);
    let ob = out.as_bytes();
    assert!(ob.len() == n);
    let mut i = 0;
    while i < n {
        let ch = buf[i] as char;
        let ok = if i == 0 { valid_label_key_start_character(ch) } else { valid_label_key_character(ch) };
        assert!(ob[i] == if ok { buf[i] } else { b'_' });
        i += 1;
    }
    kani::cover!(n == 2 && ob[1] == b'_');
}
#[cfg(kani)]
#[kani::proof]
#[kani::unwind(5)]
fn c08_sanitize_label_key() {
    c08_sanitize_label_key_body(kani::any(), kani::any(), kani::any(), kani::any());
}

// quick-tier variants: at most 2 ASCII chars (position 0 and a continuation position)
#[cfg(kani)]
#[kani::proof]
#[kani::unwind(4)]
fn c08_sanitize_metric_name_2() {
    let n: u8 = kani::any();
    kani::assume(n <= 2);
    c08_sanitize_metric_name_body(kani::any(), kani::any(), 0x41, n);
}
#[cfg(kani)]
#[kani::proof]
#[kani::unwind(4)]
fn c08_sanitize_label_key_2() {
    let n: u8 = kani::any();
    kani::assume(n <= 2);
    c08_sanitize_label_key_body(kani::any(), kani::any(), 0x41, n);
}
