// C08 — Verus contracts for metrics-exporter-prometheus/src/formatting.rs
// //@ITEM blocks are replaced on every run by the item's text taken verbatim from /repo's working tree.
#![allow(unused_imports, dead_code, unused_variables, unused_mut)]
use vstd::prelude::*;
use vstd::string::*;

verus! {

global size_of usize == 8;

//@INCLUDE prelude/std_extra.rs

// ASSUMED std contract: an empty string (capacity is not observable)
pub assume_specification[ String::with_capacity ](n: usize) -> (s: String)
    ensures s@ == Seq::<char>::empty();

// ------------------------------------------------------------------ escaping grammar (specification)
/// The text after position `i` parses, left to right, as a sequence of units:
///   `\\` | `\n` (backslash, letter n) | `\"` (label values only) | any single char other than backslash, LF and (in label values) `"`.
/// Hence: no raw line feed, every backslash starts a two-char escape, and in a label value no unescaped double quote.
pub open spec fn units_from(s: Seq<char>, i: int, is_desc: bool) -> bool
    decreases s.len() - i,
{
    if i >= s.len() {
        i == s.len()
    } else if s[i] == '\\' {
        i + 1 < s.len() && (s[i + 1] == '\\' || s[i + 1] == 'n' || (!is_desc && s[i + 1] == '"')) && units_from(s, i + 2, is_desc)
    } else {
        s[i] != '\n' && (is_desc || s[i] != '"') && units_from(s, i + 1, is_desc)
    }
}

pub open spec fn is_unit(u: Seq<char>, is_desc: bool) -> bool {
    ||| (u.len() == 2 && u[0] == '\\' && (u[1] == '\\' || u[1] == 'n' || (!is_desc && u[1] == '"')))
    ||| (u.len() == 1 && u[0] != '\\' && u[0] != '\n' && (is_desc || u[0] != '"'))
}

/// appending one whole unit to well-formed text keeps it well-formed (induction over the parse position)
pub proof fn lemma_append_unit(s: Seq<char>, u: Seq<char>, i: int, is_desc: bool)
    requires 0 <= i <= s.len(), units_from(s, i, is_desc), is_unit(u, is_desc),
    ensures units_from(s + u, i, is_desc),
    decreases s.len() - i,
{
    let t = s + u;
    if i == s.len() {
        if u.len() == 2 {
            assert(t[i] == u[0] && t[i + 1] == u[1]);
            assert(units_from(t, i + 2, is_desc));
        } else {
            assert(t[i] == u[0]);
            assert(units_from(t, i + 1, is_desc));
        }
    } else if s[i] == '\\' {
        assert(t[i] == s[i] && t[i + 1] == s[i + 1]);
        lemma_append_unit(s, u, i + 2, is_desc);
    } else {
        assert(t[i] == s[i]);
        lemma_append_unit(s, u, i + 1, is_desc);
    }
}

//@ITEM file=metrics-exporter-prometheus/src/formatting.rs sel=fn sanitize_label_value_or_description ret=out
//@SPEC
    ensures units_from(out@, 0, is_desc),
//@LOOP 1
        invariant units_from(sanitized@, 0, is_desc),
//@BEFORE 1 match c {
        let ghost s0 = sanitized@;
//@LOOPEND 1
        proof {
            reveal_strlit("\\n"); reveal_strlit("\\\""); reveal_strlit("\\\\");
            let added = sanitized@.subrange(s0.len() as int, sanitized@.len() as int);
            assert(sanitized@ =~= s0 + added);
            if added.len() == 1 || added.len() == 2 {
                lemma_append_unit(s0, added, 0, is_desc);
            } else if added.len() == 3 {
                let u1 = added.subrange(0, 2);
                let u2 = added.subrange(2, 3);
                lemma_append_unit(s0, u1, 0, is_desc);
                lemma_append_unit(s0 + u1, u2, 0, is_desc);
                assert(s0 + u1 + u2 =~= sanitized@);
            }
        }
//@AFTERLOOP 1
    let ghost s1 = sanitized@;
//@BEFORE 1 =sanitized
    proof {
        reveal_strlit("\\\\");
        let added = sanitized@.subrange(s1.len() as int, sanitized@.len() as int);
        assert(sanitized@ =~= s1 + added);
        if added.len() == 2 { lemma_append_unit(s1, added, 0, is_desc); }
    }
//@END


//@ITEM file=metrics-exporter-prometheus/src/formatting.rs sel=fn sanitize_label_value ret=out
//@SPEC
    ensures units_from(out@, 0, false),
//@END

//@ITEM file=metrics-exporter-prometheus/src/formatting.rs sel=fn sanitize_description ret=out
//@SPEC
    ensures units_from(out@, 0, true),
//@END

// ------------------------------------------------------------------ line composition (specification)
/// metrics::Unit (dependency stub): only Count and Percent are special-cased by the code under contract
#[derive(Clone, Copy)]
pub enum Unit { Count, Percent, Other(u8) }
impl Unit {
    pub uninterp spec fn str_of(&self) -> Seq<char>;
    #[verifier::external_body]
    pub fn as_str(&self) -> (r: &'static str) ensures r@ == self.str_of() { unimplemented!() }
}

/// text rendering of a Display value (uninterpreted: number formatting is std's contract)
pub uninterp spec fn display<T>(v: &T) -> Seq<char>;
// R11: `E.to_string()` (ToString is a blanket impl over Display: no assume_specification possible) -> `shim_to_string(&E)`
#[verifier::external_body]
pub fn shim_to_string<T: std::fmt::Display>(v: &T) -> (r: String)
    ensures r@ == display(v),
{
    v.to_string()
}

pub open spec fn unit_suffix(unit: Option<Unit>) -> Seq<char> {
    match unit {
        None => Seq::<char>::empty(),
        Some(Unit::Count) => Seq::<char>::empty(),
        Some(Unit::Percent) => seq!['_', 'r', 'a', 't', 'i', 'o'],
        Some(u) => seq!['_'] + u.str_of(),
    }
}

/// the name of the metric family: what the TYPE / HELP lines must print for this (name, unit)
pub open spec fn family_name(name: Seq<char>, unit: Option<Unit>) -> Seq<char> { name + unit_suffix(unit) }

/// a sample's name is the family name, or the family name plus `_<suffix>` (bucket / sum / count)
pub open spec fn sample_name(name: Seq<char>, suffix: Option<&'static str>, unit: Option<Unit>) -> Seq<char> {
    family_name(name, unit) + (match suffix { Some(s) => seq!['_'] + s@, None => Seq::<char>::empty() })
}

pub open spec fn join_labels(labels: Seq<String>) -> Seq<char>
    decreases labels.len(),
{
    if labels.len() == 0 { Seq::<char>::empty() }
    else if labels.len() == 1 { labels[0]@ }
    else { join_labels(labels.drop_last()) + seq![','] + labels.last()@ }
}

pub open spec fn labels_block<T>(labels: Seq<String>, extra: Option<(&'static str, T)>) -> Seq<char> {
    if labels.len() == 0 && extra is None { Seq::<char>::empty() }
    else {
        seq!['{'] + join_labels(labels)
        + (match extra {
            Some((n, v)) => (if labels.len() > 0 { seq![','] } else { Seq::<char>::empty() }) + n@ + seq!['=', '"'] + display(&v) + seq!['"'],
            None => Seq::<char>::empty(),
        })
        + seq!['}']
    }
}

//@ITEM file=metrics-exporter-prometheus/src/formatting.rs sel=fn write_type_line
//@SPEC
    ensures final(buffer)@ == old(buffer)@ + seq!['#', ' ', 'T', 'Y', 'P', 'E', ' '] + name@ + seq![' '] + metric_type@ + seq!['\n'],
//@BEFORE 1 buffer.push_str("# TYPE ");
    proof { reveal_strlit("# TYPE "); }
//@END

//@ITEM file=metrics-exporter-prometheus/src/formatting.rs sel=fn write_help_line
//@SPEC
    ensures exists|d: Seq<char>| units_from(d, 0, true)
        && final(buffer)@ == old(buffer)@ + seq!['#', ' ', 'H', 'E', 'L', 'P', ' '] + name@ + seq![' '] + d + seq!['\n'],
//@BEFORE 1 buffer.push_str("# HELP ");
    proof { reveal_strlit("# HELP "); }
//@END

//@IF file=metrics-exporter-prometheus/src/formatting.rs sel=file contains=fn write_unit_suffix
//@ITEM file=metrics-exporter-prometheus/src/formatting.rs sel=fn write_unit_suffix
//@SPEC
    ensures final(buffer)@ == old(buffer)@ + unit_suffix(unit),
//@BEFORE 1 match unit {
    proof { reveal_strlit("ratio"); }
//@END

//@ITEM file=metrics-exporter-prometheus/src/formatting.rs sel=fn metric_family_name ret=r
//@SPEC
    // what HELP / TYPE print for (name, unit) is exactly the family name that write_metric_line's sample names extend
    ensures r@ == family_name(name@, unit),
//@END
//@ENDIF

//@ITEM file=metrics-exporter-prometheus/src/formatting.rs sel=fn write_metric_line
//@REWRITE for-iter-name re:for label in labels \{ ==> for label in iter: labels {
//@REWRITE R11 re:\bvalue\.to_string\(\) ==> shim_to_string(&value)
//@SPEC
    ensures
        final(buffer)@ == old(buffer)@ + sample_name(name@, suffix, unit) + labels_block(labels@, additional_label) + seq![' '] + display(&value) + seq!['\n'],
//@BEFORE 1 if !labels.is_empty() || additional_label.is_some() {
    proof {
        reveal_strlit("ratio");
        assert(buffer@ =~= old(buffer)@ + sample_name(name@, suffix, unit));
    }
    let ghost b0 = buffer@;
//@LOOP 1
            invariant
                iter.seq() == labels@.as_ref(),
                first == (iter.index == 0),
                buffer@ == b0 + seq!['{'] + join_labels(labels@.take(iter.index as int)),
//@BEFORE 1 if first {
            proof {
                let i = iter.index as int;
                assert(labels@.take(i + 1).drop_last() =~= labels@.take(i));
                assert(labels@.take(i + 1).last() == *label);
            }
//@BEFORE 1 if let Some((name, value)) = additional_label {
        proof { assert(labels@.take(labels@.len() as int) =~= labels@); }
        let ghost b1 = buffer@;
//@BEFORE 1 buffer.push('}');
        proof {
            reveal_strlit("=\"");
        }
//@BEFORE 1 buffer.push(' ');
    proof { assert(buffer@ =~= b0 + labels_block(labels@, additional_label)); }
//@END

} // verus!
fn main() {}
