PLAN = {
    "property": "C08",
    "level": "proof",
    "manifest": {
        "technique": "Verus (z3) on formatting.rs items extracted verbatim: escape-unit grammar of the label-value/description sanitiser and line composition of write_{help,type,metric}_line, unbounded in the strings; Kani complete harnesses for the four character classes, bounded ASCII harness for the name sanitisers",
        "text": "For ALL Unicode strings the escaped output of sanitize_label_value / sanitize_description parses as a sequence of escape units (no raw LF, every backslash starts a valid two-char escape, no unescaped quote in label values) -- proved with a loop invariant on the real loop; write_type_line / write_help_line / write_metric_line are proved to emit exactly `name [unit-suffix] [_suffix] [{labels}] value LF` with the sample name = family name (+ allowed suffix), for every unit, suffix, label list and extra label.",
        "note": "Assumed: vstd String/char specs; number formatting (Display) uninterpreted; metrics::Unit::as_str uninterpreted; name sanitisers (iterator chains) only bounded (<=3 ASCII chars) plus complete char classes; render()'s HELP/TYPE/sample structure is proved over abstract lines (recorder.verus.rs) with the formatting functions as stubs carrying the contracts proved in formatting.verus.rs.",
    },
    "min_obligations": {"quick": 20, "thorough": 20},
    "assumptions": [
        "vstd specifications of String::{push, push_str}, str::chars, slices; String::with_capacity yields an empty string (assumed)",
        "R11: Display::to_string rendering is an uninterpreted function of the value (number formatting is std's)",
        "metrics::Unit is stubbed by {Count, Percent, Other}; as_str is uninterpreted",
        "render(): drains of std HashMap / IndexMap yield some sequence of entries (typed shims); that two families never share a sanitised name is the property's own precondition",
        "usize is 64 bit",
    ],
    "verus": [
        {"template": "formatting.verus.rs", "tier": "quick", "rlimit": 60, "min_functions": 12},
        # render(): (HELP? TYPE SAMPLE* blank)* structure, every sample inside its TYPE line's family, distribution TYPE decided by the
        # bare metric name -- over the formatting.rs line contracts proved above (shared template with C07)
        {"template": "../C07/recorder.verus.rs", "tier": "quick", "rlimit": 60, "min_functions": 5},
        # key_to_parts: every label name is the sanitised name (shared template with C07) -- the call glue between the record path and
        # the sanitisers checked by Kani below
        {"template": "../C07/labels.verus.rs", "tier": "quick", "rlimit": 40, "min_functions": 1},
    ],
    "kani": [{
        "crate": "metrics-exporter-prometheus", "cargo_args": ["--no-default-features"], "parallel": 3, "build_timeout": 3000,
        "modules": [{"file": "metrics-exporter-prometheus/src/formatting.rs", "mod": "__verif_c08", "src": "chars.kani.rs"}],
        "functions": [{"item": "valid_metric_name_start_character, valid_metric_name_character, valid_label_key_start_character, valid_label_key_character, sanitize_metric_name, sanitize_label_key", "file": "metrics-exporter-prometheus/src/formatting.rs"}],
        "harnesses": [
            {"name": "c08_char_classes", "obligation": "C08/kani/c08_char_classes", "clause": "each valid_* predicate == its Prometheus character class, for every char", "kind": "complete", "tier": "quick", "timeout": 900, "replay": True, "covers": 2},
            {"name": "c08_sanitize_metric_name", "obligation": "C08/kani/c08_sanitize_metric_name", "clause": "same length; position 0 in start class else '_'; others in continue class else '_'", "kind": "bounded", "bound": "1..=3 ASCII chars", "tier": "thorough", "timeout": 1200, "replay": True, "covers": 1},
            {"name": "c08_sanitize_metric_name_2", "obligation": "C08/kani/c08_sanitize_metric_name_2", "clause": "same as c08_sanitize_metric_name", "kind": "bounded", "bound": "1..=2 ASCII chars", "tier": "quick", "timeout": 900, "replay": False, "covers": 1},
            {"name": "c08_sanitize_label_key_2", "obligation": "C08/kani/c08_sanitize_label_key_2", "clause": "same as c08_sanitize_label_key", "kind": "bounded", "bound": "1..=2 ASCII chars", "tier": "quick", "timeout": 900, "replay": False, "covers": 1},
            {"name": "c08_sanitize_label_key", "obligation": "C08/kani/c08_sanitize_label_key", "clause": "same length; position 0 in start class else '_'; others in continue class else '_'", "kind": "bounded", "bound": "1..=3 ASCII chars", "tier": "thorough", "timeout": 1200, "replay": True, "covers": 1},
        ],
    }],
    "witnesses": [
        {"match": r"write_metric_line", "src": "witness_unit_suffix.rs", "crate": "metrics-exporter-prometheus",
         "file": "metrics-exporter-prometheus/src/formatting.rs"},
        {"match": r"(fn render|recorder\.verus)", "name": "impl Inner :: fn render", "src": "witness_render_families.rs", "crate": "metrics-exporter-prometheus",
         "file": "metrics-exporter-prometheus/src/recorder.rs"},
        {"match": r"(fn key_to_parts|labels\.verus)", "name": "fn key_to_parts", "src": "witness_label_names.rs", "crate": "metrics-exporter-prometheus",
         "file": "metrics-exporter-prometheus/src/formatting.rs"},
    ],
}
