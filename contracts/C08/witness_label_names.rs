// Hand-derived from the contract of `key_to_parts` / the label clause of C08 ("metric and label names match the Prometheus
// grammar; label values are escaped so that no quote, backslash or newline can end a value early"): the real function on label
// keys and values that need every kind of repair.
use super::*;
use metrics::{Key, Label};

fn is_label_name(s: &str) -> bool {
    let mut cs = s.chars();
    matches!(cs.next(), Some(c) if c.is_ascii_alphabetic() || c == '_') && cs.all(|c| c.is_ascii_alphanumeric() || c == '_')
}

#[test]
fn rendered_labels_have_grammatical_names_and_escaped_values() {
    let keys = ["ok", "1abc", "9", "has space", "dash-ed", "ünï", "a.b", "_x", "x1", "1_", "0a0"];
    let values = ["plain", "quo\"te", "back\\slash", "new\nline", "\\\"", ""];
    for k in keys {
        for v in values {
            let key = Key::from_parts("m", vec![Label::new(k.to_string(), v.to_string())]);
            let (_name, labels) = key_to_parts(&key, None);
            assert_eq!(labels.len(), 1);
            let l = &labels[0];
            let (lname, rest) = l.split_once("=\"").unwrap_or_else(|| panic!("not name=\"value\": {l}"));
            assert!(is_label_name(lname), "label key {k:?} rendered as {lname:?}, which is not a Prometheus label name");
            assert!(rest.ends_with('"'));
            let inner = &rest[..rest.len() - 1];
            // no raw newline, and every quote / backslash inside the value is part of an escape
            assert!(!inner.contains('\n'), "raw newline in {l:?}");
            let mut cs = inner.chars();
            let mut decoded = String::new();
            while let Some(c) = cs.next() {
                match c {
                    '\\' => match cs.next() { Some('\\') => decoded.push('\\'), Some('"') => decoded.push('"'), Some('n') => decoded.push('\n'),
                                              other => panic!("dangling or unknown escape \\{other:?} in {l:?}") },
                    '"' => panic!("unescaped quote inside the value of {l:?}"),
                    c => decoded.push(c),
                }
            }
            // (the sanitiser keeps an already escaped sequence in the input as it is, so only backslash-free values round-trip)
            if !v.contains('\\') { assert_eq!(decoded, v, "the escaped value decodes back to what was given"); }
        }
    }
}
