// Hand-derived from the family clauses of C08 on `Inner::render` ("each family has exactly one TYPE line which precedes its
// samples, every sample name is the family name or the family name plus a suffix allowed for its type"): the real renderer on
// configurations that mix unit suffixes, per-metric bucket overrides, global buckets and summaries.
use super::*;
use crate::{Matcher, PrometheusBuilder};
use metrics::{Key, Level, Metadata, Recorder, Unit};

static W_META: Metadata<'static> = Metadata::new("w", Level::INFO, None);

fn check_exposition(text: &str) {
    let mut types: Vec<(String, String)> = Vec::new();           // (family, type) in order of appearance
    let mut current: Option<(String, String)> = None;
    for line in text.lines() {
        if line.is_empty() { continue; }
        if let Some(rest) = line.strip_prefix("# TYPE ") {
            let mut it = rest.split(' ');
            let (fam, ty) = (it.next().unwrap().to_string(), it.next().unwrap().to_string());
            assert!(!types.iter().any(|(f, _)| *f == fam), "family {fam} has two TYPE lines");
            types.push((fam.clone(), ty.clone()));
            current = Some((fam, ty));
            continue;
        }
        if line.starts_with("# HELP ") { continue; }
        assert!(!line.starts_with('#'), "unknown comment line {line:?}");
        let name = line.split(|c| c == '{' || c == ' ').next().unwrap();
        let (fam, ty) = current.as_ref().unwrap_or_else(|| panic!("sample {line:?} before any TYPE line"));
        let allowed: Vec<String> = match ty.as_str() {
            "counter" | "gauge" => vec![fam.clone()],
            "histogram" => vec![format!("{fam}_bucket"), format!("{fam}_sum"), format!("{fam}_count")],
            "summary" => vec![fam.clone(), format!("{fam}_sum"), format!("{fam}_count")],
            other => panic!("unknown type {other}"),
        };
        assert!(allowed.iter().any(|a| a == name), "sample {name:?} is not allowed in {ty} family {fam}:\n{text}");
        if ty == "histogram" && name.ends_with("_bucket") { assert!(line.contains("le=\""), "bucket sample without le: {line}"); }
        if ty == "summary" && name == fam { assert!(line.contains("quantile=\""), "summary sample without quantile: {line}"); }
    }
}

#[test]
fn every_sample_belongs_to_the_family_its_type_line_announced() {
    for unit_suffix in [false, true] {
        for global_buckets in [false, true] {
            let mut b = PrometheusBuilder::new().set_enable_unit_suffix(unit_suffix);
            if global_buckets { b = b.set_buckets(&[1.0, 2.0]).unwrap(); }
            b = b.set_buckets_for_metric(Matcher::Full("lat".to_string()), &[0.1, 1.0]).unwrap()
                 .set_buckets_for_metric(Matcher::Suffix("_seconds".to_string()), &[5.0]).unwrap()
                 .set_buckets_for_metric(Matcher::Prefix("pre".to_string()), &[7.0]).unwrap();
            let recorder = b.build_recorder();
            recorder.describe_histogram("lat".into(), Some(Unit::Seconds), "latency".into());
            recorder.describe_histogram("db_query".into(), Some(Unit::Seconds), "db".into());
            recorder.describe_histogram("plain".into(), None, "plain".into());
            recorder.describe_counter("reqs".into(), Some(Unit::Count), "requests".into());
            recorder.describe_gauge("temp".into(), Some(Unit::Bytes), "t".into());
            for name in ["lat", "db_query", "plain", "prefixed"] {
                let h = recorder.register_histogram(&Key::from_name(name), &W_META);
                h.record(0.5); h.record(3.0);
            }
            recorder.register_counter(&Key::from_name("reqs"), &W_META).increment(2);
            recorder.register_gauge(&Key::from_name("temp"), &W_META).set(1.5);
            check_exposition(&recorder.handle().render());
        }
    }
}
