// Hand-derived from the failed clause `write_metric_line/ensures: ... sample_name(name, suffix, unit) ...`:
// with unit suffixes enabled every sample name must be the family name (the name its TYPE line prints) or that name plus
// an allowed suffix (_bucket, _sum, _count).
use metrics::{Key, Level, Metadata, Recorder, Unit};

#[test]
fn unit_suffix_keeps_samples_inside_their_family() {
    static METADATA: Metadata<'static> = Metadata::new("t", Level::INFO, Some("m"));
    let recorder = crate::PrometheusBuilder::new()
        .set_enable_unit_suffix(true)
        .set_buckets(&[1.0, 2.0])
        .unwrap()
        .build_recorder();
    recorder.describe_histogram("lat".into(), Some(Unit::Seconds), "latency".into());
    recorder.register_histogram(&Key::from_name("lat"), &METADATA).record(1.5);
    recorder.describe_counter("reqs".into(), Some(Unit::Bytes), "requests".into());
    recorder.register_counter(&Key::from_name("reqs"), &METADATA).increment(3);
    let text = recorder.handle().render();

    let mut family: Option<String> = None;
    for line in text.lines() {
        if let Some(rest) = line.strip_prefix("# TYPE ") {
            family = Some(rest.split(' ').next().unwrap().to_string());
        } else if line.starts_with('#') || line.is_empty() {
            continue;
        } else {
            let sample = line.split(|c| c == '{' || c == ' ').next().unwrap();
            let fam = family.as_deref().expect("TYPE line precedes the samples");
            let ok = sample == fam
                || ["_bucket", "_sum", "_count"].iter().any(|s| sample == format!("{fam}{s}"));
            assert!(ok, "sample `{}` does not belong to family `{}`:\n{}", sample, fam, text);
        }
    }
}
