PLAN = {
    "property": "C09",
    "level": "proof",
    "manifest": {
        "technique": "Verus (z3) on writer.rs items extracted verbatim each run, representation invariant + per-method contracts; hand-derived witness tests replayed on the real crate",
        "text": "PayloadWriter's representation invariant wf() (offsets monotone and in bounds, every committed frame within max_payload_len and, in length-prefixed mode, preceded by its exact LE length, placeholder present for the frame being built) is proved to be established by new() and preserved by every mutator for arbitrary buffer contents and any history, unbounded; write_* contracts account for payloads written / points dropped.",
        "note": "Assumed: vstd's Vec/slice specs; shim specs for u32::to_le_bytes (R1) and range copy_from_slice (R7); itoa/ryu output as uninterpreted byte strings with assumed length bounds; Key/Label accessors as uninterpreted views. Socket I/O is out of scope.",
    },
    "min_obligations": {"quick": 36, "thorough": 36},
    "assumptions": [
        "usize is 64 bit; Verus overflow checks on machine integers",
        "vstd specifications of Vec::{push,len,truncate,clear,extend_from_slice}, slices and Option",
        "R1 shim: u32::to_le_bytes yields 4 bytes le32(x) (content uninterpreted)",
        "R7 shim: V[a..b].copy_from_slice(s) overwrites exactly [a,b) (std contract)",
        "R4: pub(super)/pub dropped (single-file crate)",
    ],
    "verus": [
        {"template": "writer.verus.rs", "tier": "quick", "rlimit": 250, "min_functions": 36},
    ],
    "witnesses": [
        {"match": r"fn write_metric_trailer", "src": "witness_trailer.rs", "crate": "metrics-exporter-dogstatsd",
         "file": "metrics-exporter-dogstatsd/src/writer.rs"},
        {"match": r"(Payloads|payloads|verif_flush_cycle|verif_drain)", "src": "witness_flush_cycle.rs", "crate": "metrics-exporter-dogstatsd",
         "file": "metrics-exporter-dogstatsd/src/writer.rs"},
        {"match": r"fn commit/ensures:final\(self\)\.(wf|tail)", "src": "witness_commit_fail.rs", "crate": "metrics-exporter-dogstatsd",
         "file": "metrics-exporter-dogstatsd/src/writer.rs"},
        {"match": r"fn write_hist_dist_inner/(invariant|precondition|ensures)", "src": "witness_hist_prefix.rs", "crate": "metrics-exporter-dogstatsd",
         "file": "metrics-exporter-dogstatsd/src/writer.rs"},
    ],
}
