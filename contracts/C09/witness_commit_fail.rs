// Hand-derived from the failed clause `commit/ensures:final(self).wf()` at the `return false` exit:
// in length-prefixed mode a rejected (too long) metric must leave the 4-byte placeholder for the next one.
use super::*;
use metrics::Key;

#[test]
fn rejected_metric_then_next_metric_is_correctly_framed() {
    let mut w = PayloadWriter::new(32, true);
    let long = Key::from_name("aaaaaaaaaaaaaaaaaaaaaaaaaaaaaaaaaaaaaaaa");
    let r = w.write_counter(&long, 1, None, None, &[]);
    assert!(r.any_failures());
    let short = Key::from_name("b");
    let r = w.write_counter(&short, 1, None, None, &[]);
    assert!(!r.any_failures(), "short metric must fit");
    let mut p = w.payloads();
    let frame = p.next_payload().expect("one payload").to_vec();
    assert_eq!(&frame[..4], &((frame.len() - 4) as u32).to_le_bytes()[..], "length prefix");
    assert_eq!(&frame[4..], b"b:1|c\n");
}
