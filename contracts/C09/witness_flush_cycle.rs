// Hand-derived from the failed clauses `Drop::drop/ensures:final(self).buf@ == (placeholder in length-prefixed mode)` and
// `verif_flush_cycle/ensures:final(self).wf()`: after the payloads of one flush were drained, the next flush on the same
// writer must again produce correctly length-prefixed frames.
use super::*;
use metrics::Key;

#[test]
fn second_flush_cycle_is_correctly_framed_in_length_prefixed_mode() {
    let mut w = PayloadWriter::new(64, true);
    let a = Key::from_name("a");
    assert!(!w.write_counter(&a, 1, None, None, &[]).any_failures());
    {
        let mut p = w.payloads();
        let f = p.next_payload().expect("first cycle payload").to_vec();
        assert_eq!(&f[4..], b"a:1|c\n");
        assert!(p.next_payload().is_none());
    } // Payloads dropped here
    let b = Key::from_name("b");
    assert!(!w.write_counter(&b, 2, None, None, &[]).any_failures());
    let mut p = w.payloads();
    let f = p.next_payload().expect("second cycle payload").to_vec();
    assert_eq!(&f[..4], &((f.len() - 4) as u32).to_le_bytes()[..], "length prefix of the second cycle");
    assert_eq!(&f[4..], b"b:2|c\n");
}
