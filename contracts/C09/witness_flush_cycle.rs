// Hand-derived from the failed clauses `Drop::drop/ensures:final(self).buf@ == (placeholder in length-prefixed mode)` and
// `verif_flush_cycle/ensures:final(self).wf()`: after the payloads of one flush were drained, the next flush on the same
// writer must again produce correctly length-prefixed frames.
use super::*;
use metrics::Key;

#[test]
fn second_flush_cycle_is_correctly_framed_in_length_prefixed_mode() {
    let mut w = PayloadWriter::new(64, true);
    let a = Key::from_name("a");
    assert!(!w.write_counter(&a, 1, None, None, &[]).any_failures());
    {
        let mut p = w.payloads();
        let f = p.next_payload().expect("first cycle payload").to_vec();
        assert_eq!(&f[4..], b"a:1|c\n");
        assert!(p.next_payload().is_none());
    } // Payloads dropped here
    let b = Key::from_name("b");
    assert!(!w.write_counter(&b, 2, None, None, &[]).any_failures());
    let mut p = w.payloads();
    let f = p.next_payload().expect("second cycle payload").to_vec();
    assert_eq!(&f[..4], &((f.len() - 4) as u32).to_le_bytes()[..], "length prefix of the second cycle");
    assert_eq!(&f[4..], b"b:2|c\n");
}

// "after a flush the writer is as good as new", also when the payload iterator is dropped EARLY (the forwarder does that when
// there are too many payloads): whatever was not handed out is gone with the flush, and the next cycle contains exactly what
// is written after it -- each as one complete message of its own.
#[test]
fn a_flush_that_is_dropped_early_still_leaves_a_fresh_writer() {
    for with_prefix in [false, true] {
        let mut w = PayloadWriter::new(10, with_prefix);           // small limit: one metric per payload
        for (n, v) in [("aa", 1u64), ("bb", 2), ("cc", 3)] {
            assert!(!w.write_counter(&Key::from_name(n), v, None, None, &[]).any_failures());
        }
        {
            let mut p = w.payloads();
            assert!(p.next_payload().is_some());                  // only the first of three is taken ...
        }                                                         // ... and the flush ends here
        assert!(!w.write_counter(&Key::from_name("dd"), 4, None, None, &[]).any_failures(), "the next metric fits a fresh writer");
        let mut p = w.payloads();
        let f = p.next_payload().expect("the metric written after the flush").to_vec();
        let body = if with_prefix {
            assert_eq!(&f[..4], &((f.len() - 4) as u32).to_le_bytes()[..], "length prefix");
            f[4..].to_vec()
        } else { f };
        assert_eq!(body, b"dd:4|c\n".to_vec(), "exactly the metric written after the flush, as one message of its own");
        assert!(p.next_payload().is_none());
    }
}
