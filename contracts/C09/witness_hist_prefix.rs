// Hand-derived from the failed clauses `write_hist_dist_inner/invariant:minimum_payload_len == true_min` /
// `current_len == true_min + ...`: the shadow length omits the global prefix ("p." = 2 bytes), so a value the shadow
// accepts makes the real payload exceed the limit and `assert!(self.commit())` panics.
use super::*;
use metrics::Key;

#[test]
fn prefixed_histogram_near_the_limit_never_panics_and_respects_the_limit() {
    let mut w = PayloadWriter::new(8, false);
    let key = Key::from_name("n");
    // shadow: "n" + "\n" + 2 = 4, + ":1.0" = 8 <= 8  -> accepted; real payload "p.n:1.0|h\n" is 10 bytes
    let r = w.write_histogram(&key, vec![1.0f64].into_iter(), None, Some("p"), &[]);
    assert_eq!(r.points_dropped(), 1, "the only point cannot fit and must be reported dropped");
    let mut p = w.payloads();
    while let Some(x) = p.next_payload() {
        assert!(x.len() <= 8);
    }
}
