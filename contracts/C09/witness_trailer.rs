// Hand-derived from the postcondition of `write_metric_trailer` ("[|@rate] then the tags: `|#` once, the global labels followed
// by the metric's own, comma separated, `name` alone for an empty value and `name:value` otherwise; then [|Ttimestamp] and a
// line feed"): concrete runs of that clause on the real function, over the four shapes of the two label lists.
use super::*;
use metrics::{Key, Label};

fn trailer(own: &[(&'static str, &'static str)], global: &[(&'static str, &'static str)], ts: Option<u64>) -> String {
    let own: Vec<Label> = own.iter().map(|(k, v)| Label::new(*k, *v)).collect();
    let global: Vec<Label> = global.iter().map(|(k, v)| Label::new(*k, *v)).collect();
    let key = Key::from_parts("m", own);
    let mut buf = Vec::new();
    write_metric_trailer(&key, ts, &mut buf, None, global.iter());
    String::from_utf8(buf).unwrap()
}

#[test]
fn tags_are_the_global_labels_followed_by_the_metrics_own() {
    assert_eq!(trailer(&[], &[], None), "\n");
    assert_eq!(trailer(&[("a", "1")], &[], None), "|#a:1\n");
    assert_eq!(trailer(&[], &[("g", "x")], None), "|#g:x\n", "global labels are sent for a metric without labels of its own");
    assert_eq!(trailer(&[("a", "1"), ("b", "2")], &[("g", "x"), ("h", "y")], Some(7)), "|#g:x,h:y,a:1,b:2|T7\n");
    // bare tags (empty value) in every position
    assert_eq!(trailer(&[("a", ""), ("b", "2")], &[], None), "|#a,b:2\n");
    assert_eq!(trailer(&[("a", "1")], &[("g", ""), ("h", "")], None), "|#g,h,a:1\n");
    assert_eq!(trailer(&[("a", "")], &[("g", "x")], None), "|#g:x,a\n");
}
