// C09 — Verus contracts for metrics-exporter-dogstatsd/src/writer.rs.
// Everything between //@ITEM and //@END is replaced, on every run, by the item's text taken verbatim from
// /repo's working tree, with the listed clauses spliced in.  Everything else is specification.
#![allow(unused_imports, dead_code, unused_variables, unused_mut)]
use vstd::prelude::*;
use std::slice::Iter;
use vstd::string::StringSliceAdditionalSpecFns;

verus! {

// ------------------------------------------------------------------ std items vstd lacks (ASSUMED)
pub assume_specification<T: Copy>[ Option::<&T>::copied ](o: Option<&T>) -> (r: Option<T>)
    ensures r == (match o { Some(x) => Some(*x), None => None::<T> });

pub uninterp spec fn le32(x: u32) -> Seq<u8>;

// R1: `E.to_le_bytes()` -> `shim_u32_to_le_bytes(E)` (the array type `[u8; size_of::<u32>()]` cannot carry an assume_specification)
#[verifier::external_body]
pub fn shim_u32_to_le_bytes(x: u32) -> (r: [u8; 4])
    ensures r@ == le32(x),
{
    x.to_le_bytes()
}

// ------------------------------------------------------------------ strings as byte sequences (ASSUMED, uninterpreted)
pub open spec fn str_bytes(s: &str) -> Seq<u8> { s.spec_bytes() }   // vstd: str::as_bytes(s)@ == s.spec_bytes()

// vstd: str::len(s) == s.spec_bytes().len() as usize; ASSUMED: a string's byte length fits in usize
pub mod axioms {
    use vstd::prelude::*;
    use vstd::string::StringSliceAdditionalSpecFns;
    #[verifier::external_body]
    pub broadcast proof fn axiom_str_len_fits(s: &str)
        ensures #[trigger] s.spec_bytes().len() <= usize::MAX,
    {
    }
}
broadcast use axioms::axiom_str_len_fits;

// ------------------------------------------------------------------ iterator shims (R2), ASSUMED
// `remaining(it)`: the items the iterator will still yield, in order (uninterpreted; NOT vstd's prophetic IteratorSpec::remaining,
// whose prophecy typing forbids ghost-variable use). Linked to real data only through the shims below.
pub uninterp spec fn remaining<I: Iterator>(it: &I) -> Seq<I::Item>;
pub open spec fn into_remaining<I: Iterator>(it: &I) -> Seq<I::Item> { remaining(it) }

// R2d: `S.iter()` -> `shim_slice_iter(S)`: a fresh slice iterator yields the slice's elements in order (std contract)
#[verifier::external_body]
pub fn shim_slice_iter<'a, T>(s: &'a [T]) -> (r: Iter<'a, T>)
    ensures remaining(&r) == s@.as_ref(),
{
    s.iter()
}

// the loops rewritten by R2 all iterate over values that already are iterators: IntoIterator::into_iter is the identity there
#[verifier::external_body]
pub fn shim_into_iter<I: Iterator>(i: I) -> (r: I)
    ensures remaining(&r) == into_remaining(&i),
{
    i.into_iter()
}

#[verifier::external_body]
pub fn shim_next<I: Iterator>(it: &mut I) -> (r: Option<I::Item>)
    ensures
        match r {
            Some(x) => remaining(old(it)).len() > 0 && x == remaining(old(it))[0] && remaining(final(it)) == remaining(old(it)).skip(1),
            None => remaining(old(it)).len() == 0 && remaining(final(it)) == remaining(old(it)),
        },
{
    it.next()
}

// ------------------------------------------------------------------ dependency stubs (ASSUMED specs)
#[verifier::external_body]
pub struct Label { _p: [u8; 0] }
impl Label {
    pub uninterp spec fn key_bytes(&self) -> Seq<u8>;
    pub uninterp spec fn value_bytes(&self) -> Seq<u8>;
    #[verifier::external_body]
    pub fn key(&self) -> (r: &str) ensures str_bytes(r) == self.key_bytes() { unimplemented!() }
    #[verifier::external_body]
    pub fn value(&self) -> (r: &str) ensures str_bytes(r) == self.value_bytes() { unimplemented!() }
}

#[verifier::external_body]
pub struct Key { _p: [u8; 0] }
impl Key {
    pub uninterp spec fn name_bytes(&self) -> Seq<u8>;
    pub uninterp spec fn label_seq(&self) -> Seq<&Label>;
    #[verifier::external_body]
    pub fn name(&self) -> (r: &str) ensures str_bytes(r) == self.name_bytes() { unimplemented!() }
    #[verifier::external_body]
    pub fn labels(&self) -> (r: Iter<'_, Label>) ensures into_remaining(&r) == self.label_seq() { unimplemented!() }
}

pub uninterp spec fn itoa_bytes(v: u64) -> Seq<u8>;
pub uninterp spec fn ryu_bytes(v: f64) -> Seq<u8>;

pub mod itoa {
    use super::*;
    #[verifier::external_body]
    pub struct Buffer { _p: [u8; 0] }
    impl Buffer {
        #[verifier::external_body]
        pub fn new() -> Buffer { unimplemented!() }
        // ASSUMED: decimal rendering of a u64 is 1..=20 bytes
        #[verifier::external_body]
        pub fn format(&mut self, v: u64) -> (r: &str)
            ensures str_bytes(r) == itoa_bytes(v), 1 <= itoa_bytes(v).len() <= 20,
        { unimplemented!() }
    }
}
pub mod ryu {
    use super::*;
    #[verifier::external_body]
    pub struct Buffer { _p: [u8; 0] }
    impl Buffer {
        #[verifier::external_body]
        pub fn new() -> Buffer { unimplemented!() }
        // ASSUMED: shortest round-trip rendering of an f64 is 1..=24 bytes
        #[verifier::external_body]
        pub fn format(&mut self, v: f64) -> (r: &str)
            ensures str_bytes(r) == ryu_bytes(v), 1 <= ryu_bytes(v).len() <= 24,
        { unimplemented!() }
    }
}

#[verifier::reject_recursive_types(A)]
#[verifier::reject_recursive_types(B)]
#[verifier::external_type_specification]
#[verifier::external_body]
pub struct ExChain<A, B>(std::iter::Chain<A, B>);

// R2c: `A.chain(B)` -> `shim_chain(A, B)` (Iterator::chain is a provided trait method: no assume_specification possible)
#[verifier::external_body]
pub fn shim_chain<'a>(a: Iter<'a, Label>, b: Iter<'a, Label>) -> (r: std::iter::Chain<Iter<'a, Label>, Iter<'a, Label>>)
    ensures into_remaining(&r) == into_remaining(&a) + into_remaining(&b),
{
    a.chain(b)
}

// ------------------------------------------------------------------ wire format (specification)
pub open spec fn refs<'a>(s: Seq<Label>) -> Seq<&'a Label> { s.as_ref() }   // vstd: s.iter().remaining() == s@.as_ref()
pub open spec fn lit2(a: u8, b: u8) -> Seq<u8> { seq![a, b] }

pub open spec fn tag_bytes(l: &Label) -> Seq<u8> {
    l.key_bytes() + (if l.value_bytes().len() == 0 { Seq::<u8>::empty() } else { seq![58u8] + l.value_bytes() })
}

/// `|#t0,t1,...` (nothing when there are no tags)
pub open spec fn tags_bytes(tags: Seq<&Label>) -> Seq<u8>
    decreases tags.len(),
{
    if tags.len() == 0 {
        Seq::<u8>::empty()
    } else if tags.len() == 1 {
        lit2(124, 35) + tag_bytes(tags[0])
    } else {
        tags_bytes(tags.drop_last()) + seq![44u8] + tag_bytes(tags.last())
    }
}

pub open spec fn rate_bytes(r: Option<f64>) -> Seq<u8> {
    match r { Some(x) => lit2(124, 64) + ryu_bytes(x), None => Seq::<u8>::empty() }
}

pub open spec fn ts_bytes(t: Option<u64>) -> Seq<u8> {
    match t { Some(x) => lit2(124, 84) + itoa_bytes(x), None => Seq::<u8>::empty() }
}

/// everything after `|<type>`: sample rate, tags (global first, then the metric's own), timestamp, LF
pub open spec fn trailer_bytes(rate: Option<f64>, tags: Seq<&Label>, ts: Option<u64>) -> Seq<u8> {
    rate_bytes(rate) + tags_bytes(tags) + ts_bytes(ts) + seq![10u8]
}

pub open spec fn prefix_bytes(p: Option<&str>) -> Seq<u8> {
    match p { Some(x) => str_bytes(x) + seq![46u8], None => Seq::<u8>::empty() }
}

//@ITEM file=metrics-exporter-dogstatsd/src/writer.rs sel=fn write_metric_trailer
//@REWRITE R2c global_labels.chain(tags) ==> shim_chain(global_labels, tags)
//@FORLOOP 1 it
//@SPEC
    ensures
        final(buf)@ == old(buf)@ + trailer_bytes(maybe_sample_rate, into_remaining(&global_labels) + key.label_seq(), maybe_timestamp),
//@BEFORE 1 let tags = key.labels();
    let ghost all_tags = into_remaining(&global_labels) + key.label_seq();
    let ghost b0 = old(buf)@ + rate_bytes(maybe_sample_rate);
    assert(buf@ == b0);
//@LOOP 1
        invariant
            remaining(&it).len() <= all_tags.len(),
            remaining(&it) == all_tags.skip(all_tags.len() - remaining(&it).len()),
            wrote_tag == (remaining(&it).len() < all_tags.len()),
            buf@ == b0 + tags_bytes(all_tags.take(all_tags.len() - remaining(&it).len())),
        ensures remaining(&it).len() == 0,
        decreases remaining(&it).len(),
//@BEFORE 1 if wrote_tag {
        let ghost done = all_tags.len() - remaining(&it).len() - 1;
        proof {
            assert(tag == all_tags[done]);
            assert(all_tags.take(done + 1).drop_last() == all_tags.take(done));
            assert(all_tags.take(done + 1).last() == tag);
            if done == 0 { assert(all_tags.take(0).len() == 0); }
        }
//@BEFORE 1 if let Some(timestamp) = maybe_timestamp {
    proof { assert(all_tags.take(all_tags.len() as int) == all_tags); }
    let ghost b1 = buf@;
//@AFTER 1 buf.push(b'\n');
    proof {
        assert(buf@ == b1 + ts_bytes(maybe_timestamp) + seq![10u8]);
        assert(b1 == b0 + tags_bytes(all_tags));
        assert(buf@ =~= old(buf)@ + (rate_bytes(maybe_sample_rate) + tags_bytes(all_tags) + ts_bytes(maybe_timestamp) + seq![10u8]));
    }
//@END

// R7: `V[A..B].copy_from_slice(S)` -> `shim_copy_into(&mut V, A, B, S)`: vstd gives the range IndexMut of Vec no usable
// specification (the borrowed sub-slice is havocked); the shim's body is the same expression.
#[verifier::external_body]
pub fn shim_copy_into(v: &mut Vec<u8>, a: usize, b: usize, src: &[u8])
    requires a <= b <= old(v)@.len(), src@.len() == b - a,
    ensures final(v)@ == old(v)@.subrange(0, a as int) + src@ + old(v)@.subrange(b as int, old(v)@.len() as int),
{
    v[a..b].copy_from_slice(src);
}


//@ITEM file=metrics-exporter-dogstatsd/src/writer.rs sel=struct WriteResult
//@END

impl WriteResult {
//@ITEM file=metrics-exporter-dogstatsd/src/writer.rs sel=impl WriteResult :: fn success ret=r
//@SPEC
    ensures r.payloads_written == payloads_written, r.points_dropped == 0,
//@END
//@ITEM file=metrics-exporter-dogstatsd/src/writer.rs sel=impl WriteResult :: fn failure ret=r
//@SPEC
    ensures r.payloads_written == 0, r.points_dropped == points_dropped,
//@END
//@ITEM file=metrics-exporter-dogstatsd/src/writer.rs sel=impl WriteResult :: fn new ret=r
//@SPEC
    ensures r.payloads_written == 0, r.points_dropped == 0,
//@END
//@ITEM file=metrics-exporter-dogstatsd/src/writer.rs sel=impl WriteResult :: fn increment_payloads_written
//@SPEC
    requires old(self).payloads_written < u64::MAX,
    ensures final(self).payloads_written == old(self).payloads_written + 1, final(self).points_dropped == old(self).points_dropped,
//@END
//@ITEM file=metrics-exporter-dogstatsd/src/writer.rs sel=impl WriteResult :: fn increment_points_dropped
//@SPEC
    requires old(self).points_dropped < u64::MAX,
    ensures final(self).points_dropped == old(self).points_dropped + 1, final(self).payloads_written == old(self).payloads_written,
//@END
//@ITEM file=metrics-exporter-dogstatsd/src/writer.rs sel=impl WriteResult :: fn any_failures ret=r
//@SPEC
    ensures r == (self.points_dropped != 0),
//@END
//@ITEM file=metrics-exporter-dogstatsd/src/writer.rs sel=impl WriteResult :: fn payloads_written ret=r
//@SPEC
    ensures r == self.payloads_written,
//@END
//@ITEM file=metrics-exporter-dogstatsd/src/writer.rs sel=impl WriteResult :: fn points_dropped ret=r
//@SPEC
    ensures r == self.points_dropped,
//@END
}

//@ITEM file=metrics-exporter-dogstatsd/src/writer.rs sel=struct PayloadWriter
//@END

impl PayloadWriter {
    spec fn plen(&self) -> int { if self.with_length_prefix { 4 } else { 0 } }
    spec fn off(&self, i: int) -> int { if i < 0 { 0 } else { self.offsets@[i] as int } }
    spec fn last(&self) -> int { self.off(self.offsets@.len() - 1) }
    /// the uncommitted bytes of the payload being built
    spec fn tail(&self) -> Seq<u8> { self.buf@.subrange(self.last() + self.plen(), self.buf@.len() as int) }
    /// i-th committed frame, header included
    spec fn frame(&self, i: int) -> Seq<u8> { self.buf@.subrange(self.off(i - 1), self.off(i)) }
    spec fn nframes(&self) -> int { self.offsets@.len() as int }
    spec fn frame_ok(&self, i: int) -> bool {
        let f = self.frame(i);
        &&& self.off(i - 1) + self.plen() <= self.off(i)
        &&& f.len() - self.plen() <= self.max_payload_len
        &&& self.with_length_prefix ==> f.subrange(0, 4) == le32((f.len() - 4) as u32)
    }
    proof fn lemma_mono(&self, i: int, j: int)
        requires self.wf(), -1 <= i <= j < self.offsets@.len(),
        ensures self.off(i) <= self.off(j),
        decreases j - i,
    {
        if i < j { self.lemma_mono(i, j - 1); assert(self.frame_ok(j)); }
    }
    /// representation invariant
    spec fn wf(&self) -> bool {
        &&& self.max_payload_len <= u32::MAX
        &&& forall|i: int| 0 <= i < self.offsets@.len() ==> #[trigger] self.off(i) <= self.buf@.len()
        &&& self.last() + self.plen() <= self.buf@.len()
        &&& forall|i: int| 0 <= i < self.offsets@.len() ==> #[trigger] self.frame_ok(i)
    }

//@ITEM file=metrics-exporter-dogstatsd/src/writer.rs sel=impl PayloadWriter :: fn last_offset ret=r
//@SPEC
    ensures r as int == self.last(),
//@END

//@ITEM file=metrics-exporter-dogstatsd/src/writer.rs sel=impl PayloadWriter :: fn current_len ret=r
//@SPEC
    requires self.wf(),
    ensures r as int == self.tail().len(),
//@END

//@ITEM file=metrics-exporter-dogstatsd/src/writer.rs sel=impl PayloadWriter :: fn prepare_for_write
//@SPEC
    ensures
        final(self).buf@ == old(self).buf@ + (if old(self).with_length_prefix { seq![0u8, 0u8, 0u8, 0u8] } else { Seq::<u8>::empty() }),
        final(self).offsets == old(self).offsets,
        final(self).max_payload_len == old(self).max_payload_len,
        final(self).with_length_prefix == old(self).with_length_prefix,
        final(self).trailer_buf == old(self).trailer_buf,
//@END

//@ITEM file=metrics-exporter-dogstatsd/src/writer.rs sel=impl PayloadWriter :: fn commit ret=ok
//@REWRITE R1 u32::try_from(current_len).unwrap().to_le_bytes() ==> shim_u32_to_le_bytes(u32::try_from(current_len).unwrap())
//@REWRITE R7 self.buf[current_last_offset..current_last_offset + 4] .copy_from_slice(&current_len_buf[..]); ==> shim_copy_into(&mut self.buf, current_last_offset, current_last_offset + 4, &current_len_buf[..]);
//@SPEC
    requires old(self).wf(),
    ensures
        final(self).wf(),
        final(self).max_payload_len == old(self).max_payload_len,
        final(self).with_length_prefix == old(self).with_length_prefix,
        final(self).trailer_buf == old(self).trailer_buf,
        final(self).tail() == Seq::<u8>::empty(),
        ok <==> old(self).tail().len() <= old(self).max_payload_len,
        forall|i: int| 0 <= i < old(self).nframes() ==> #[trigger] final(self).frame(i) == old(self).frame(i),
        final(self).nframes() == old(self).nframes() + (if ok { 1int } else { 0int }),
        ok ==> final(self).payload(old(self).nframes()) == old(self).tail(),
        !ok ==> final(self).offsets@ == old(self).offsets@
            && final(self).buf@.subrange(0, old(self).last()) == old(self).buf@.subrange(0, old(self).last()),
        ok ==> final(self).offsets@ == old(self).offsets@.push(old(self).buf@.len() as usize)
            && final(self).buf@.subrange(0, old(self).last()) == old(self).buf@.subrange(0, old(self).last())
            && final(self).frame(old(self).nframes()).subrange(old(self).plen(), old(self).plen() + old(self).tail().len()) == old(self).tail(),
//@BEFORE 1 return false;
            proof {
                assert forall|i: int| 0 <= i < self.offsets@.len() implies #[trigger] self.frame(i) == old(self).frame(i) by {
                    old(self).lemma_mono(i, old(self).offsets@.len() - 1);
                    old(self).lemma_mono(i - 1, old(self).offsets@.len() - 1);
                    assert(old(self).frame_ok(i));
                }
                assert forall|i: int| 0 <= i < self.offsets@.len() implies #[trigger] self.frame_ok(i) by {
                    assert(old(self).frame_ok(i));
                    assert(self.frame(i) == old(self).frame(i));
                }
                assert forall|i: int| 0 <= i < self.offsets@.len() implies #[trigger] self.off(i) <= self.buf@.len() by {
                    old(self).lemma_mono(i, old(self).offsets@.len() - 1);
                }
            }
//@BEFORE 1 true
        proof {
            let n = old(self).offsets@.len() as int;
            assert forall|i: int| 0 <= i < n implies #[trigger] self.frame(i) == old(self).frame(i) by {
                old(self).lemma_mono(i, n - 1);
                old(self).lemma_mono(i - 1, n - 1);
                assert(old(self).frame_ok(i));
                assert(self.off(i) == old(self).off(i));
                assert(self.off(i - 1) == old(self).off(i - 1));
            }
            assert forall|i: int| 0 <= i < n implies #[trigger] self.frame_ok(i) by {
                assert(old(self).frame_ok(i));
                assert(self.frame(i) == old(self).frame(i));
                assert(self.off(i) == old(self).off(i));
                assert(self.off(i - 1) == old(self).off(i - 1));
            }
            let f = self.frame(n);
            let l0 = old(self).last();
            let n0 = old(self).buf@.len() as int;
            assert(self.off(n) == n0);
            assert(self.off(n - 1) == l0);
            if self.with_length_prefix {
                let mid = old(self).buf@.subrange(0, l0) + le32(current_len as u32) + old(self).buf@.subrange(l0 + 4, n0);
                assert(le32(current_len as u32).len() == 4);
                assert(self.buf@ == mid + seq![0u8, 0u8, 0u8, 0u8]);
                assert(f.subrange(0, 4) =~= le32(current_len as u32));
                assert(f.len() - 4 == current_len);
            }
            assert(self.frame_ok(n));
            assert(self.payload(n) =~= old(self).tail());
            assert forall|i: int| 0 <= i < self.offsets@.len() implies #[trigger] self.off(i) <= self.buf@.len() by {
                if i < n { assert(old(self).off(i) <= old(self).buf@.len()); assert(self.off(i) == old(self).off(i)); }
            }
        }
//@END

//@ITEM file=metrics-exporter-dogstatsd/src/writer.rs sel=impl PayloadWriter :: fn new ret=w
//@SPEC
    requires max_payload_len <= u32::MAX,
    ensures w.wf(), w.nframes() == 0, w.tail() == Seq::<u8>::empty(),
        w.max_payload_len == max_payload_len, w.with_length_prefix == with_length_prefix,
//@END

    /// payload (header stripped) of the i-th committed frame
    spec fn payload(&self, i: int) -> Seq<u8> { self.frame(i).subrange(self.plen(), self.frame(i).len() as int) }

    /// same committed frames, same configuration; only the uncommitted tail / trailer scratch may differ
    spec fn same_frames(&self, o: &PayloadWriter) -> bool {
        &&& self.offsets@ == o.offsets@
        &&& self.max_payload_len == o.max_payload_len
        &&& self.with_length_prefix == o.with_length_prefix
        &&& self.buf@.len() >= o.last() + o.plen()
        &&& self.buf@.subrange(0, o.last() + o.plen()) == o.buf@.subrange(0, o.last() + o.plen())
    }

    proof fn lemma_same_frames(&self, o: &PayloadWriter)
        requires o.wf(), self.same_frames(o),
        ensures self.wf(), forall|i: int| 0 <= i < o.nframes() ==> #[trigger] self.frame(i) == o.frame(i),
    {
        assert forall|i: int| 0 <= i < o.nframes() implies #[trigger] self.frame(i) == o.frame(i) by {
            o.lemma_mono(i, o.nframes() - 1);
            o.lemma_mono(i - 1, o.nframes() - 1);
            assert(o.frame_ok(i));
            assert(self.off(i) == o.off(i));
            assert(self.off(i - 1) == o.off(i - 1));
            let l = o.last() + o.plen();
            let (a, b) = (o.off(i - 1), o.off(i));
            assert(0 <= a <= b <= l);
            assert(self.buf@.subrange(0, l).subrange(a, b) =~= self.buf@.subrange(a, b));
            assert(o.buf@.subrange(0, l).subrange(a, b) =~= o.buf@.subrange(a, b));
        }
        assert forall|i: int| 0 <= i < self.offsets@.len() implies #[trigger] self.frame_ok(i) by {
            assert(o.frame_ok(i));
            assert(self.frame(i) == o.frame(i));
        }
        assert forall|i: int| 0 <= i < self.offsets@.len() implies #[trigger] self.off(i) <= self.buf@.len() by {
            o.lemma_mono(i, o.nframes() - 1);
        }
    }

//@ITEM file=metrics-exporter-dogstatsd/src/writer.rs sel=impl PayloadWriter :: fn write_trailing
//@REWRITE R2d global_labels.iter() ==> shim_slice_iter(global_labels)
//@SPEC
    ensures
        final(self).buf@ == old(self).buf@ + trailer_bytes(None, refs(global_labels@) + key.label_seq(), timestamp),
        final(self).offsets == old(self).offsets,
        final(self).max_payload_len == old(self).max_payload_len,
        final(self).with_length_prefix == old(self).with_length_prefix,
        final(self).trailer_buf == old(self).trailer_buf,
//@END

//@ITEM file=metrics-exporter-dogstatsd/src/writer.rs sel=impl PayloadWriter :: fn write_counter ret=r
//@SPEC
    requires old(self).wf(), old(self).tail().len() == 0,
    ensures
        final(self).wf(), final(self).tail().len() == 0,
        final(self).max_payload_len == old(self).max_payload_len,
        final(self).with_length_prefix == old(self).with_length_prefix,
        forall|i: int| 0 <= i < old(self).nframes() ==> #[trigger] final(self).frame(i) == old(self).frame(i),
        ({
            let line = prefix_bytes(prefix) + key.name_bytes() + seq![58u8] + itoa_bytes(value) + lit2(124, 99)
                + trailer_bytes(None, refs(global_labels@) + key.label_seq(), timestamp);
            if line.len() <= old(self).max_payload_len {
                r.payloads_written == 1 && r.points_dropped == 0 && final(self).nframes() == old(self).nframes() + 1
                    && final(self).payload(old(self).nframes()) == line
            } else {
                r.payloads_written == 0 && r.points_dropped == 1 && final(self).nframes() == old(self).nframes()
            }
        }),
//@BEFORE 1 if self.commit() {
        let ghost pre = *self;
        proof {
            let line = prefix_bytes(prefix) + key.name_bytes() + seq![58u8] + itoa_bytes(value) + lit2(124, 99)
                + trailer_bytes(None, refs(global_labels@) + key.label_seq(), timestamp);
            assert(self.buf@ =~= old(self).buf@ + line);
            assert(self.buf@.subrange(0, old(self).last() + old(self).plen()) =~= old(self).buf@.subrange(0, old(self).last() + old(self).plen()));
            self.lemma_same_frames(old(self));
            assert(self.tail() =~= line);
        }
//@END

}

} // verus!
fn main() {}
