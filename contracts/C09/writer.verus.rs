// C09 — Verus contracts for metrics-exporter-dogstatsd/src/writer.rs.
// Everything between //@ITEM and //@END is replaced, on every run, by the item's text taken verbatim from
// /repo's working tree, with the listed clauses spliced in.  Everything else is specification.
#![allow(unused_imports, dead_code, unused_variables, unused_mut)]
use vstd::prelude::*;
use std::slice::Iter;

verus! {

// ------------------------------------------------------------------ std items vstd lacks (ASSUMED)
pub assume_specification<T: Copy>[ Option::<&T>::copied ](o: Option<&T>) -> (r: Option<T>)
    ensures r == (match o { Some(x) => Some(*x), None => None::<T> });

pub uninterp spec fn le32(x: u32) -> Seq<u8>;

// R1: `E.to_le_bytes()` -> `shim_u32_to_le_bytes(E)` (the array type `[u8; size_of::<u32>()]` cannot carry an assume_specification)
#[verifier::external_body]
pub fn shim_u32_to_le_bytes(x: u32) -> (r: [u8; 4])
    ensures r@ == le32(x),
{
    x.to_le_bytes()
}

// R7: `V[A..B].copy_from_slice(S)` -> `shim_copy_into(&mut V, A, B, S)`: vstd gives the range IndexMut of Vec no usable
// specification (the borrowed sub-slice is havocked); the shim's body is the same expression.
#[verifier::external_body]
pub fn shim_copy_into(v: &mut Vec<u8>, a: usize, b: usize, src: &[u8])
    requires a <= b <= old(v)@.len(), src@.len() == b - a,
    ensures final(v)@ == old(v)@.subrange(0, a as int) + src@ + old(v)@.subrange(b as int, old(v)@.len() as int),
{
    v[a..b].copy_from_slice(src);
}

//@ITEM file=metrics-exporter-dogstatsd/src/writer.rs sel=struct PayloadWriter
//@END

impl PayloadWriter {
    spec fn plen(&self) -> int { if self.with_length_prefix { 4 } else { 0 } }
    spec fn off(&self, i: int) -> int { if i < 0 { 0 } else { self.offsets@[i] as int } }
    spec fn last(&self) -> int { self.off(self.offsets@.len() - 1) }
    /// the uncommitted bytes of the payload being built
    spec fn tail(&self) -> Seq<u8> { self.buf@.subrange(self.last() + self.plen(), self.buf@.len() as int) }
    /// i-th committed frame, header included
    spec fn frame(&self, i: int) -> Seq<u8> { self.buf@.subrange(self.off(i - 1), self.off(i)) }
    spec fn nframes(&self) -> int { self.offsets@.len() as int }
    spec fn frame_ok(&self, i: int) -> bool {
        let f = self.frame(i);
        &&& self.off(i - 1) + self.plen() <= self.off(i)
        &&& f.len() - self.plen() <= self.max_payload_len
        &&& self.with_length_prefix ==> f.subrange(0, 4) == le32((f.len() - 4) as u32)
    }
    proof fn lemma_mono(&self, i: int, j: int)
        requires self.wf(), -1 <= i <= j < self.offsets@.len(),
        ensures self.off(i) <= self.off(j),
        decreases j - i,
    {
        if i < j { self.lemma_mono(i, j - 1); assert(self.frame_ok(j)); }
    }
    /// representation invariant
    spec fn wf(&self) -> bool {
        &&& self.max_payload_len <= u32::MAX
        &&& forall|i: int| 0 <= i < self.offsets@.len() ==> #[trigger] self.off(i) <= self.buf@.len()
        &&& self.last() + self.plen() <= self.buf@.len()
        &&& forall|i: int| 0 <= i < self.offsets@.len() ==> #[trigger] self.frame_ok(i)
    }

//@ITEM file=metrics-exporter-dogstatsd/src/writer.rs sel=impl PayloadWriter :: fn last_offset ret=r
//@SPEC
    ensures r as int == self.last(),
//@END

//@ITEM file=metrics-exporter-dogstatsd/src/writer.rs sel=impl PayloadWriter :: fn current_len ret=r
//@SPEC
    requires self.wf(),
    ensures r as int == self.tail().len(),
//@END

//@ITEM file=metrics-exporter-dogstatsd/src/writer.rs sel=impl PayloadWriter :: fn prepare_for_write
//@SPEC
    ensures
        final(self).buf@ == old(self).buf@ + (if old(self).with_length_prefix { seq![0u8, 0u8, 0u8, 0u8] } else { Seq::<u8>::empty() }),
        final(self).offsets == old(self).offsets,
        final(self).max_payload_len == old(self).max_payload_len,
        final(self).with_length_prefix == old(self).with_length_prefix,
        final(self).trailer_buf == old(self).trailer_buf,
//@END

//@ITEM file=metrics-exporter-dogstatsd/src/writer.rs sel=impl PayloadWriter :: fn commit ret=ok
//@REWRITE R1 u32::try_from(current_len).unwrap().to_le_bytes() ==> shim_u32_to_le_bytes(u32::try_from(current_len).unwrap())
//@REWRITE R7 self.buf[current_last_offset..current_last_offset + 4] .copy_from_slice(&current_len_buf[..]); ==> shim_copy_into(&mut self.buf, current_last_offset, current_last_offset + 4, &current_len_buf[..]);
//@SPEC
    requires old(self).wf(),
    ensures
        final(self).wf(),
        final(self).max_payload_len == old(self).max_payload_len,
        final(self).with_length_prefix == old(self).with_length_prefix,
        final(self).trailer_buf == old(self).trailer_buf,
        final(self).tail() == Seq::<u8>::empty(),
        ok <==> old(self).tail().len() <= old(self).max_payload_len,
        !ok ==> final(self).offsets@ == old(self).offsets@
            && final(self).buf@.subrange(0, old(self).last()) == old(self).buf@.subrange(0, old(self).last()),
        ok ==> final(self).offsets@ == old(self).offsets@.push(old(self).buf@.len() as usize)
            && final(self).buf@.subrange(0, old(self).last()) == old(self).buf@.subrange(0, old(self).last())
            && final(self).frame(old(self).nframes()).subrange(old(self).plen(), old(self).plen() + old(self).tail().len()) == old(self).tail(),
//@BEFORE 1 return false;
            proof {
                assert forall|i: int| 0 <= i < self.offsets@.len() implies #[trigger] self.frame_ok(i) by {
                    old(self).lemma_mono(i, old(self).offsets@.len() - 1);
                    old(self).lemma_mono(i - 1, old(self).offsets@.len() - 1);
                    assert(old(self).frame_ok(i));
                    assert(self.frame(i) == old(self).frame(i));
                }
                assert forall|i: int| 0 <= i < self.offsets@.len() implies #[trigger] self.off(i) <= self.buf@.len() by {
                    old(self).lemma_mono(i, old(self).offsets@.len() - 1);
                }
            }
//@BEFORE 1 true
        proof {
            let n = old(self).offsets@.len() as int;
            assert forall|i: int| 0 <= i < n implies #[trigger] self.frame_ok(i) by {
                old(self).lemma_mono(i, n - 1);
                old(self).lemma_mono(i - 1, n - 1);
                assert(old(self).frame_ok(i));
                assert(self.off(i) == old(self).off(i));
                assert(self.off(i - 1) == old(self).off(i - 1));
                assert(self.frame(i) == old(self).frame(i));
            }
            let f = self.frame(n);
            let l0 = old(self).last();
            let n0 = old(self).buf@.len() as int;
            assert(self.off(n) == n0);
            assert(self.off(n - 1) == l0);
            if self.with_length_prefix {
                let mid = old(self).buf@.subrange(0, l0) + le32(current_len as u32) + old(self).buf@.subrange(l0 + 4, n0);
                assert(le32(current_len as u32).len() == 4);
                assert(self.buf@ == mid + seq![0u8, 0u8, 0u8, 0u8]);
                assert(f.subrange(0, 4) =~= le32(current_len as u32));
                assert(f.len() - 4 == current_len);
            }
            assert(self.frame_ok(n));
            assert forall|i: int| 0 <= i < self.offsets@.len() implies #[trigger] self.off(i) <= self.buf@.len() by {
                if i < n { assert(old(self).off(i) <= old(self).buf@.len()); assert(self.off(i) == old(self).off(i)); }
            }
        }
//@END

//@ITEM file=metrics-exporter-dogstatsd/src/writer.rs sel=impl PayloadWriter :: fn new ret=w
//@SPEC
    requires max_payload_len <= u32::MAX,
    ensures w.wf(), w.nframes() == 0, w.tail() == Seq::<u8>::empty(),
        w.max_payload_len == max_payload_len, w.with_length_prefix == with_length_prefix,
//@END
}

} // verus!
fn main() {}
