// C09 — Verus contracts for metrics-exporter-dogstatsd/src/writer.rs.
// Everything between //@ITEM and //@END is replaced, on every run, by the item's text taken verbatim from
// /repo's working tree, with the listed clauses spliced in.  Everything else is specification.
#![feature(allocator_api)]
#![allow(unused_imports, dead_code, unused_variables, unused_mut)]
use vstd::prelude::*;
use std::slice::Iter;
use std::alloc::Allocator;
use vstd::string::StringSliceAdditionalSpecFns;

verus! {

global size_of usize == 8;   // ASSUMED: 64-bit target

//@INCLUDE prelude/std_extra.rs

// ------------------------------------------------------------------ std items vstd lacks (ASSUMED)
pub assume_specification<T: Copy>[ Option::<&T>::copied ](o: Option<&T>) -> (r: Option<T>)
    ensures r == (match o { Some(x) => Some(*x), None => None::<T> });

pub uninterp spec fn le32(x: u32) -> Seq<u8>;

// R1: `E.to_le_bytes()` -> `shim_u32_to_le_bytes(E)` (the array type `[u8; size_of::<u32>()]` cannot carry an assume_specification)
#[verifier::external_body]
pub fn shim_u32_to_le_bytes(x: u32) -> (r: [u8; 4])
    ensures r@ == le32(x),
{
    x.to_le_bytes()
}

// ------------------------------------------------------------------ strings as byte sequences (ASSUMED, uninterpreted)
pub open spec fn str_bytes(s: &str) -> Seq<u8> { s.spec_bytes() }   // vstd: str::as_bytes(s)@ == s.spec_bytes()

// vstd: str::len(s) == s.spec_bytes().len() as usize; ASSUMED: a string's byte length fits in usize
pub mod axioms {
    use vstd::prelude::*;
    use vstd::string::StringSliceAdditionalSpecFns;
    #[verifier::external_body]
    pub broadcast proof fn axiom_str_len_fits(s: &str)
        ensures #[trigger] s.spec_bytes().len() <= usize::MAX,
    {
    }

    pub uninterp spec fn itoa_bytes(v: u64) -> Seq<u8>;
    pub uninterp spec fn ryu_bytes(v: f64) -> Seq<u8>;
    // ASSUMED (dependency contracts): decimal u64 is 1..=20 bytes, shortest round-trip f64 is 1..=24 bytes
    #[verifier::external_body]
    pub broadcast proof fn axiom_itoa_len(v: u64)
        ensures 1 <= (#[trigger] itoa_bytes(v)).len() <= 20,
    {
    }
    #[verifier::external_body]
    pub broadcast proof fn axiom_ryu_len(v: f64)
        ensures 1 <= (#[trigger] ryu_bytes(v)).len() <= 24,
    {
    }

    // `remaining(it)`: the items the iterator will still yield, in order (uninterpreted; NOT vstd's prophetic
    // IteratorSpec::remaining, whose prophecy typing forbids ghost-variable use). Linked to real data only through the shims.
    pub uninterp spec fn remaining<I: Iterator>(it: &I) -> Seq<I::Item>;
    /// the items `i.into_iter()` will yield
    pub uninterp spec fn into_remaining<I: IntoIterator>(i: &I) -> Seq<I::Item>;
    // ASSUMED (std: `impl<I: Iterator> IntoIterator for I` is the identity)
    #[verifier::external_body]
    pub broadcast proof fn axiom_iter_into_iter<I: Iterator>(it: &I)
        ensures #[trigger] into_remaining(it) == remaining(it),
    {
    }
}
pub use axioms::{remaining, into_remaining};
broadcast use {axioms::axiom_str_len_fits, axioms::axiom_iter_into_iter, axioms::axiom_itoa_len, axioms::axiom_ryu_len};

// ------------------------------------------------------------------ iterator shims (R2), ASSUMED
// R2d: `S.iter()` -> `shim_slice_iter(S)`: a fresh slice iterator yields the slice's elements in order (std contract)
#[verifier::external_body]
pub fn shim_slice_iter<'a, T>(s: &'a [T]) -> (r: Iter<'a, T>)
    ensures remaining(&r) == s@.as_ref(),
{
    s.iter()
}

#[verifier::external_body]
pub fn shim_into_iter<I: IntoIterator>(i: I) -> (r: I::IntoIter)
    ensures remaining(&r) == into_remaining(&i),
{
    i.into_iter()
}

// R2e: `IT.len()` (ExactSizeIterator, a provided trait method) -> `shim_exact_len(&IT)`
#[verifier::external_body]
pub fn shim_exact_len<I: ExactSizeIterator>(it: &I) -> (r: usize)
    ensures r == remaining(it).len(),
{
    it.len()
}

#[verifier::external_body]
pub fn shim_next<I: Iterator>(it: &mut I) -> (r: Option<I::Item>)
    ensures
        match r {
            Some(x) => remaining(old(it)).len() > 0 && x == remaining(old(it))[0] && remaining(final(it)) == remaining(old(it)).skip(1),
            None => remaining(old(it)).len() == 0 && remaining(final(it)) == remaining(old(it)),
        },
{
    it.next()
}

// ------------------------------------------------------------------ dependency stubs (ASSUMED specs)
#[verifier::external_body]
pub struct Label { _p: [u8; 0] }
impl Label {
    pub uninterp spec fn key_bytes(&self) -> Seq<u8>;
    pub uninterp spec fn value_bytes(&self) -> Seq<u8>;
    #[verifier::external_body]
    pub fn key(&self) -> (r: &str) ensures str_bytes(r) == self.key_bytes() { unimplemented!() }
    #[verifier::external_body]
    pub fn value(&self) -> (r: &str) ensures str_bytes(r) == self.value_bytes() { unimplemented!() }
}

#[verifier::external_body]
pub struct Key { _p: [u8; 0] }
impl Key {
    pub uninterp spec fn name_bytes(&self) -> Seq<u8>;
    pub uninterp spec fn label_seq(&self) -> Seq<&Label>;
    #[verifier::external_body]
    pub fn name(&self) -> (r: &str) ensures str_bytes(r) == self.name_bytes() { unimplemented!() }
    #[verifier::external_body]
    pub fn labels(&self) -> (r: Iter<'_, Label>) ensures into_remaining(&r) == self.label_seq() { unimplemented!() }
}

pub use axioms::{itoa_bytes, ryu_bytes};

pub mod itoa {
    use super::*;
    #[verifier::external_body]
    pub struct Buffer { _p: [u8; 0] }
    impl Buffer {
        #[verifier::external_body]
        pub fn new() -> Buffer { unimplemented!() }
        // ASSUMED: decimal rendering of a u64 is 1..=20 bytes
        #[verifier::external_body]
        pub fn format(&mut self, v: u64) -> (r: &str)
            ensures str_bytes(r) == itoa_bytes(v),
        { unimplemented!() }
    }
}
/// is the value neither NaN nor +-inf (nothing in the writer establishes this for a gauge value)
pub uninterp spec fn f64_is_finite(v: f64) -> bool;
pub mod ryu {
    use super::*;
    #[verifier::external_body]
    pub struct Buffer { _p: [u8; 0] }
    impl Buffer {
        #[verifier::external_body]
        pub fn new() -> Buffer { unimplemented!() }
        // ASSUMED: shortest round-trip rendering of an f64 is 1..=24 bytes
        #[verifier::external_body]
        pub fn format(&mut self, v: f64) -> (r: &str)
            ensures str_bytes(r) == ryu_bytes(v),
        { unimplemented!() }
        // ryu: "This function does not check for NaN or infinity. If the input number is not a finite float, the printed
        // representation will be some correctly formatted but unspecified numerical value" -- so finiteness is the caller's obligation
        #[verifier::external_body]
        pub fn format_finite(&mut self, v: f64) -> (r: &str)
            requires f64_is_finite(v),
            ensures str_bytes(r) == ryu_bytes(v),
        { unimplemented!() }
    }
}

#[verifier::reject_recursive_types(A)]
#[verifier::reject_recursive_types(B)]
#[verifier::external_type_specification]
#[verifier::external_body]
pub struct ExChain<A, B>(std::iter::Chain<A, B>);

#[verifier::reject_recursive_types(A)]
#[verifier::reject_recursive_types(T)]
#[verifier::external_type_specification]
#[verifier::external_body]
pub struct ExDrain<'a, T: 'a, A: Allocator>(std::vec::Drain<'a, T, A>);

// R2f: `V.drain(..)` -> `shim_drain_all(&mut V)`: ASSUMED std contract of Vec::drain(..): yields all elements in order, and the
// vector is empty once the Drain is gone
#[verifier::external_body]
pub fn shim_drain_all<'a>(v: &'a mut Vec<usize>) -> (d: std::vec::Drain<'a, usize>)
    ensures remaining(&d) == old(v)@, final(v)@ == Seq::<usize>::empty(),
{
    v.drain(..)
}

// R2c: `A.chain(B)` -> `shim_chain(A, B)` (Iterator::chain is a provided trait method: no assume_specification possible)
#[verifier::external_body]
pub fn shim_chain<'a>(a: Iter<'a, Label>, b: Iter<'a, Label>) -> (r: std::iter::Chain<Iter<'a, Label>, Iter<'a, Label>>)
    ensures into_remaining(&r) == into_remaining(&a) + into_remaining(&b),
{
    a.chain(b)
}

// ------------------------------------------------------------------ wire format (specification)
pub open spec fn refs<'a>(s: Seq<Label>) -> Seq<&'a Label> { s.as_ref() }   // vstd: s.iter().remaining() == s@.as_ref()
pub open spec fn lit2(a: u8, b: u8) -> Seq<u8> { seq![a, b] }

pub open spec fn tag_bytes(l: &Label) -> Seq<u8> {
    l.key_bytes() + (if l.value_bytes().len() == 0 { Seq::<u8>::empty() } else { seq![58u8] + l.value_bytes() })
}

/// `|#t0,t1,...` (nothing when there are no tags)
pub open spec fn tags_bytes(tags: Seq<&Label>) -> Seq<u8>
    decreases tags.len(),
{
    if tags.len() == 0 {
        Seq::<u8>::empty()
    } else if tags.len() == 1 {
        lit2(124, 35) + tag_bytes(tags[0])
    } else {
        tags_bytes(tags.drop_last()) + seq![44u8] + tag_bytes(tags.last())
    }
}

pub open spec fn rate_bytes(r: Option<f64>) -> Seq<u8> {
    match r { Some(x) => lit2(124, 64) + ryu_bytes(x), None => Seq::<u8>::empty() }
}

pub open spec fn ts_bytes(t: Option<u64>) -> Seq<u8> {
    match t { Some(x) => lit2(124, 84) + itoa_bytes(x), None => Seq::<u8>::empty() }
}

/// everything after `|<type>`: sample rate, tags (global first, then the metric's own), timestamp, LF
pub open spec fn trailer_bytes(rate: Option<f64>, tags: Seq<&Label>, ts: Option<u64>) -> Seq<u8> {
    rate_bytes(rate) + tags_bytes(tags) + ts_bytes(ts) + seq![10u8]
}

pub open spec fn prefix_bytes(p: Option<&str>) -> Seq<u8> {
    match p { Some(x) => str_bytes(x) + seq![46u8], None => Seq::<u8>::empty() }
}


// ------------------------------------------------------------------ histogram / distribution wire format (specification)
/// `:v0:v1:...`
pub open spec fn values_bytes(vs: Seq<f64>) -> Seq<u8>
    decreases vs.len(),
{
    if vs.len() == 0 { Seq::<u8>::empty() } else { values_bytes(vs.drop_last()) + seq![58u8] + ryu_bytes(vs.last()) }
}

/// one complete multi-value message: `<prefix.>name:v0:v1|<type><trailer>`
pub open spec fn hist_line(head: Seq<u8>, vs: Seq<f64>, ty: u8, trailer: Seq<u8>) -> Seq<u8> {
    head + values_bytes(vs) + seq![124u8, ty] + trailer
}

/// a value can be sent at all iff a message holding it alone fits
pub open spec fn fits(v: f64, min_len: int, max: int) -> bool { min_len + ryu_bytes(v).len() + 1 <= max }

/// the sub-sequence of input points that can be sent (order preserved)
pub open spec fn kept(vs: Seq<f64>, min_len: int, max: int) -> Seq<f64>
    decreases vs.len(),
{
    if vs.len() == 0 { Seq::<f64>::empty() }
    else if fits(vs.last(), min_len, max) { kept(vs.drop_last(), min_len, max).push(vs.last()) }
    else { kept(vs.drop_last(), min_len, max) }
}

pub open spec fn concat(cs: Seq<Seq<f64>>) -> Seq<f64>
    decreases cs.len(),
{
    if cs.len() == 0 { Seq::<f64>::empty() } else { concat(cs.drop_last()) + cs.last() }
}

pub proof fn lemma_concat_len(cs: Seq<Seq<f64>>)
    requires forall|j: int| 0 <= j < cs.len() ==> (#[trigger] cs[j]).len() > 0,
    ensures concat(cs).len() >= cs.len(),
    decreases cs.len(),
{
    if cs.len() > 0 {
        assert forall|j: int| 0 <= j < cs.drop_last().len() implies (#[trigger] cs.drop_last()[j]).len() > 0 by { assert(cs.drop_last()[j] == cs[j]); }
        lemma_concat_len(cs.drop_last());
    }
}

pub proof fn lemma_kept_none(vs: Seq<f64>, min_len: int, max: int)
    requires min_len + 2 > max,
    ensures kept(vs, min_len, max).len() == 0,
    decreases vs.len(),
{
    if vs.len() > 0 { lemma_kept_none(vs.drop_last(), min_len, max); }
}

pub proof fn lemma_kept_len(vs: Seq<f64>, min_len: int, max: int)
    ensures kept(vs, min_len, max).len() <= vs.len(),
    decreases vs.len(),
{
    if vs.len() > 0 { lemma_kept_len(vs.drop_last(), min_len, max); }
}

//@ITEM file=metrics-exporter-dogstatsd/src/writer.rs sel=fn write_metric_trailer
//@REWRITE R2c re:\b(\w+)\.chain\((\w+)\) ==> shim_chain(\1, \2)
//@FORLOOP 1 it
//@SPEC
    ensures
        final(buf)@ == old(buf)@ + trailer_bytes(maybe_sample_rate, into_remaining(&global_labels) + key.label_seq(), maybe_timestamp),
//@BEFORE 1 let tags = key.labels();
    let ghost all_tags = into_remaining(&global_labels) + key.label_seq();
    let ghost b0 = old(buf)@ + rate_bytes(maybe_sample_rate);
    assert(buf@ == b0);
//@LOOP 1
        invariant
            remaining(&it).len() <= all_tags.len(),
            remaining(&it) == all_tags.skip(all_tags.len() - remaining(&it).len()),
            wrote_tag == (remaining(&it).len() < all_tags.len()),
            buf@ == b0 + tags_bytes(all_tags.take(all_tags.len() - remaining(&it).len())),
        ensures remaining(&it).len() == 0,
        decreases remaining(&it).len(),
//@BEFORE 1 if wrote_tag {
        let ghost done = all_tags.len() - remaining(&it).len() - 1;
        proof {
            assert(tag == all_tags[done]);
            assert(all_tags.take(done + 1).drop_last() == all_tags.take(done));
            assert(all_tags.take(done + 1).last() == tag);
            if done == 0 { assert(all_tags.take(0).len() == 0); }
        }
//@BEFORE 1 if let Some(timestamp) = maybe_timestamp {
    proof { assert(all_tags.take(all_tags.len() as int) == all_tags); }
    let ghost b1 = buf@;
//@AFTER 1 buf.push(b'\n');
    proof {
        assert(buf@ == b1 + ts_bytes(maybe_timestamp) + seq![10u8]);
        assert(b1 == b0 + tags_bytes(all_tags));
        assert(buf@ =~= old(buf)@ + (rate_bytes(maybe_sample_rate) + tags_bytes(all_tags) + ts_bytes(maybe_timestamp) + seq![10u8]));
    }
//@END

// R7: `V[A..B].copy_from_slice(S)` -> `shim_copy_into(&mut V, A, B, S)`: vstd gives the range IndexMut of Vec no usable
// specification (the borrowed sub-slice is havocked); the shim's body is the same expression.
#[verifier::external_body]
pub fn shim_copy_into(v: &mut Vec<u8>, a: usize, b: usize, src: &[u8])
    requires a <= b <= old(v)@.len(), src@.len() == b - a,
    ensures final(v)@ == old(v)@.subrange(0, a as int) + src@ + old(v)@.subrange(b as int, old(v)@.len() as int),
{
    v[a..b].copy_from_slice(src);
}


//@ITEM file=metrics-exporter-dogstatsd/src/writer.rs sel=struct WriteResult
//@END

impl WriteResult {
//@ITEM file=metrics-exporter-dogstatsd/src/writer.rs sel=impl WriteResult :: fn success ret=r
//@SPEC
    ensures r.payloads_written == payloads_written, r.points_dropped == 0,
//@END
//@ITEM file=metrics-exporter-dogstatsd/src/writer.rs sel=impl WriteResult :: fn failure ret=r
//@SPEC
    ensures r.payloads_written == 0, r.points_dropped == points_dropped,
//@END
//@ITEM file=metrics-exporter-dogstatsd/src/writer.rs sel=impl WriteResult :: fn new ret=r
//@SPEC
    ensures r.payloads_written == 0, r.points_dropped == 0,
//@END
//@ITEM file=metrics-exporter-dogstatsd/src/writer.rs sel=impl WriteResult :: fn increment_payloads_written
//@SPEC
    requires old(self).payloads_written < u64::MAX,
    ensures final(self).payloads_written == old(self).payloads_written + 1, final(self).points_dropped == old(self).points_dropped,
//@END
//@ITEM file=metrics-exporter-dogstatsd/src/writer.rs sel=impl WriteResult :: fn increment_points_dropped
//@SPEC
    requires old(self).points_dropped < u64::MAX,
    ensures final(self).points_dropped == old(self).points_dropped + 1, final(self).payloads_written == old(self).payloads_written,
//@END
//@ITEM file=metrics-exporter-dogstatsd/src/writer.rs sel=impl WriteResult :: fn any_failures ret=r
//@SPEC
    ensures r == (self.points_dropped != 0),
//@END
//@ITEM file=metrics-exporter-dogstatsd/src/writer.rs sel=impl WriteResult :: fn payloads_written ret=r
//@SPEC
    ensures r == self.payloads_written,
//@END
//@ITEM file=metrics-exporter-dogstatsd/src/writer.rs sel=impl WriteResult :: fn points_dropped ret=r
//@SPEC
    ensures r == self.points_dropped,
//@END
}

//@ITEM file=metrics-exporter-dogstatsd/src/writer.rs sel=struct PayloadWriter
//@END

impl PayloadWriter {
    spec fn plen(&self) -> int { if self.with_length_prefix { 4 } else { 0 } }
    spec fn off(&self, i: int) -> int { if i < 0 { 0 } else { self.offsets@[i] as int } }
    spec fn last(&self) -> int { self.off(self.offsets@.len() - 1) }
    /// the uncommitted bytes of the payload being built
    spec fn tail(&self) -> Seq<u8> { self.buf@.subrange(self.last() + self.plen(), self.buf@.len() as int) }
    /// i-th committed frame, header included
    spec fn frame(&self, i: int) -> Seq<u8> { self.buf@.subrange(self.off(i - 1), self.off(i)) }
    spec fn nframes(&self) -> int { self.offsets@.len() as int }
    spec fn frame_ok(&self, i: int) -> bool {
        let f = self.frame(i);
        &&& self.off(i - 1) + self.plen() <= self.off(i)
        &&& f.len() - self.plen() <= self.max_payload_len
        &&& self.with_length_prefix ==> f.subrange(0, 4) == le32((f.len() - 4) as u32)
    }
    proof fn lemma_mono(&self, i: int, j: int)
        requires self.wf(), -1 <= i <= j < self.offsets@.len(),
        ensures self.off(i) <= self.off(j),
        decreases j - i,
    {
        if i < j { self.lemma_mono(i, j - 1); assert(self.frame_ok(j)); }
    }
    /// representation invariant
    spec fn wf(&self) -> bool {
        &&& self.max_payload_len <= u32::MAX
        &&& forall|i: int| 0 <= i < self.offsets@.len() ==> #[trigger] self.off(i) <= self.buf@.len()
        &&& self.last() + self.plen() <= self.buf@.len()
        &&& forall|i: int| 0 <= i < self.offsets@.len() ==> #[trigger] self.frame_ok(i)
    }

//@ITEM file=metrics-exporter-dogstatsd/src/writer.rs sel=impl PayloadWriter :: fn last_offset ret=r
//@SPEC
    ensures r as int == self.last(),
//@END

//@ITEM file=metrics-exporter-dogstatsd/src/writer.rs sel=impl PayloadWriter :: fn current_len ret=r
//@SPEC
    requires self.wf(),
    ensures r as int == self.tail().len(),
//@END

//@ITEM file=metrics-exporter-dogstatsd/src/writer.rs sel=impl PayloadWriter :: fn prepare_for_write
//@SPEC
    ensures
        final(self).buf@ == old(self).buf@ + (if old(self).with_length_prefix { seq![0u8, 0u8, 0u8, 0u8] } else { Seq::<u8>::empty() }),
        final(self).offsets == old(self).offsets,
        final(self).max_payload_len == old(self).max_payload_len,
        final(self).with_length_prefix == old(self).with_length_prefix,
        final(self).trailer_buf == old(self).trailer_buf,
//@END

//@ITEM file=metrics-exporter-dogstatsd/src/writer.rs sel=impl PayloadWriter :: fn commit ret=ok
//@REWRITE R1 u32::try_from(current_len).unwrap().to_le_bytes() ==> shim_u32_to_le_bytes(u32::try_from(current_len).unwrap())
//@REWRITE R7 self.buf[current_last_offset..current_last_offset + 4] .copy_from_slice(&current_len_buf[..]); ==> shim_copy_into(&mut self.buf, current_last_offset, current_last_offset + 4, &current_len_buf[..]);
//@SPEC
    requires old(self).wf(),
    ensures
        final(self).wf(),
        final(self).max_payload_len == old(self).max_payload_len,
        final(self).with_length_prefix == old(self).with_length_prefix,
        final(self).trailer_buf == old(self).trailer_buf,
        final(self).tail() == Seq::<u8>::empty(),
        ok <==> old(self).tail().len() <= old(self).max_payload_len,
        forall|i: int| 0 <= i < old(self).nframes() ==> #[trigger] final(self).frame(i) == old(self).frame(i),
        final(self).nframes() == old(self).nframes() + (if ok { 1int } else { 0int }),
        ok ==> final(self).payload(old(self).nframes()) == old(self).tail(),
        !ok ==> final(self).offsets@ == old(self).offsets@
            && final(self).buf@.subrange(0, old(self).last()) == old(self).buf@.subrange(0, old(self).last()),
        ok ==> final(self).offsets@ == old(self).offsets@.push(old(self).buf@.len() as usize)
            && final(self).buf@.subrange(0, old(self).last()) == old(self).buf@.subrange(0, old(self).last())
            && final(self).frame(old(self).nframes()).subrange(old(self).plen(), old(self).plen() + old(self).tail().len()) == old(self).tail(),
//@BEFORE 1 return false;
            proof {
                assert forall|i: int| 0 <= i < self.offsets@.len() implies #[trigger] self.frame(i) == old(self).frame(i) by {
                    old(self).lemma_mono(i, old(self).offsets@.len() - 1);
                    old(self).lemma_mono(i - 1, old(self).offsets@.len() - 1);
                    assert(old(self).frame_ok(i));
                }
                assert forall|i: int| 0 <= i < self.offsets@.len() implies #[trigger] self.frame_ok(i) by {
                    assert(old(self).frame_ok(i));
                    assert(self.frame(i) == old(self).frame(i));
                }
                assert forall|i: int| 0 <= i < self.offsets@.len() implies #[trigger] self.off(i) <= self.buf@.len() by {
                    old(self).lemma_mono(i, old(self).offsets@.len() - 1);
                }
            }
//@BEFORE 1 true
        proof {
            let n = old(self).offsets@.len() as int;
            assert forall|i: int| 0 <= i < n implies #[trigger] self.frame(i) == old(self).frame(i) by {
                old(self).lemma_mono(i, n - 1);
                old(self).lemma_mono(i - 1, n - 1);
                assert(old(self).frame_ok(i));
                assert(self.off(i) == old(self).off(i));
                assert(self.off(i - 1) == old(self).off(i - 1));
            }
            assert forall|i: int| 0 <= i < n implies #[trigger] self.frame_ok(i) by {
                assert(old(self).frame_ok(i));
                assert(self.frame(i) == old(self).frame(i));
                assert(self.off(i) == old(self).off(i));
                assert(self.off(i - 1) == old(self).off(i - 1));
            }
            let f = self.frame(n);
            let l0 = old(self).last();
            let n0 = old(self).buf@.len() as int;
            assert(self.off(n) == n0);
            assert(self.off(n - 1) == l0);
            if self.with_length_prefix {
                let mid = old(self).buf@.subrange(0, l0) + le32(current_len as u32) + old(self).buf@.subrange(l0 + 4, n0);
                assert(le32(current_len as u32).len() == 4);
                assert(self.buf@ == mid + seq![0u8, 0u8, 0u8, 0u8]);
                assert(f.subrange(0, 4) =~= le32(current_len as u32));
                assert(f.len() - 4 == current_len);
            }
            assert(self.frame_ok(n));
            assert(self.payload(n) =~= old(self).tail());
            assert forall|i: int| 0 <= i < self.offsets@.len() implies #[trigger] self.off(i) <= self.buf@.len() by {
                if i < n { assert(old(self).off(i) <= old(self).buf@.len()); assert(self.off(i) == old(self).off(i)); }
            }
        }
//@END

//@ITEM file=metrics-exporter-dogstatsd/src/writer.rs sel=impl PayloadWriter :: fn new ret=w
//@SPEC
    requires max_payload_len <= u32::MAX,
    ensures w.wf(), w.nframes() == 0, w.tail() == Seq::<u8>::empty(),
        w.max_payload_len == max_payload_len, w.with_length_prefix == with_length_prefix,
//@END

    /// payload (header stripped) of the i-th committed frame
    spec fn payload(&self, i: int) -> Seq<u8> { self.frame(i).subrange(self.plen(), self.frame(i).len() as int) }

    /// same committed frames, same configuration; only the uncommitted tail / trailer scratch may differ
    spec fn same_frames(&self, o: &PayloadWriter) -> bool {
        &&& self.offsets@ == o.offsets@
        &&& self.max_payload_len == o.max_payload_len
        &&& self.with_length_prefix == o.with_length_prefix
        &&& self.buf@.len() >= o.last() + o.plen()
        &&& self.buf@.subrange(0, o.last() + o.plen()) == o.buf@.subrange(0, o.last() + o.plen())
    }

    /// appending bytes to the buffer only extends the uncommitted tail
    proof fn lemma_append(&self, o: &PayloadWriter, x: Seq<u8>)
        requires o.wf(), self.offsets@ == o.offsets@, self.max_payload_len == o.max_payload_len,
            self.with_length_prefix == o.with_length_prefix, self.buf@ == o.buf@ + x,
        ensures self.wf(), self.tail() == o.tail() + x, self.nframes() == o.nframes(),
            forall|i: int| 0 <= i < o.nframes() ==> #[trigger] self.frame(i) == o.frame(i),
            forall|i: int| 0 <= i < o.nframes() ==> #[trigger] self.payload(i) == o.payload(i),
    {
        assert(self.buf@.subrange(0, o.last() + o.plen()) =~= o.buf@.subrange(0, o.last() + o.plen()));
        self.lemma_same_frames(o);
        assert(self.tail() =~= o.tail() + x);
    }

    proof fn lemma_same_frames(&self, o: &PayloadWriter)
        requires o.wf(), self.same_frames(o),
        ensures self.wf(), forall|i: int| 0 <= i < o.nframes() ==> #[trigger] self.frame(i) == o.frame(i),
    {
        assert forall|i: int| 0 <= i < o.nframes() implies #[trigger] self.frame(i) == o.frame(i) by {
            o.lemma_mono(i, o.nframes() - 1);
            o.lemma_mono(i - 1, o.nframes() - 1);
            assert(o.frame_ok(i));
            assert(self.off(i) == o.off(i));
            assert(self.off(i - 1) == o.off(i - 1));
            let l = o.last() + o.plen();
            let (a, b) = (o.off(i - 1), o.off(i));
            assert(0 <= a <= b <= l);
            assert(self.buf@.subrange(0, l).subrange(a, b) =~= self.buf@.subrange(a, b));
            assert(o.buf@.subrange(0, l).subrange(a, b) =~= o.buf@.subrange(a, b));
        }
        assert forall|i: int| 0 <= i < self.offsets@.len() implies #[trigger] self.frame_ok(i) by {
            assert(o.frame_ok(i));
            assert(self.frame(i) == o.frame(i));
        }
        assert forall|i: int| 0 <= i < self.offsets@.len() implies #[trigger] self.off(i) <= self.buf@.len() by {
            o.lemma_mono(i, o.nframes() - 1);
        }
    }

//@ITEM file=metrics-exporter-dogstatsd/src/writer.rs sel=impl PayloadWriter :: fn write_trailing
//@REWRITE R2d re:\b(\w+)\.iter\(\) ==> shim_slice_iter(\1)
//@SPEC
    ensures
        final(self).buf@ == old(self).buf@ + trailer_bytes(None, refs(global_labels@) + key.label_seq(), timestamp),
        final(self).offsets == old(self).offsets,
        final(self).max_payload_len == old(self).max_payload_len,
        final(self).with_length_prefix == old(self).with_length_prefix,
        final(self).trailer_buf == old(self).trailer_buf,
//@END

//@ITEM file=metrics-exporter-dogstatsd/src/writer.rs sel=impl PayloadWriter :: fn write_counter ret=r
//@SPEC
    requires old(self).wf(), old(self).tail().len() == 0,
    ensures
        final(self).wf(), final(self).tail().len() == 0,
        final(self).max_payload_len == old(self).max_payload_len,
        final(self).with_length_prefix == old(self).with_length_prefix,
        forall|i: int| 0 <= i < old(self).nframes() ==> #[trigger] final(self).frame(i) == old(self).frame(i),
        ({
            let line = prefix_bytes(prefix) + key.name_bytes() + seq![58u8] + itoa_bytes(value) + lit2(124, 99)
                + trailer_bytes(None, refs(global_labels@) + key.label_seq(), timestamp);
            if line.len() <= old(self).max_payload_len {
                r.payloads_written == 1 && r.points_dropped == 0 && final(self).nframes() == old(self).nframes() + 1
                    && final(self).payload(old(self).nframes()) == line
            } else {
                r.payloads_written == 0 && r.points_dropped == 1 && final(self).nframes() == old(self).nframes()
            }
        }),
//@BEFORE 1 if self.commit() {
        let ghost pre = *self;
        proof {
            let line = prefix_bytes(prefix) + key.name_bytes() + seq![58u8] + itoa_bytes(value) + lit2(124, 99)
                + trailer_bytes(None, refs(global_labels@) + key.label_seq(), timestamp);
            assert(self.buf@ =~= old(self).buf@ + line);
            assert(self.buf@.subrange(0, old(self).last() + old(self).plen()) =~= old(self).buf@.subrange(0, old(self).last() + old(self).plen()));
            self.lemma_same_frames(old(self));
            assert(self.tail() =~= line);
        }
//@END

//@ITEM file=metrics-exporter-dogstatsd/src/writer.rs sel=impl PayloadWriter :: fn write_gauge ret=r
//@SPEC
    requires old(self).wf(), old(self).tail().len() == 0,
    ensures
        final(self).wf(), final(self).tail().len() == 0,
        final(self).max_payload_len == old(self).max_payload_len,
        final(self).with_length_prefix == old(self).with_length_prefix,
        forall|i: int| 0 <= i < old(self).nframes() ==> #[trigger] final(self).frame(i) == old(self).frame(i),
        ({
            let line = prefix_bytes(prefix) + key.name_bytes() + seq![58u8] + ryu_bytes(value) + lit2(124, 103)
                + trailer_bytes(None, refs(global_labels@) + key.label_seq(), timestamp);
            if line.len() <= old(self).max_payload_len {
                r.payloads_written == 1 && r.points_dropped == 0 && final(self).nframes() == old(self).nframes() + 1
                    && final(self).payload(old(self).nframes()) == line
            } else {
                r.payloads_written == 0 && r.points_dropped == 1 && final(self).nframes() == old(self).nframes()
            }
        }),
//@BEFORE 1 if self.commit() {
        let ghost pre = *self;
        proof {
            let line = prefix_bytes(prefix) + key.name_bytes() + seq![58u8] + ryu_bytes(value) + lit2(124, 103)
                + trailer_bytes(None, refs(global_labels@) + key.label_seq(), timestamp);
            assert(self.buf@ =~= old(self).buf@ + line);
            assert(self.buf@.subrange(0, old(self).last() + old(self).plen()) =~= old(self).buf@.subrange(0, old(self).last() + old(self).plen()));
            self.lemma_same_frames(old(self));
            assert(self.tail() =~= line);
        }
//@END

    /// everything the property says about one write_histogram / write_distribution call, for a witness chunking
    spec fn hist_post(pre: &PayloadWriter, post: &PayloadWriter, chunks: Seq<Seq<f64>>, r: WriteResult, key: &Key, vals: Seq<f64>,
                      ty: u8, rate: Option<f64>, prefix: Option<&str>, gl: &[Label]) -> bool {
        let tr = trailer_bytes(rate, refs(gl@) + key.label_seq(), None);
        let head = prefix_bytes(prefix) + key.name_bytes();
        let min_len = head.len() + tr.len() + 2;
        let sent = kept(vals, min_len as int, pre.max_payload_len as int);
        &&& concat(chunks) == sent                                   // every sendable point is in exactly one payload, in order
        &&& r.points_dropped == vals.len() - sent.len()              // every other point is reported dropped
        &&& r.payloads_written == chunks.len()
        &&& post.nframes() == pre.nframes() + chunks.len()
        &&& forall|j: int| 0 <= j < chunks.len() ==> (#[trigger] chunks[j]).len() > 0
        &&& forall|j: int| 0 <= j < chunks.len() ==> #[trigger] post.payload(pre.nframes() + j) == hist_line(head, chunks[j], ty, tr)
    }

#[verifier::spinoff_prover]
//@ITEM file=metrics-exporter-dogstatsd/src/writer.rs sel=impl PayloadWriter :: fn write_hist_dist_inner ret=r
//@REWRITE R2 let values = values.into_iter(); ==> let values = shim_into_iter(values);
//@REWRITE R2d re:\b(\w+)\.iter\(\) ==> shim_slice_iter(\1)
//@REWRITE R2e re:\bvalues\.len\(\) ==> shim_exact_len(&values)
//@FORLOOP 1 it
//@SPEC
    requires
        old(self).wf(), old(self).tail().len() == 0,
        // machine arithmetic: metadata sizes are assumed far below usize::MAX (they are in-memory buffers)
        prefix_bytes(prefix).len() + key.name_bytes().len() + trailer_bytes(maybe_sample_rate, refs(global_labels@) + key.label_seq(), None).len() + 64 <= usize::MAX,
        into_remaining(&values).len() <= usize::MAX,   // ExactSizeIterator: the length is a usize
    ensures
        final(self).wf(), final(self).tail().len() == 0,
        final(self).max_payload_len == old(self).max_payload_len,
        final(self).with_length_prefix == old(self).with_length_prefix,
        forall|i: int| 0 <= i < old(self).nframes() ==> #[trigger] final(self).frame(i) == old(self).frame(i),
        exists|chunks: Seq<Seq<f64>>| Self::hist_post(old(self), final(self), chunks, r, key, into_remaining(&values), metric_type, maybe_sample_rate, prefix, global_labels),
//@AFTER 1 let values = shim_into_iter(values);
        let ghost vals = remaining(&values);
        let ghost old_n = old(self).nframes();
        let ghost tr = trailer_bytes(maybe_sample_rate, refs(global_labels@) + key.label_seq(), None);
        let ghost head = prefix_bytes(prefix) + key.name_bytes();
        let ghost true_min = (head.len() + tr.len() + 2) as int;
        let ghost max = self.max_payload_len as int;
        let ghost mut chunks: Seq<Seq<f64>> = Seq::empty();
        let ghost mut cur: Seq<f64> = Seq::empty();
//@BEFORE 1 let minimum_payload_len =
        proof {
            assert(self.trailer_buf@ =~= tr);
            assert(self.buf@ == old(self).buf@);
        }
//@BEFORE 1 return WriteResult::failure(
            proof {
                lemma_kept_none(vals, true_min, max);
                assert(concat(chunks) =~= kept(vals, true_min, max));
                assert(self.tail() =~= old(self).tail());
                self.lemma_same_frames(old(self));
                let r0 = WriteResult { payloads_written: 0, points_dropped: vals.len() as u64 };
                assert(Self::hist_post(old(self), self, chunks, r0, key, vals, metric_type, maybe_sample_rate, prefix, global_labels));
            }
//@BEFORE 1 let mut needs_name = true;
        proof { self.lemma_same_frames(old(self)); assert(self.tail() =~= old(self).tail()); assert(vals.take(0) =~= Seq::<f64>::empty()); }
//@LOOP 1
            invariant
                self.wf(),
                self.max_payload_len == old(self).max_payload_len, self.with_length_prefix == old(self).with_length_prefix,
                max == self.max_payload_len,
                self.trailer_buf@ == tr,
                tr == trailer_bytes(maybe_sample_rate, refs(global_labels@) + key.label_seq(), None),
                head == prefix_bytes(prefix) + key.name_bytes(),
                true_min == head.len() + tr.len() + 2,
                old_n == old(self).nframes(),
                remaining(&it).len() <= vals.len(),
                remaining(&it) == vals.skip(vals.len() - remaining(&it).len()),
                concat(chunks) + cur == kept(vals.take(vals.len() - remaining(&it).len()), true_min, max),
                result.points_dropped == (vals.len() - remaining(&it).len()) - (concat(chunks) + cur).len(),
                result.payloads_written == chunks.len(),
                forall|j: int| 0 <= j < chunks.len() ==> (#[trigger] chunks[j]).len() > 0,
                self.nframes() == old_n + chunks.len(),
                forall|j: int| 0 <= j < chunks.len() ==> #[trigger] self.payload(old_n + j) == hist_line(head, chunks[j], metric_type, tr),
                forall|i: int| 0 <= i < old_n ==> #[trigger] self.frame(i) == old(self).frame(i),
                needs_name == (cur.len() == 0),
                self.tail() == (if cur.len() == 0 { Seq::<u8>::empty() } else { head + values_bytes(cur) }),
                current_len == true_min + values_bytes(cur).len(),
                minimum_payload_len == true_min,
                current_len <= max,
                true_min + 2 <= max,
                vals.len() <= usize::MAX,
            ensures remaining(&it).len() == 0,
            decreases remaining(&it).len(),
//@BEFORE 1 let value_str = float_writer.format(value);
            let ghost k = vals.len() - remaining(&it).len() - 1;
            proof {
                assert(value == vals[k]);
                assert(vals.take(k + 1).drop_last() =~= vals.take(k));
                assert(vals.take(k + 1).last() == value);
                lemma_kept_len(vals.take(k), true_min, max);
                lemma_concat_len(chunks);
            }
//@BEFORE 1 if minimum_payload_len + value_str.len() + 1 > self.max_payload_len {
            proof {
                assert(value_str.len() == ryu_bytes(value).len());
                assert(ryu_bytes(value).len() <= 24);
                assert(minimum_payload_len <= u32::MAX);
                assert(current_len <= u32::MAX);
            }
//@BEFORE 1 self.buf.push(b'|');
                let ghost pre = *self;
//@BEFORE 1 assert!(self.commit(),
                proof {
                    assert(self.buf@ =~= pre.buf@ + (seq![124u8, metric_type] + tr));
                    self.lemma_append(&pre, seq![124u8, metric_type] + tr);
                    assert(self.tail() =~= hist_line(head, cur, metric_type, tr));
                    assert(hist_line(head, cur, metric_type, tr).len() == head.len() + values_bytes(cur).len() + 2 + tr.len());
                    assert(self.tail().len() == current_len);
                }
                let ghost pre2 = *self;
//@AFTER 1 assert!(self.commit(),
                proof {
                    assert forall|j: int| 0 <= j < chunks.len() implies #[trigger] self.payload(old_n + j) == hist_line(head, chunks[j], metric_type, tr) by {
                        assert(self.frame(old_n + j) == pre2.frame(old_n + j));
                        assert(pre2.frame(old_n + j) == pre.frame(old_n + j));
                        assert(pre.payload(old_n + j) == hist_line(head, chunks[j], metric_type, tr));
                    }
                    assert forall|i: int| 0 <= i < old_n implies #[trigger] self.frame(i) == old(self).frame(i) by {
                        assert(self.frame(i) == pre2.frame(i));
                        assert(pre2.frame(i) == pre.frame(i));
                    }
                    assert(self.payload(old_n + chunks.len()) == hist_line(head, cur, metric_type, tr));
                    let chunks2 = chunks.push(cur);
                    assert(chunks2.drop_last() =~= chunks);
                    assert(concat(chunks2) =~= concat(chunks) + cur);
                    assert forall|j: int| 0 <= j < chunks2.len() implies #[trigger] self.payload(old_n + j) == hist_line(head, chunks2[j], metric_type, tr) by {
                        if j < chunks.len() { assert(chunks2[j] == chunks[j]); }
                    }
                    chunks = chunks2;
                    cur = Seq::<f64>::empty();
                    assert(values_bytes(cur).len() == 0);
                }
//@BEFORE 1 if needs_name {
            let ghost pre3 = *self;
//@BEFORE 1 current_len += value_str.len() + 1;
            proof {
                let cur2 = cur.push(value);
                assert(cur2.drop_last() =~= cur);
                let added = (if cur.len() == 0 { head } else { Seq::<u8>::empty() }) + seq![58u8] + ryu_bytes(value);
                if cur.len() == 0 {
                    match prefix {
                        Some(p) => { assert(head =~= str_bytes(p) + seq![46u8] + key.name_bytes()); }
                        None => { assert(head =~= key.name_bytes()); }
                    }
                    assert(self.buf@ =~= pre3.buf@ + head + seq![58u8] + ryu_bytes(value));
                } else {
                    assert(self.buf@ =~= pre3.buf@ + seq![58u8] + ryu_bytes(value));
                }
                assert(self.buf@ =~= pre3.buf@ + added);
                self.lemma_append(&pre3, added);
                assert(self.tail() =~= head + values_bytes(cur2));
                assert((concat(chunks) + cur).push(value) =~= concat(chunks) + cur2);
                cur = cur2;
            }
//@AFTERLOOP 1
        proof { assert(vals.take(vals.len() as int) =~= vals); lemma_concat_len(chunks); lemma_kept_len(vals, true_min, max); }
//@BEFORE 2 self.buf.push(b'|');
            let ghost pre = *self;
//@BEFORE 2 assert!(self.commit(),
            proof {
                assert(self.buf@ =~= pre.buf@ + (seq![124u8, metric_type] + tr));
                self.lemma_append(&pre, seq![124u8, metric_type] + tr);
                assert(self.tail() =~= hist_line(head, cur, metric_type, tr));
                assert(hist_line(head, cur, metric_type, tr).len() == head.len() + values_bytes(cur).len() + 2 + tr.len());
                assert(self.tail().len() == current_len);
            }
            let ghost pre2 = *self;
//@AFTER 2 assert!(self.commit(),
            proof {
                assert forall|j: int| 0 <= j < chunks.len() implies #[trigger] self.payload(old_n + j) == hist_line(head, chunks[j], metric_type, tr) by {
                    assert(self.frame(old_n + j) == pre2.frame(old_n + j));
                    assert(pre2.frame(old_n + j) == pre.frame(old_n + j));
                    assert(pre.payload(old_n + j) == hist_line(head, chunks[j], metric_type, tr));
                }
                assert forall|i: int| 0 <= i < old_n implies #[trigger] self.frame(i) == old(self).frame(i) by {
                    assert(self.frame(i) == pre2.frame(i));
                    assert(pre2.frame(i) == pre.frame(i));
                }
                assert(self.payload(old_n + chunks.len()) == hist_line(head, cur, metric_type, tr));
                let chunks2 = chunks.push(cur);
                assert(chunks2.drop_last() =~= chunks);
                assert(concat(chunks2) =~= concat(chunks) + cur);
                assert forall|j: int| 0 <= j < chunks2.len() implies #[trigger] self.payload(old_n + j) == hist_line(head, chunks2[j], metric_type, tr) by {
                    if j < chunks.len() { assert(chunks2[j] == chunks[j]); }
                }
                chunks = chunks2;
                cur = Seq::<f64>::empty();
            }
//@BEFORE 1 =result
        proof {
            assert(cur.len() == 0);
            assert(concat(chunks) + cur =~= concat(chunks));
            assert(Self::hist_post(old(self), self, chunks, result, key, vals, metric_type, maybe_sample_rate, prefix, global_labels));
        }
//@END

//@ITEM file=metrics-exporter-dogstatsd/src/writer.rs sel=impl PayloadWriter :: fn write_histogram ret=r
//@SPEC
    requires
        old(self).wf(), old(self).tail().len() == 0,
        prefix_bytes(prefix).len() + key.name_bytes().len() + trailer_bytes(maybe_sample_rate, refs(global_labels@) + key.label_seq(), None).len() + 64 <= usize::MAX,
        into_remaining(&values).len() <= usize::MAX,
    ensures
        final(self).wf(), final(self).tail().len() == 0,
        final(self).max_payload_len == old(self).max_payload_len,
        final(self).with_length_prefix == old(self).with_length_prefix,
        forall|i: int| 0 <= i < old(self).nframes() ==> #[trigger] final(self).frame(i) == old(self).frame(i),
        exists|chunks: Seq<Seq<f64>>| Self::hist_post(old(self), final(self), chunks, r, key, into_remaining(&values), 104u8, maybe_sample_rate, prefix, global_labels),
//@END

//@ITEM file=metrics-exporter-dogstatsd/src/writer.rs sel=impl PayloadWriter :: fn write_distribution ret=r
//@SPEC
    requires
        old(self).wf(), old(self).tail().len() == 0,
        prefix_bytes(prefix).len() + key.name_bytes().len() + trailer_bytes(maybe_sample_rate, refs(global_labels@) + key.label_seq(), None).len() + 64 <= usize::MAX,
        into_remaining(&values).len() <= usize::MAX,
    ensures
        final(self).wf(), final(self).tail().len() == 0,
        final(self).max_payload_len == old(self).max_payload_len,
        final(self).with_length_prefix == old(self).with_length_prefix,
        forall|i: int| 0 <= i < old(self).nframes() ==> #[trigger] final(self).frame(i) == old(self).frame(i),
        exists|chunks: Seq<Seq<f64>>| Self::hist_post(old(self), final(self), chunks, r, key, into_remaining(&values), 100u8, maybe_sample_rate, prefix, global_labels),
//@END



}



// ------------------------------------------------------------------ Payloads (the draining iterator of one flush cycle)
//@ITEM file=metrics-exporter-dogstatsd/src/writer.rs sel=struct Payloads
//@END

//@IF file=metrics-exporter-dogstatsd/src/writer.rs sel=struct Payloads contains=with_length_prefix
/// framing mode the Payloads value was created for (abstraction function over the struct's own field)
spec fn payloads_mode(p: &Payloads) -> bool { p.with_length_prefix }
//@ELSE
/// framing mode the Payloads value was created for; the struct keeps no record of it, so this is a ghost attribute
uninterp spec fn payloads_mode(p: &Payloads) -> bool;
//@ENDIF

impl<'a> Payloads<'a> {
    /// offsets still to be yielded are increasing, start at or after `start`, and lie inside the buffer
    spec fn pwf(&self) -> bool {
        let r = remaining(&self.offsets);
        &&& forall|i: int| 0 <= i < r.len() ==> self.start <= #[trigger] r[i] <= self.buf@.len()
        &&& forall|i: int, j: int| 0 <= i <= j < r.len() ==> r[i] <= r[j]
    }

//@ITEM file=metrics-exporter-dogstatsd/src/writer.rs sel=impl<'a> Payloads<'a> :: fn len ret=r
//@REWRITE R2e self.offsets.len() ==> shim_exact_len(&self.offsets)
//@SPEC
    ensures r == remaining(&self.offsets).len(),
//@END

//@ITEM file=metrics-exporter-dogstatsd/src/writer.rs sel=impl<'a> Payloads<'a> :: fn next_payload ret=r
//@REWRITE R2 self.offsets.next()? ==> shim_next(&mut self.offsets)?
//@SPEC
    requires old(self).pwf(),
    ensures
        final(self).pwf(),
        *final(final(self).buf) == *final(old(self).buf),
        *final(self).buf == *old(self).buf,
        payloads_mode(final(self)) == payloads_mode(old(self)),
        match r {
            Some(s) => {
                let rest = remaining(&old(self).offsets);
                &&& rest.len() > 0
                &&& s@ == old(self).buf@.subrange(old(self).start as int, rest[0] as int)   // exactly the next frame
                &&& final(self).start == rest[0]
                &&& remaining(&final(self).offsets) == rest.skip(1)
            },
            None => remaining(&old(self).offsets).len() == 0 && remaining(&final(self).offsets).len() == 0
                && final(self).start == old(self).start,
        },
//@END

// R9: `impl Drop for Payloads { fn drop }` is verified as an inherent method (vstd's Vec::clear carries no `no_unwind`, which Verus
// demands inside Drop); the text of `fn drop` is taken verbatim from the Drop impl.
//@ITEM file=metrics-exporter-dogstatsd/src/writer.rs sel=impl<'a> Drop for Payloads<'a> :: fn drop
//@SPEC
    ensures
        *final(final(self).buf) == *final(old(self).buf),
        // the buffer is left ready for the next flush cycle: empty, plus the placeholder of the first payload in length-prefixed mode
        final(self).buf@ == (if payloads_mode(old(self)) { seq![0u8, 0u8, 0u8, 0u8] } else { Seq::<u8>::empty() }),
//@END
}

impl PayloadWriter {
//@ITEM file=metrics-exporter-dogstatsd/src/writer.rs sel=impl PayloadWriter :: fn payloads ret=r
//@REWRITE R2f self.offsets.drain(..) ==> shim_drain_all(&mut self.offsets)
//@SPEC
    requires old(self).wf(), old(self).tail().len() == 0,
    ensures
        r.pwf(), r.start == 0,
        *r.buf == old(self).buf,
        remaining(&r.offsets) == old(self).offsets@,
        payloads_mode(&r) == old(self).with_length_prefix,
        final(self).buf == *final(r.buf),
        final(self).offsets@ == Seq::<usize>::empty(),
        final(self).max_payload_len == old(self).max_payload_len,
        final(self).with_length_prefix == old(self).with_length_prefix,
//@BEFORE 1 Payloads {
        proof {
            assert forall|i: int, j: int| 0 <= i <= j < self.offsets@.len() implies self.offsets@[i] <= self.offsets@[j] by {
                self.lemma_mono(i, j);
            }
            assert forall|i: int| 0 <= i < self.offsets@.len() implies self.offsets@[i] <= self.buf@.len() by {
                assert(self.off(i) <= self.buf@.len());
            }
        }
//@END

    /// One flush cycle as the forwarder runs it (caller harness, checked against the callee contracts only):
    /// every committed frame is handed out exactly once, in order, and afterwards the writer is as good as new.
    fn verif_flush_cycle(&mut self) -> (n: usize)
        requires old(self).wf(), old(self).tail().len() == 0,
        ensures final(self).wf(), final(self).nframes() == 0, final(self).tail().len() == 0,
            n == old(self).nframes(),
            final(self).max_payload_len == old(self).max_payload_len,
            final(self).with_length_prefix == old(self).with_length_prefix,
    {
        let ghost w0 = *self;
        let committed = self.offsets.len();   // (harness only) a Vec's length is a usize
        let mut p = self.payloads();
        let n = verif_drain(&mut p, Ghost(w0));
        p.drop();   // what Rust runs when `p` goes out of scope
        n
    }
}

/// caller harness: pull payloads until None; each one is exactly the next committed frame of the writer snapshot `w0`
fn verif_drain<'a>(p: &mut Payloads<'a>, Ghost(w0): Ghost<PayloadWriter>) -> (n: usize)
    requires w0.nframes() <= usize::MAX, old(p).pwf(), w0.wf(), old(p).start == 0, *old(p).buf == w0.buf, remaining(&old(p).offsets) == w0.offsets@,
    ensures
        n == w0.nframes(),
        *final(final(p).buf) == *final(old(p).buf),
        *final(p).buf == *old(p).buf,
        payloads_mode(final(p)) == payloads_mode(old(p)),
{
    let mut n: usize = 0;
    loop
        invariant
            p.pwf(), n <= w0.nframes(), w0.wf(), w0.nframes() <= usize::MAX,
            remaining(&p.offsets) == w0.offsets@.skip(n as int),
            p.start == w0.off(n as int - 1),
            *p.buf == w0.buf,
            *final(p.buf) == *final(old(p).buf),
            payloads_mode(p) == payloads_mode(old(p)),
        ensures n == w0.nframes(),
        decreases remaining(&p.offsets).len(),
    {
        match p.next_payload() {
            Some(frame) => {
                proof {
                    assert(n < w0.nframes());
                    assert(frame@ == w0.frame(n as int));      // the n-th committed frame, header included
                    assert(w0.offsets@.skip(n as int).skip(1) =~= w0.offsets@.skip(n as int + 1));
                }
                n = n + 1;
            }
            None => { break; }
        }
    }
    n
}

} // verus!
fn main() {}
