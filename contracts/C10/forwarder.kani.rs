// C10 (framing clause) -- ForwarderConfiguration::is_length_prefixed (metrics-exporter-dogstatsd/src/forwarder/mod.rs):
// payloads carry the 4-byte length prefix exactly on the Unix STREAM transport ("uds-stream"); UDP and Unix datagram
// sockets preserve message boundaries and must not be prefixed.  Complete: all three RemoteAddr variants, any
// max_payload_len.
use super::*;

pub fn c10_is_length_prefixed_body(which: u8, max_payload_len: usize) {
    let remote_addr = match which % 3 {
        0 => RemoteAddr::Udp(Vec::new()),
        1 => RemoteAddr::Unixgram(PathBuf::new()),
        _ => RemoteAddr::Unix(PathBuf::new()),
    };
    let is_stream = which % 3 == 2;
    // independent characterisation of the variant through the transport id reported to telemetry
    let id = remote_addr.transport_id().as_bytes();
    assert!((id.len() == 10) == is_stream); // "uds-stream" vs "udp" / "uds"
    let config = ForwarderConfiguration {
        remote_addr,
        max_payload_len,
        flush_interval: Duration::from_secs(1),
        write_timeout: Duration::from_secs(1),
    };
    assert!(config.is_length_prefixed() == is_stream);
    // Clone (the forwarder thread works on a clone of the configuration) keeps the answer
    assert!(config.clone().is_length_prefixed() == is_stream);
}
#[cfg(kani)]
#[kani::proof]
fn c10_is_length_prefixed() {
    c10_is_length_prefixed_body(kani::any(), kani::any());
}
