// C10 -- "every histogram value recorded with sampling off is sent in exactly one flush": Verus usage contract on
// metrics-exporter-dogstatsd/src/storage.rs AtomicHistogram::{record, flush, is_empty}, extracted verbatim on every run.
// AtomicBucket's own guarantee (clear_with hands every pushed value to exactly one clearing read: C05) is ASSUMED; what is
// checked here is that the exporter only USES the bucket in ways that preserve it on the flush path:
//   * record delivers the value to the storage of its own arm (push), nothing else;
//   * flush drains with the bucket's single atomic take-and-deliver operation.  `clear()` (removes WITHOUT delivering: a value
//     pushed after an earlier read is lost) and `data_with()/data()` (deliver WITHOUT removing: the next flush sends the same
//     values again) are forbidden there -- stated as unprovable preconditions of the stub methods, so that any use is a failed
//     call-site obligation;
//   * is_empty asks the storage of its own arm.
#![feature(allocator_api)]
#![allow(unused_imports, dead_code, unused_variables, unused_mut)]
use vstd::prelude::*;

verus! {

global size_of usize == 8;

//@INCLUDE prelude/std_extra.rs

/// never established anywhere: an operation that requires it may not be used on a path under this contract
pub uninterp spec fn may_discard_undelivered_values() -> bool;
pub uninterp spec fn may_deliver_values_that_stay() -> bool;

/// metrics_util::storage::AtomicBucket (C05): ghost log of what THIS exporter did with it
#[verifier::external_body] #[verifier::reject_recursive_types(T)]
pub struct AtomicBucket<T> { _p: core::marker::PhantomData<T> }
impl<T> AtomicBucket<T> {
    pub uninterp spec fn pushed_by(&self, v: T) -> bool;
    pub uninterp spec fn reports_empty(&self) -> bool;
    #[verifier::external_body] pub fn push(&self, value: T) ensures self.pushed_by(value) { unimplemented!() }
    #[verifier::external_body] pub fn is_empty(&self) -> (r: bool) ensures r == self.reports_empty() { unimplemented!() }
    #[verifier::external_body] pub fn clear(&self) requires may_discard_undelivered_values() { unimplemented!() }
    #[verifier::external_body] pub fn data(&self) -> (r: Vec<T>) requires may_deliver_values_that_stay() { unimplemented!() }
}
#[verifier::external_body] pub struct AtomicSamplingReservoir { _p: [u8; 0] }
impl AtomicSamplingReservoir {
    pub uninterp spec fn pushed_by(&self, v: f64) -> bool;
    pub uninterp spec fn reports_empty(&self) -> bool;
    #[verifier::external_body] pub fn push(&self, value: f64) ensures self.pushed_by(value) { unimplemented!() }
    #[verifier::external_body] pub fn is_empty(&self) -> (r: bool) ensures r == self.reports_empty() { unimplemented!() }
}
#[verifier::external_body] pub struct Values<'a> { _p: core::marker::PhantomData<&'a u8> }

/// ghost: which drain the flush performed (with the caller's callback)
pub uninterp spec fn drained_raw(b: &AtomicBucket<f64>) -> bool;
pub uninterp spec fn drained_sampled(r: &AtomicSamplingReservoir) -> bool;

// R17: `bucket.<op>(|values| { f(None, Values::Raw(values.iter())); })` -- a closure that captures `f` by unique borrow, which
// Verus does not support -- becomes `shim_<op>_raw(bucket, &mut f)`.  Only the atomic take-and-deliver op has a provable contract.
#[verifier::external_body]
pub fn shim_clear_with_raw<F>(b: &AtomicBucket<f64>, f: &mut F) ensures drained_raw(b) { unimplemented!() }
#[verifier::external_body]
pub fn shim_data_with_raw<F>(b: &AtomicBucket<f64>, f: &mut F) requires may_deliver_values_that_stay() { unimplemented!() }
#[verifier::external_body]
pub fn shim_consume_sampled<F>(r: &AtomicSamplingReservoir, f: &mut F) ensures drained_sampled(r) { unimplemented!() }

//@ITEM file=metrics-exporter-dogstatsd/src/storage.rs sel=enum AtomicHistogram
//@END

impl AtomicHistogram {
//@ITEM file=metrics-exporter-dogstatsd/src/storage.rs sel=impl AtomicHistogram :: fn is_empty ret=r
//@SPEC
    ensures r == (match self { AtomicHistogram::Raw(b) => b.reports_empty(), AtomicHistogram::Sampled(s) => s.reports_empty() }),
//@END

//@ITEM file=metrics-exporter-dogstatsd/src/storage.rs sel=impl AtomicHistogram :: fn record
//@SPEC
    ensures match self { AtomicHistogram::Raw(b) => b.pushed_by(value), AtomicHistogram::Sampled(s) => s.pushed_by(value) },
//@END

//@ITEM file=metrics-exporter-dogstatsd/src/storage.rs sel=impl AtomicHistogram :: fn flush
//@REWRITE R17 re:(\w+)\.(clear_with|data_with)\(\|values\| \{\s*f\(None, Values::Raw\(values\.iter\(\)\)\);\s*\}\) ==> shim_\2_raw(\1, &mut f)
//@REWRITE R17 re:(\w+)\.consume\(\|values\| \{\s*f\(Some\(values\.sample_rate\(\)\), Values::Sampled\(values\)\);\s*\}\) ==> shim_consume_sampled(\1, &mut f)
//@REWRITE R14 re:where\s+F: FnMut\(Option<f64>, Values<'_>\), ==> 
//@SPEC
    ensures match self { AtomicHistogram::Raw(b) => drained_raw(b), AtomicHistogram::Sampled(s) => drained_sampled(s) },
//@END
}

} // verus!
fn main() {}
