ST = "metrics-exporter-dogstatsd/src/storage.rs"
FW = "metrics-exporter-dogstatsd/src/forwarder/mod.rs"
STATE = "metrics-exporter-dogstatsd/src/state.rs"


def H(name, clause, kind="complete", tier="quick", timeout=600, replay=True, covers=0, module=None, **kw):
    d = dict(name=name, obligation=f"C10/kani/{name}", clause=clause, kind=kind, tier=tier, timeout=timeout, replay=replay, covers=covers)
    if module:
        d["module"] = module
    d.update(kw)
    return d


def RG(name, clause, covers=0, **kw):
    return H(name, clause, kind="rely-guarantee", replay=False, covers=covers, sub="rg", **kw)


PLAN = {
    "property": "C10",
    "level": "proof",
    "manifest": {
        "technique": "Kani/CBMC on the real AtomicCounter/AtomicGauge (full-domain per-call contracts + rely/guarantee with the std atomics stubbed and the other threads' atomic steps injected before every step of the flusher); Verus (z3) on State::flush and get_aggregation_timestamp extracted verbatim, registry/idle-set/writer as spec'd stubs",
        "text": "Counter: per-call contracts of increment/absolute/flush over an arbitrary pre-state give, by induction, that the deltas of any sequential history add up to the increments (absolute-only: last - first) and that each delta is exactly what was added since the previous flush. Under concurrency the flusher is checked against the rely 'other threads execute any number of the two separate RMWs of increment between any two of my atomic steps': conservation sent + (current - last) == total, delta <= really added, invariant re-established, update accounting, and the footprint (one load, two swaps). increment/absolute are shown to perform exactly the step lists the rely is built from. Gauge: flush returns the cell content at the load (last completed write), never resets it. State::flush (Verus, unbounded number of keys): a counter key is skipped only if its delta is 0 and it was already reported idle, a zero is emitted once when a key goes idle, any update re-activates it, every gauge is written on every flush, and counters/gauges carry a timestamp exactly in the mode documented to send one. is_length_prefixed <=> Unix stream transport.",
        "note": "Assumed: SC atomics, each std atomic op is one step, memory orderings unchecked; idle-set (HashSet<Key>) and registry handle lists as abstract sets/sequences with assumed std specs; PayloadWriter::write_counter/write_gauge as recording stubs (their bytes are C09's contract); histogram section of State::flush cut out (AtomicBucket is C05's scope and unreachable for Kani); socket I/O (Forwarder::run) out of scope. Known protocol findings: see FINDINGS.md.",
    },
    "min_obligations": {"quick": 12, "thorough": 12},
    "assumptions": [
        "atomics are sequentially consistent and every std atomic operation (load, store, swap, fetch_add, a successful fetch_update CAS) is one indivisible step; memory orderings (Relaxed/Acquire/Release/AcqRel in storage.rs) are NOT checked -- Kani has no weak-memory model",
        "rely of the flusher: a single flusher thread (State::flush is only called from the forwarder thread); other threads only call increment/absolute (counter) or set/increment/decrement (gauge), whose step lists are themselves proved (c10_counter_*_guarantee_rg)",
        "environment steps are injected by stubs on core::sync::atomic::Atomic::<u64>::{load,swap,store,fetch_add} and Atomic::<bool>::{store,swap}; the stubs perform the operation through as_ptr() (trusted to be the std semantics of the op under SC)",
        "the ghost amount added per environment step is bounded by 2^96 (and the initial backlog by 2^100) only to keep the unwrapped u128 ghost sum from overflowing; the wrapped u64 arithmetic is unrestricted",
        "histograms: AtomicHistogram::{record,flush,is_empty} delegate to metrics-util's AtomicBucket / AtomicSamplingReservoir (crossbeam-epoch; Kani ICE) -- 'every recorded value is sent in exactly one flush' is NOT claimed here (see C05/C16)",
        "State::flush (Verus): HashSet<Key> as an abstract set with the std contracts of insert/remove/contains; Registry::get_*_handles yields each registered key once (C06); Key::clone is the identity on the abstract key; PayloadWriter::write_* are recording stubs; tracing::error! and TelemetryUpdate are no-ops for the property",
        "SystemTime::now()/duration_since are uninterpreted (any time value); only is_some() of the timestamp is specified",
        "socket I/O (Forwarder::run / try_send, UdpSocket/UnixStream) is out of scope: 'what the agent socket receives' is claimed up to the payload list handed to the forwarder (C09) and the framing flag",
        "panic = failure; unwinding semantics not modelled",
    ],
    "kani": [{
        "crate": "metrics-exporter-dogstatsd",
        "cargo_args": [],
        "parallel": 4,
        "modules": [
            {"file": ST, "mod": "__verif_c10", "src": "storage.kani.rs"},
            {"file": FW, "mod": "__verif_c10_fw", "src": "forwarder.kani.rs"},
        ],
        "functions": [
            {"item": "AtomicCounter::{new,flush}, <AtomicCounter as CounterFn>::{increment,absolute}", "file": ST},
            {"item": "AtomicGauge::{new,flush}, <AtomicGauge as GaugeFn>::{increment,decrement,set}", "file": ST},
            {"item": "ForwarderConfiguration::is_length_prefixed, RemoteAddr::transport_id", "file": FW},
        ],
        "harnesses": [
            H("c10_counter_percall", "any pre-state: increment adds v and bumps updates; absolute stores v (first one re-bases last); flush returns (current-last, updates), sets last=current, updates=0", covers=2),
            H("c10_counter_seq_increments", "from new(): 3 increments, flushes at any cut points: each delta == added since previous flush, deltas sum to the increments (mod 2^64), update counts sum to 3"),
            H("c10_counter_seq_absolute", "absolute-only counter, flushes at any cut points: first flush after first value sends 0, deltas sum to last - first", covers=1),
            H("c10_gauge_percall", "any pre-state, all f64 bit patterns: set/increment/decrement result and updates+1; flush returns (value, updates), keeps the value, zeroes updates", covers=2, args=[]),
            H("c10_gauge_seq", "from new(): two ops then two flushes: both flushes send the result of the last op (NaN compared as both-NaN), update counts 2 then 0"),
            RG("c10_counter_increment_guarantee_rg", "increment(v) = store(is_absolute,false); fetch_add(current,v); fetch_add(updates,1) -- exactly, in order"),
            RG("c10_counter_absolute_guarantee_rg", "absolute(v) = swap(is_absolute,true); [was false: store(last,v)]; store(current,v); fetch_add(updates,1) -- exactly, in order"),
            RG("c10_counter_flush_rg", "flusher vs. any number of partial increments between its steps: sent'+(current-last)==total, delta == really added since previous read (<=), invariant re-established, update accounting, footprint load/swap/swap", covers=3),
            RG("c10_counter_flush_vs_later_absolute_rg", "flusher vs. a concurrent absolute(v) on a counter already in absolute mode: delta in {cur-last, v-last}, two flushes sum to v-last", covers=1),
            RG("c10_counter_flush_vs_first_absolute_rg", "FINDING: flusher vs. the FIRST absolute(v) on a fresh counter must send 0 (fails: last.store(v) lands between load(current)=0 and swap(last) => delta = 0 - v)"),
            RG("c10_gauge_flush_rg", "flusher vs. concurrent gauge writers: returns the cell content at the load (last completed write), does not write the value, update accounting", covers=1),
            H("c10_is_length_prefixed", "is_length_prefixed() <=> RemoteAddr::Unix (transport id 'uds-stream'); UDP and unixgram are not prefixed", module="__verif_c10_fw"),
        ],
    }],
}
