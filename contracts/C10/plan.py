ST = "metrics-exporter-dogstatsd/src/storage.rs"
FW = "metrics-exporter-dogstatsd/src/forwarder/mod.rs"
STATE = "metrics-exporter-dogstatsd/src/state.rs"


def H(name, clause, kind="complete", tier="quick", timeout=600, replay=True, covers=0, module=None, **kw):
    d = dict(name=name, obligation=f"C10/kani/{name}", clause=clause, kind=kind, tier=tier, timeout=timeout, replay=replay, covers=covers)
    if module:
        d["module"] = module
    d.update(kw)
    return d


def RG(name, clause, covers=0, **kw):
    return H(name, clause, kind="rely-guarantee", replay=False, covers=covers, sub="rg", **kw)


PLAN = {
    "property": "C10",
    "level": "proof",
    "manifest": {
        "technique": "Kani/CBMC on the real AtomicCounter/AtomicGauge (full-domain per-call contracts + rely/guarantee with the std atomics stubbed and the other threads' atomic steps injected before every step of the flusher); Verus (z3) on State::flush and get_aggregation_timestamp extracted verbatim, registry/idle-set/writer as spec'd stubs",
        "text": "Counter: per-call contracts of increment/absolute/flush over an arbitrary pre-state give, by induction, that the deltas of any sequential history add up to the increments (absolute-only: last - first) and that each delta is exactly what was added since the previous flush. Under concurrency the flusher is checked against the rely 'other threads execute any number of the two separate RMWs of increment between any two of my atomic steps': conservation sent + (current - last) == total, delta <= really added, invariant re-established, update accounting, and the footprint (one load, two swaps). increment/absolute are shown to perform exactly the step lists the rely is built from. Gauge: flush returns the cell content at the load (last completed write), never resets it. State::flush (Verus, unbounded number of keys): a counter key is skipped only if its delta is 0 and it was already reported idle, a zero is emitted once when a key goes idle, any update re-activates it, every gauge is written on every flush, and counters/gauges carry a timestamp exactly in the mode documented to send one. is_length_prefixed <=> Unix stream transport.",
        "note": "Assumed: SC atomics, each std atomic op is one step, memory orderings unchecked; idle-set (HashSet<Key>) and registry handle lists as abstract sets/sequences with assumed std specs; PayloadWriter::write_counter/write_gauge as recording stubs (their bytes are C09's contract); histogram section of State::flush cut out (AtomicBucket is C05's scope and unreachable for Kani); socket I/O (Forwarder::run) out of scope. Known protocol findings: see FINDINGS.md.",
    },
    "min_obligations": {"quick": 19, "thorough": 19},
    "assumptions": [
        "atomics are sequentially consistent and every std atomic operation (load, store, swap, fetch_add, a successful fetch_update CAS) is one indivisible step; memory orderings (Relaxed/Acquire/Release/AcqRel in storage.rs) are NOT checked -- Kani has no weak-memory model",
        "rely of the flusher: a single flusher thread (State::flush is only called from the forwarder thread); other threads only call increment/absolute (counter) or set/increment/decrement (gauge), whose step lists are themselves proved (c10_counter_*_guarantee_rg)",
        "environment steps are injected by stubs on core::sync::atomic::Atomic::<u64>::{load,swap,store,fetch_add} and Atomic::<bool>::{store,swap}; the stubs perform the operation through as_ptr() (trusted to be the std semantics of the op under SC)",
        "the ghost amount added per environment step is bounded by 2^96 (and the initial backlog by 2^100) only to keep the unwrapped u128 ghost sum from overflowing; the wrapped u64 arithmetic is unrestricted",
        "histograms: AtomicHistogram::{record,flush,is_empty} delegate to metrics-util's AtomicBucket / AtomicSamplingReservoir. 'Every recorded value is sent in exactly one flush' is claimed only as a USAGE contract (hist.verus.rs): record pushes into its own arm's storage, flush drains with the single atomic take-and-deliver operation (clear_with / consume) and never with clear() (discards) or data_with()/data() (re-delivers); that clear_with itself hands each value to exactly one clearing read is C05's scope and ASSUMED; R17 turns the callback closure (captures `f` by unique borrow) into a shim named after the bucket method",
        "State::flush (Verus): HashSet<Key> as an abstract set with the std contracts of insert/remove/contains; Registry::get_*_handles yields each registered key once (C06); Key::clone is the identity on the abstract key; PayloadWriter::write_* are recording stubs; tracing::error! and TelemetryUpdate are no-ops for the property",
        "SystemTime::now()/duration_since are uninterpreted stubs; ASSUMED: the system clock is not before 1970-01-01 (duration_since(UNIX_EPOCH) is Ok); only is_some() of the timestamp is specified",
        "declared rewrites in state.verus.rs: R2 (for -> loop/match over shim_next), R10 (SystemTime::UNIX_EPOCH -> shim_unix_epoch()), R11 (histogram section of State::flush replaced by a unit let: not under contract), R12 (Option<String>::as_deref -> shim, value irrelevant); tracing::error! expands to ()",
        "socket I/O: Client::send is under contract (send.verus.rs: Ok(n) only for the whole payload; on a stream socket the whole frame was written) over ASSUMED std contracts of UdpSocket/UnixDatagram::send (a datagram goes out whole or not at all) and Write::{write, write_all}; the reconnect loop ClientState::try_send and Forwarder::run are out of scope",
        "panic = failure; unwinding semantics not modelled",
    ],
    "kani": [{
        "crate": "metrics-exporter-dogstatsd",
        "cargo_args": [],
        "parallel": 4,
        "modules": [
            {"file": ST, "mod": "__verif_c10", "src": "storage.kani.rs"},
            {"file": FW, "mod": "__verif_c10_fw", "src": "forwarder.kani.rs"},
        ],
        "functions": [
            {"item": "AtomicCounter::{new,flush}, <AtomicCounter as CounterFn>::{increment,absolute}", "file": ST},
            {"item": "AtomicGauge::{new,flush}, <AtomicGauge as GaugeFn>::{increment,decrement,set}", "file": ST},
            {"item": "ForwarderConfiguration::is_length_prefixed, RemoteAddr::transport_id", "file": FW},
        ],
        "harnesses": [
            H("c10_counter_percall", "any pre-state: increment adds v and bumps updates; absolute stores v (first one re-bases last); flush returns (current-last, updates), sets last=current, updates=0", covers=2),
            H("c10_counter_seq_increments", "from new(): 3 increments, flushes at any cut points: each delta == added since previous flush, deltas sum to the increments (mod 2^64), update counts sum to 3"),
            H("c10_counter_seq_absolute", "absolute-only counter, flushes at any cut points: first flush after first value sends 0, deltas sum to last - first", covers=1),
            H("c10_gauge_percall", "any pre-state, all f64 bit patterns: set/increment/decrement result and updates+1; flush returns (value, updates), keeps the value, zeroes updates", covers=2, args=[]),
            H("c10_gauge_seq", "from new(): two ops then two flushes: both flushes send the result of the last op (NaN compared as both-NaN), update counts 2 then 0"),
            RG("c10_counter_increment_guarantee_rg", "increment(v) = store(is_absolute,false); fetch_add(current,v); fetch_add(updates,1) -- exactly, in order"),
            RG("c10_counter_absolute_guarantee_rg", "absolute(v) = swap(is_absolute,true); [was false: store(last,v)]; store(current,v); fetch_add(updates,1) -- exactly, in order"),
            RG("c10_counter_flush_rg", "flusher vs. any number of partial increments between its steps: sent'+(current-last)==total, delta == really added since previous read (<=), invariant re-established, update accounting, footprint load/swap/swap", covers=3),
            RG("c10_counter_flush_vs_later_absolute_rg", "flusher vs. a concurrent absolute(v) on a counter already in absolute mode: delta in {cur-last, v-last}, two flushes sum to v-last", covers=1),
            RG("c10_counter_flush_vs_first_absolute_rg", "FINDING: flusher vs. the FIRST absolute(v) on a fresh counter must send 0 (fails: last.store(v) lands between load(current)=0 and swap(last) => delta = 0 - v)"),
            RG("c10_gauge_flush_rg", "flusher vs. concurrent gauge writers: returns the cell content at the load (last completed write), does not write the value, update accounting", covers=1),
            H("c10_is_length_prefixed", "is_length_prefixed() <=> RemoteAddr::Unix (transport id 'uds-stream'); UDP and unixgram are not prefixed", module="__verif_c10_fw"),
        ],
    }],
    "verus": [
        {"template": "state.verus.rs", "tier": "quick", "rlimit": 300, "timeout": 900, "min_functions": 8},
        # usage contract on AtomicHistogram::{record, flush, is_empty}: the flush path drains only with the bucket's atomic
        # take-and-deliver operation (clear() / data_with() / data() there are failed call-site obligations)
        {"template": "hist.verus.rs", "tier": "quick", "rlimit": 30, "min_functions": 3},
        # forwarder: Client::send reports success only for a whole payload (stream sockets: the whole frame is on the stream)
        {"template": "send.verus.rs", "tier": "quick", "rlimit": 20, "min_functions": 1},
    ],
    "witnesses": [
        {"match": r"fn get_aggregation_timestamp/", "src": "witness_timestamp.rs", "crate": "metrics-exporter-dogstatsd", "file": STATE},
        # the interleaving is replayed step by step through the counter's (private) atomics, hence the test module sits in storage.rs
        {"match": r"fn flush/", "src": "witness_idle_skip.rs", "crate": "metrics-exporter-dogstatsd", "file": ST},
        # the idle / re-activation clause over two idle periods (also matches messages that name the idle helpers or State::flush)
        {"match": r"(State :: fn flush|fn get_aggregation_timestamp)", "name": "impl State :: fn flush", "src": "witness_flush_timestamps.rs", "crate": "metrics-exporter-dogstatsd", "file": ST},
        {"match": r"(State :: fn flush|FlushState|idle)", "name": "impl State :: fn flush", "src": "witness_idle_cycle.rs", "crate": "metrics-exporter-dogstatsd", "file": ST},
    ],
    # Findings on the tree as delivered (documentation only; the driver does not read this key).
    # F1 and F2 are repaired by proposed_fix.diff (3 changed lines in state.rs, nextest 24/24); F3 is a proposed known finding.
    "findings": [
        {"id": "F1", "status": "defect, fixed by proposed_fix.diff (swap the two match arms)",
         "obligation": "C10/state/impl State :: fn get_aggregation_timestamp/ensures:r.is_some() <==> documented_to_timestamp(self.config.agg_mode)",
         "what": "builder.rs documents Conservative = no timestamp, Aggressive = timestamp; get_aggregation_timestamp returns Some(now) for Conservative and None for Aggressive",
         "witness": "witness_timestamp.rs (fails on the real crate: Conservative payloads carry |T..., Aggressive ones do not)"},
        {"id": "F2", "status": "defect (lost delta), fixed by proposed_fix.diff (`if points_flushed == 0 && value == 0`)",
         "obligation": "C10/state/impl State :: fn flush/assert:value == 0",
         "what": "State::flush skips an idle key on updates == 0 alone, but AtomicCounter::flush can return (delta != 0, updates == 0) because increment() is two separate RMWs "
                 "(cover `updates == 0 && delta != 0` of C10/kani/c10_counter_flush_rg is SATISFIED); `last` was already advanced, so the skipped delta is lost",
         "interleaving": ["key is idle (its zero was sent)",
                          "A.increment(5): is_absolute.store(false); current.fetch_add(5)   -- preempted",
                          "F.State::flush -> counter.flush(): current.load()=5; last.swap(5)->0; updates.swap(0)->0 => (5,0); points_flushed==0 && idle => continue",
                          "A: updates.fetch_add(1)",
                          "F.next flush: (0,1) => sends 0.  The 5 is never sent."],
         "witness": "witness_idle_skip.rs (single-threaded replay of the schedule through the counter's atomics; real crate: sent=[0,0,0], total 0 != 5)",
         "repair_notes": "with the 1-line repair a key is skipped only for (delta==0, updates==0, already idle); all step_ok clauses hold. 'bump updates before current' alone does NOT repair it "
                         "(a thread stalled between its two RMWs over two flush intervals still yields (d,0) on an idle key)."},
        {"id": "F3", "status": "protocol-level, not small-fixable => known finding",
         "obligation": "C10/kani/c10_counter_flush_vs_first_absolute_rg",
         "known_findings_line": "finding: property=C10 obligation=C10/kani/c10_counter_flush_vs_first_absolute_rg the first absolute(v) on a counter racing flush(): last.store(v) lands between flush's load(current)=0 and swap(last) => delta = 0 - v (wraps to 2^64 - v); needs (is_absolute,last,current) updated atomically",
         "interleaving": ["fresh counter (is_absolute=false, last=0, current=0)",
                          "T.absolute(v): is_absolute.swap(true) -> false (T will re-base last)",
                          "F.flush: current.load() -> 0",
                          "T: last.store(v)",
                          "F: last.swap(0) -> v; delta = 0 - v = 2^64 - v   (sent as a counter of ~1.8e19)",
                          "T: current.store(v); updates.fetch_add(1); the next flush sends v - 0 = v"],
         "why_not_small_fixable": "`last` has two writers (flusher's swap, absolute's re-base) and the re-base must change (is_absolute,last,current) atomically w.r.t. the flusher's load(current);swap(last). "
                                  "Re-ordering absolute's stores does not help (F.load(current)=0; T.current.store(v); T.last.store(v); F.swap(last)->v: same delta); clamping in flush (absolute mode && current<last => 0) "
                                  "leaves last=0 so the next flush sends v. Needs a packed single-word state, a lock or a re-base handshake. No plain-Rust replay without source hooks (CBMC trace only). "
                                  "Control obligation c10_counter_flush_vs_later_absolute_rg (already in absolute mode) passes."},
    ],
}
