// C10 / C09 framing on the wire -- metrics-exporter-dogstatsd/src/forwarder/sync.rs `Client::send`, extracted verbatim.
// Clause: "a payload handed to the forwarder reaches the agent as one complete DogStatsD message (datagram) or one complete
// length-prefixed frame (stream)": on a STREAM socket `Ok(n)` may only be reported when all `buf.len()` bytes of the frame were
// written -- a short write that is reported as success leaves a truncated frame on the stream and every later frame is
// misparsed.  Datagram sockets send a payload whole or not at all (the OS contract, ASSUMED).
#![allow(unused_imports, dead_code, unused_variables, unused_mut)]
use vstd::prelude::*;

verus! {

global size_of usize == 8;

//@INCLUDE prelude/std_extra.rs

#[verifier::external_body] pub struct IoError { _p: [u8; 0] }
pub mod io { pub type Result<T> = core::result::Result<T, super::IoError>; }

/// datagram sockets: ghost = bytes of the datagram sent by the last successful send
#[verifier::external_body] pub struct UdpSocket { _p: [u8; 0] }
#[verifier::external_body] pub struct UnixDatagram { _p: [u8; 0] }
/// stream socket: ghost = how many bytes have been put on the stream so far
#[verifier::external_body] pub struct UnixStream { _p: [u8; 0] }
impl UdpSocket {
    #[verifier::external_body]
    pub fn send(&self, buf: &[u8]) -> (r: io::Result<usize>) ensures r is Ok ==> r->Ok_0 == buf@.len() { unimplemented!() }
}
impl UnixDatagram {
    #[verifier::external_body]
    pub fn send(&self, buf: &[u8]) -> (r: io::Result<usize>) ensures r is Ok ==> r->Ok_0 == buf@.len() { unimplemented!() }
}
impl UnixStream {
    pub uninterp spec fn written(&self) -> nat;
    /// std::io::Write::write: writes SOME prefix (possibly short)
    #[verifier::external_body]
    pub fn write(&mut self, buf: &[u8]) -> (r: io::Result<usize>)
        ensures r is Ok ==> r->Ok_0 <= buf@.len() && final(self).written() == old(self).written() + r->Ok_0,
                r is Err ==> final(self).written() == old(self).written(),
    { unimplemented!() }
    /// std::io::Write::write_all: Ok only when every byte was written
    #[verifier::external_body]
    pub fn write_all(&mut self, buf: &[u8]) -> (r: io::Result<()>)
        ensures r is Ok ==> final(self).written() == old(self).written() + buf@.len(),
    { unimplemented!() }
    #[verifier::external_body]
    pub fn flush(&mut self) -> (r: io::Result<()>) ensures final(self).written() == old(self).written() { unimplemented!() }
}

//@ITEM file=metrics-exporter-dogstatsd/src/forwarder/sync.rs sel=enum Client
//@REWRITE R14? re:\s*#\[cfg\(unix\)\]\n ==> \n
//@END

impl Client {
    spec fn stream_written(&self) -> nat { match self { Client::Unix(s) => s.written(), _ => 0 } }

//@ITEM file=metrics-exporter-dogstatsd/src/forwarder/sync.rs sel=impl Client :: fn send ret=r
//@REWRITE R14? re:\s*#\[cfg\(unix\)\]\n ==> \n
//@SPEC
    ensures
        // success means the WHOLE payload went out
        r is Ok ==> r->Ok_0 == buf@.len(),
        // and on a stream socket the stream really advanced by the whole frame
        (r is Ok && *old(self) is Unix) ==> final(self).stream_written() == old(self).stream_written() + buf@.len(),
//@END
}

} // verus!
fn main() {}
