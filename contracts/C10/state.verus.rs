// C10 -- Verus contracts for metrics-exporter-dogstatsd/src/state.rs (State::flush, get_aggregation_timestamp, FlushState).
// Everything between //@ITEM and //@END is replaced, on every run, by the item's text taken verbatim from /repo's
// working tree, with the listed clauses spliced in.  Everything else is specification or an ASSUMED stub.
#![feature(allocator_api)]
#![allow(unused_imports, dead_code, unused_variables, unused_mut, unused_macros)]
use vstd::prelude::*;
use std::collections::HashSet;
use std::sync::Arc;
use vstd::std_specs::hash::*;

// tracing::error! carries no state relevant to the property
macro_rules! error { ($($t:tt)*) => { () }; }

verus! {

global size_of usize == 8;   // ASSUMED: 64-bit target

//@INCLUDE prelude/std_extra.rs

broadcast use vstd::std_specs::hash::group_hash_axioms;

// ------------------------------------------------------------------ time (ASSUMED, uninterpreted)
#[verifier::external_body]
pub struct Duration { _p: [u8; 0] }
impl Duration {
    #[verifier::external_body]
    pub fn as_secs(&self) -> u64 { unimplemented!() }
}
#[verifier::external_body]
pub struct SystemTimeError { _p: [u8; 0] }
#[verifier::external_body]
pub struct SystemTime { _p: [u8; 0] }
impl SystemTime {
    #[verifier::external_body]
    pub fn now() -> SystemTime { unimplemented!() }
    // ASSUMED: the system clock is not before 1970-01-01, so `now().duration_since(UNIX_EPOCH)` is Ok
    #[verifier::external_body]
    pub fn duration_since(&self, earlier: SystemTime) -> (r: Result<Duration, SystemTimeError>)
        ensures r.is_ok(),
    { unimplemented!() }
}

//@ITEM file=metrics-exporter-dogstatsd/src/builder.rs sel=enum AggregationMode
//@END

/// builder.rs, docs of `AggregationMode`: Conservative = "aggregated but are not sent with a timestamp",
/// Aggressive = "aggregated and sent with a timestamp".
pub open spec fn documented_to_timestamp(m: AggregationMode) -> bool {
    m is Aggressive
}

// ------------------------------------------------------------------ dependency stubs (ASSUMED specs)
#[verifier::external_body]
pub struct Label { _p: [u8; 0] }

/// metrics::Key -- abstract; its Hash/Eq consistency (`obeys_key_model::<Key>()`, property C03) is a precondition of flush
#[verifier::external_body]
pub struct Key { _p: [u8; 0] }
#[verifier::external_body]
pub struct KeyName { _p: [u8; 0] }
impl KeyName {
    // which prefix is used (none for the client's own telemetry keys) is C09's concern
    #[verifier::external_body]
    pub fn starts_with(&self, p: &str) -> bool { unimplemented!() }
}
impl Key {
    #[verifier::external_body]
    pub fn name(&self) -> &KeyName { unimplemented!() }
}
// ASSUMED: Key::clone yields an equal key
pub assume_specification [<Key as Clone>::clone](k: &Key) -> (r: Key)
    ensures r == *k;

// ASSUMED: Option::<String>::as_deref (value irrelevant here)
#[verifier::external_body]
pub fn shim_as_deref(o: &Option<String>) -> Option<&str> { o.as_deref() }

/// storage.rs: the (delta, updates) / (value, updates) pair is whatever the counter/gauge protocol yields under the
/// interleaving at hand.  NO relation between `updates` and `delta` is assumed: the Kani rely/guarantee obligation
/// C10/kani/c10_counter_flush_rg shows (cover SATISFIED) that `updates == 0 && delta != 0` is reachable.
#[verifier::external_body]
pub struct AtomicCounter { _p: [u8; 0] }
impl AtomicCounter {
    #[verifier::external_body]
    pub fn flush(&self) -> (u64, u64) { unimplemented!() }
}
#[verifier::external_body]
pub struct AtomicGauge { _p: [u8; 0] }
impl AtomicGauge {
    #[verifier::external_body]
    pub fn flush(&self) -> (f64, u64) { unimplemented!() }
}
#[verifier::external_body]
pub struct ClientSideAggregatedStorage { _p: [u8; 0] }

pub mod axioms {
    use vstd::prelude::*;
    pub uninterp spec fn remaining<I: Iterator>(it: &I) -> Seq<I::Item>;
    pub uninterp spec fn into_remaining<I: IntoIterator>(i: &I) -> Seq<I::Item>;
}
pub use axioms::{remaining, into_remaining};

// R2 (for-loop desugaring) shims, ASSUMED std iterator contracts
#[verifier::external_body]
pub fn shim_into_iter<I: IntoIterator>(i: I) -> (r: I::IntoIter)
    ensures remaining(&r) == into_remaining(&i),
{
    i.into_iter()
}
#[verifier::external_body]
pub fn shim_next<I: Iterator>(it: &mut I) -> (r: Option<I::Item>)
    ensures
        match r {
            Some(x) => remaining(old(it)).len() > 0 && x == remaining(old(it))[0] && remaining(final(it)) == remaining(old(it)).skip(1),
            None => remaining(old(it)).len() == 0 && remaining(final(it)) == remaining(old(it)),
        },
{
    it.next()
}

/// metrics_util::registry::Registry -- abstract: the handle lists (each registered key once: C06), as a Vec instead of a
/// HashMap (iteration order is arbitrary in both)
#[verifier::external_body]
#[verifier::reject_recursive_types(K)]
#[verifier::reject_recursive_types(S)]
pub struct Registry<K, S> { _p: core::marker::PhantomData<(K, S)> }
impl Registry<Key, ClientSideAggregatedStorage> {
    pub uninterp spec fn counter_seq(&self) -> Seq<(Key, Arc<AtomicCounter>)>;
    pub uninterp spec fn gauge_seq(&self) -> Seq<(Key, Arc<AtomicGauge>)>;
    #[verifier::external_body]
    pub fn get_counter_handles(&self) -> (r: Vec<(Key, Arc<AtomicCounter>)>)
        ensures into_remaining(&r) == self.counter_seq(), self.counter_seq().len() <= usize::MAX,
    { unimplemented!() }
    #[verifier::external_body]
    pub fn get_gauge_handles(&self) -> (r: Vec<(Key, Arc<AtomicGauge>)>)
        ensures into_remaining(&r) == self.gauge_seq(), r@.len() == self.gauge_seq().len(),
    { unimplemented!() }
}

/// what the writer was asked to serialize (bytes, bounds and framing of each message: C09)
pub enum Emit {
    Counter { key: Key, value: u64, ts: Option<u64> },
    Gauge { key: Key, value: f64, ts: Option<u64> },
}

#[verifier::external_body]
pub struct WriteResult { _p: [u8; 0] }
impl WriteResult {
    #[verifier::external_body]
    pub fn any_failures(&self) -> bool { unimplemented!() }
    #[verifier::external_body]
    pub fn points_dropped(&self) -> u64 { unimplemented!() }
}

#[verifier::external_body]
pub struct PayloadWriter { _p: [u8; 0] }
impl PayloadWriter {
    pub uninterp spec fn log(&self) -> Seq<Emit>;
    #[verifier::external_body]
    pub fn write_counter(&mut self, key: &Key, value: u64, timestamp: Option<u64>, prefix: Option<&str>, global_labels: &[Label]) -> (r: WriteResult)
        ensures final(self).log() == old(self).log().push(Emit::Counter { key: *key, value, ts: timestamp }),
    { unimplemented!() }
    #[verifier::external_body]
    pub fn write_gauge(&mut self, key: &Key, value: f64, timestamp: Option<u64>, prefix: Option<&str>, global_labels: &[Label]) -> (r: WriteResult)
        ensures final(self).log() == old(self).log().push(Emit::Gauge { key: *key, value, ts: timestamp }),
    { unimplemented!() }
}

#[verifier::external_body]
pub struct TelemetryUpdate { _p: [u8; 0] }
impl TelemetryUpdate {
    #[verifier::external_body] pub fn increment_counter_contexts(&mut self, value: usize) { unimplemented!() }
    #[verifier::external_body] pub fn increment_gauge_contexts(&mut self, value: usize) { unimplemented!() }
    #[verifier::external_body] pub fn increment_histogram_contexts(&mut self, value: usize) { unimplemented!() }
    #[verifier::external_body] pub fn increment_counter_points(&mut self, value: u64) { unimplemented!() }
    #[verifier::external_body] pub fn increment_gauge_points(&mut self, value: u64) { unimplemented!() }
    #[verifier::external_body] pub fn track_packet_serializer_failed(&mut self) { unimplemented!() }
}

// ------------------------------------------------------------------ FlushState (verbatim) over vstd's HashSet specs
//@ITEM file=metrics-exporter-dogstatsd/src/state.rs sel=struct FlushState
//@END

impl FlushState {
    pub closed spec fn idle(&self) -> Set<Key> { self.idle_counters@ }

//@ITEM file=metrics-exporter-dogstatsd/src/state.rs sel=impl FlushState :: fn mark_counter_as_idle
//@SPEC
    requires obeys_key_model::<Key>(),
    ensures final(self).idle() == old(self).idle().insert(key),
//@END

//@ITEM file=metrics-exporter-dogstatsd/src/state.rs sel=impl FlushState :: fn clear_counter_idle
//@SPEC
    requires obeys_key_model::<Key>(),
    ensures final(self).idle() == old(self).idle().remove(*key),
//@END

//@ITEM file=metrics-exporter-dogstatsd/src/state.rs sel=impl FlushState :: fn is_counter_idle ret=r
//@SPEC
    requires obeys_key_model::<Key>(),
    ensures r == self.idle().contains(*key),
//@END
}

// ------------------------------------------------------------------ specification of one State::flush
/// what happened to one counter key in this flush
pub struct Step {
    pub key: Key,
    pub delta: u64,       // returned by counter.flush()
    pub updates: u64,     // returned by counter.flush()
    pub was_idle: bool,   // key in the idle set when its turn came
    pub emitted: bool,    // write_counter(key, delta, ts) was called
    pub idle_after: bool, // key in the idle set afterwards
    pub ts: Option<u64>,
}
pub struct GStep {
    pub key: Key,
    pub value: f64,
    pub ts: Option<u64>,
}

/// C10 statement, per key and flush:
pub open spec fn step_ok(s: Step) -> bool {
    // a key is skipped ONLY when its delta is 0 (else the delta is lost: `last` was already advanced), it saw no update
    // and its zero was already reported (it is in the idle set and stays there)
    &&& (!s.emitted ==> s.delta == 0 && s.updates == 0 && s.was_idle && s.idle_after)
    // "sent as zero exactly once": the zero of an unchanged counter is emitted when (and only when) the key goes idle
    &&& (s.emitted && s.updates == 0 && s.delta == 0 ==> !s.was_idle && s.idle_after)
    // "... not again until it changes": any update re-activates the key, and it is sent
    &&& (s.updates > 0 ==> s.emitted && !s.idle_after)
}

pub open spec fn ts_ok(mode: AggregationMode, ts: Option<u64>) -> bool {
    ts.is_some() <==> documented_to_timestamp(mode)
}

pub open spec fn emitted_of(tr: Seq<Step>) -> Seq<Emit>
    decreases tr.len(),
{
    if tr.len() == 0 {
        Seq::<Emit>::empty()
    } else if tr.last().emitted {
        emitted_of(tr.drop_last()).push(Emit::Counter { key: tr.last().key, value: tr.last().delta, ts: tr.last().ts })
    } else {
        emitted_of(tr.drop_last())
    }
}

pub open spec fn idle_fold(tr: Seq<Step>, idle0: Set<Key>) -> Set<Key>
    decreases tr.len(),
{
    if tr.len() == 0 {
        idle0
    } else if tr.last().idle_after {
        idle_fold(tr.drop_last(), idle0).insert(tr.last().key)
    } else {
        idle_fold(tr.drop_last(), idle0).remove(tr.last().key)
    }
}

pub open spec fn gauge_emit(s: GStep) -> Emit {
    Emit::Gauge { key: s.key, value: s.value, ts: s.ts }
}

pub open spec fn counters_ok(mode: AggregationMode, cs: Seq<(Key, Arc<AtomicCounter>)>, idle0: Set<Key>, tr: Seq<Step>, n: int) -> bool {
    &&& tr.len() == n
    &&& forall|j: int| 0 <= j < n ==> {
        &&& (#[trigger] tr[j]).key == cs[j].0
        &&& step_ok(tr[j])
        &&& tr[j].was_idle == idle_fold(tr.take(j), idle0).contains(tr[j].key)
        &&& (tr[j].emitted ==> ts_ok(mode, tr[j].ts))
    }
}

pub open spec fn gauges_ok(mode: AggregationMode, gs: Seq<(Key, Arc<AtomicGauge>)>, gtr: Seq<GStep>, n: int) -> bool {
    &&& gtr.len() == n
    &&& forall|j: int| 0 <= j < n ==> (#[trigger] gtr[j]).key == gs[j].0 && ts_ok(mode, gtr[j].ts)
}

/// One flush: every registered counter key gets exactly one Step satisfying step_ok, every registered gauge is written,
/// the idle set evolves by the steps only, and the writer receives exactly the emitted counters then all gauges.
pub open spec fn flush_ok(mode: AggregationMode, cs: Seq<(Key, Arc<AtomicCounter>)>, gs: Seq<(Key, Arc<AtomicGauge>)>,
                          idle0: Set<Key>, idle1: Set<Key>, log0: Seq<Emit>, log1: Seq<Emit>, tr: Seq<Step>, gtr: Seq<GStep>) -> bool {
    &&& counters_ok(mode, cs, idle0, tr, cs.len() as int)
    &&& gauges_ok(mode, gs, gtr, gs.len() as int)
    &&& idle1 == idle_fold(tr, idle0)
    &&& log1 == log0 + emitted_of(tr) + gauge_events(gtr)
}

//@ITEM file=metrics-exporter-dogstatsd/src/state.rs sel=struct StateConfiguration
//@END

//@ITEM file=metrics-exporter-dogstatsd/src/state.rs sel=struct State
//@END

impl State {

//@ITEM file=metrics-exporter-dogstatsd/src/state.rs sel=impl State :: fn get_aggregation_timestamp ret=r
//@REWRITE R10 SystemTime::UNIX_EPOCH ==> shim_unix_epoch()
//@SPEC
    ensures
        r.is_some() <==> documented_to_timestamp(self.config.agg_mode),
//@END

//@ITEM file=metrics-exporter-dogstatsd/src/state.rs sel=impl State :: fn flush
//@REWRITE R11 re:(?s)let histograms = self\.registry\.get_histogram_handles\(\);.*telemetry\.increment_histogram_contexts\(active_histograms\); ==> let histograms_not_under_contract = ();
//@REWRITE R12 re:self\.config\.global_prefix\.as_deref\(\) ==> shim_as_deref(&self.config.global_prefix)
//@FORLOOP 1 it1
//@FORLOOP 2 it2
//@SPEC
    requires
        obeys_key_model::<Key>(),
    ensures
        exists|tr: Seq<Step>, gtr: Seq<GStep>| #[trigger] flush_ok(self.config.agg_mode, self.registry.counter_seq(), self.registry.gauge_seq(),
            old(flush_state).idle(), final(flush_state).idle(), old(writer).log(), final(writer).log(), tr, gtr),
//@AFTER 1 let counters = self.registry.get_counter_handles();
        let ghost cs = self.registry.counter_seq();
        let ghost gs = self.registry.gauge_seq();
        let ghost idle0 = flush_state.idle();
        let ghost log0 = writer.log();
        let ghost mode = self.config.agg_mode;
        let ghost mut tr: Seq<Step> = Seq::empty();
        proof { assert(log0 + emitted_of(tr) =~= log0); }
//@LOOP 1
            invariant
                obeys_key_model::<Key>(),
                mode == self.config.agg_mode,
                cs.len() <= usize::MAX,
                remaining(&it1).len() <= cs.len(),
                remaining(&it1) == cs.skip(cs.len() - remaining(&it1).len()),
                counters_ok(mode, cs, idle0, tr, cs.len() - remaining(&it1).len()),
                flush_state.idle() == idle_fold(tr, idle0),
                writer.log() == log0 + emitted_of(tr),
                active_counters <= tr.len(),
            ensures
                remaining(&it1).len() == 0,
            decreases remaining(&it1).len(),
//@AFTER 1 let (value, points_flushed) = counter.flush();
            let ghost done = cs.len() - remaining(&it1).len() - 1;
            let ghost was_idle = flush_state.idle().contains(key);
            let ghost tr_pre = tr;
            proof {
                assert(key == cs[done].0);
                assert(cs.skip(done).skip(1) =~= cs.skip(done + 1));
            }
//@BEFORE 1 continue;
                    proof {
                        // finding (2): a key may be skipped only when its delta is 0 -- `last` was already advanced by
                        // counter.flush(), so a skipped non-zero delta is lost for good
                        assert(value == 0);
                        let s = Step { key, delta: value, updates: points_flushed, was_idle, emitted: false, idle_after: true, ts: None };
                        tr = tr_pre.push(s);
                        assert(tr.drop_last() =~= tr_pre);
                        assert(idle_fold(tr_pre, idle0).insert(key) =~= idle_fold(tr_pre, idle0));
                        lemma_counters_push(mode, cs, idle0, tr_pre, s);
                    }
//@BEFORE 1 if result.any_failures() {
            proof {
                let ts = match writer.log().last() { Emit::Counter { ts, .. } => ts, _ => None };
                let s = Step { key, delta: value, updates: points_flushed, was_idle, emitted: true,
                               idle_after: flush_state.idle().contains(key), ts };
                tr = tr_pre.push(s);
                assert(tr.drop_last() =~= tr_pre);
                assert(flush_state.idle() =~= idle_fold(tr, idle0));
                assert(writer.log() =~= log0 + emitted_of(tr));
                // "sent as zero exactly once": an unchanged counter's zero is emitted only when the key goes idle now
                assert(points_flushed == 0 && value == 0 ==> !was_idle && flush_state.idle().contains(key));
                // "... and then not again until it changes": any update re-activates the key
                assert(points_flushed > 0 ==> !flush_state.idle().contains(key));
                assert(ts_ok(mode, ts));
                lemma_counters_push(mode, cs, idle0, tr_pre, s);
            }
//@AFTER 1 let gauges = self.registry.get_gauge_handles();
        let ghost log1 = writer.log();
        let ghost idle1 = flush_state.idle();
        let ghost mut gtr: Seq<GStep> = Seq::empty();
        proof { assert(log1 + gauge_events(gtr) =~= log1); }
//@LOOP 2
            invariant
                mode == self.config.agg_mode,
                remaining(&it2).len() <= gs.len(),
                remaining(&it2) == gs.skip(gs.len() - remaining(&it2).len()),
                gauges_ok(mode, gs, gtr, gs.len() - remaining(&it2).len()),
                writer.log() == log1 + gauge_events(gtr),
                flush_state.idle() == idle1,
            ensures
                remaining(&it2).len() == 0,
            decreases remaining(&it2).len(),
//@AFTER 1 let (value, points_flushed) = gauge.flush();
            let ghost gdone = gs.len() - remaining(&it2).len() - 1;
            let ghost gtr_pre = gtr;
            proof {
                assert(key == gs[gdone].0);
                assert(gs.skip(gdone).skip(1) =~= gs.skip(gdone + 1));
            }
//@BEFORE 2 if result.any_failures() {
            proof {
                let ts = match writer.log().last() { Emit::Gauge { ts, .. } => ts, _ => None };
                let s = GStep { key, value, ts };
                gtr = gtr_pre.push(s);
                assert(gauge_events(gtr) =~= gauge_events(gtr_pre).push(gauge_emit(s)));
                assert(writer.log() =~= log1 + gauge_events(gtr));
            }
//@AFTER 1 let histograms_not_under_contract = ();
        proof {
            assert(writer.log() =~= log0 + emitted_of(tr) + gauge_events(gtr));
            assert(flush_ok(mode, cs, gs, idle0, flush_state.idle(), log0, writer.log(), tr, gtr));
        }
//@END

}

pub open spec fn gauge_events(gtr: Seq<GStep>) -> Seq<Emit> {
    Seq::new(gtr.len(), |i: int| gauge_emit(gtr[i]))
}

pub proof fn lemma_counters_push(mode: AggregationMode, cs: Seq<(Key, Arc<AtomicCounter>)>, idle0: Set<Key>, tr: Seq<Step>, s: Step)
    requires
        counters_ok(mode, cs, idle0, tr, tr.len() as int),
        tr.len() < cs.len(),
        s.key == cs[tr.len() as int].0,
        step_ok(s),
        s.was_idle == idle_fold(tr, idle0).contains(s.key),
        s.emitted ==> ts_ok(mode, s.ts),
    ensures
        counters_ok(mode, cs, idle0, tr.push(s), tr.len() as int + 1),
{
    let t2 = tr.push(s);
    assert forall|j: int| 0 <= j < t2.len() implies {
        &&& (#[trigger] t2[j]).key == cs[j].0
        &&& step_ok(t2[j])
        &&& t2[j].was_idle == idle_fold(t2.take(j), idle0).contains(t2[j].key)
        &&& (t2[j].emitted ==> ts_ok(mode, t2[j].ts))
    } by {
        assert(t2.take(j) =~= tr.take(j));
        if j < tr.len() {
            assert(t2[j] == tr[j]);
        } else {
            assert(tr.take(j) =~= tr);
        }
    }
}

#[verifier::external_body]
pub fn shim_unix_epoch() -> SystemTime { unimplemented!() }

} // verus!

// plain-Rust trait impls the std HashSet needs for the abstract Key (never executed)
impl Clone for Key { fn clone(&self) -> Self { unimplemented!() } }
impl PartialEq for Key { fn eq(&self, _o: &Self) -> bool { unimplemented!() } }
impl Eq for Key {}
impl std::hash::Hash for Key { fn hash<H: std::hash::Hasher>(&self, _s: &mut H) { unimplemented!() } }

fn main() {}
