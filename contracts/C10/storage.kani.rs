// C10 -- contracts on the real AtomicCounter / AtomicGauge (metrics-exporter-dogstatsd/src/storage.rs).
//
// Part 1 (sequential, complete): per-call contracts over an ARBITRARY pre-state (so every sequence of
// increment/absolute/set/.../flush follows by induction) plus whole-history identities from `new()`.
// Part 2 (`rg`, rely/guarantee): flush() run against other threads whose atomic steps are injected, through
// stubs on the std atomics, before every atomic step of the flusher.
use super::*;
use std::sync::atomic::Ordering::SeqCst;

fn same_f64(a: f64, b: f64) -> bool {
    // a produced NaN has an unspecified payload: compare "both NaN" then
    (a.is_nan() && b.is_nan()) || a.to_bits() == b.to_bits()
}

fn mk_counter(abs: bool, last: u64, cur: u64, upd: u64) -> AtomicCounter {
    AtomicCounter {
        is_absolute: AtomicBool::new(abs),
        last: AtomicU64::new(last),
        current: AtomicU64::new(cur),
        updates: AtomicU64::new(upd),
    }
}

fn snap(c: &AtomicCounter) -> (bool, u64, u64, u64) {
    (c.is_absolute.load(SeqCst), c.last.load(SeqCst), c.current.load(SeqCst), c.updates.load(SeqCst))
}

// ---------------------------------------------------------------------------------------------------------
// Per-call contracts, arbitrary pre-state (abs, last, cur, upd), arbitrary argument.
//   increment(v): current += v (mod 2^64), updates += 1, last untouched, mode := incremental
//   absolute(v) : current := v, updates += 1; the FIRST absolute after incremental mode re-bases last := v
//   flush()     : returns (current - last, updates); afterwards last == current and updates == 0
// Induction over any call sequence gives: sum of deltas + (current - last) is invariant under flush and grows
// by exactly v under increment(v); for an absolute-only counter sum of deltas + (current - last) == current - first.
pub fn c10_counter_percall_body(abs: bool, last: u64, cur: u64, upd: u64, v: u64, op: u8) {
    let c = mk_counter(abs, last, cur, upd);
    match op % 3 {
        0 => {
            CounterFn::increment(&c, v);
            assert!(snap(&c) == (false, last, cur.wrapping_add(v), upd.wrapping_add(1)));
        }
        1 => {
            CounterFn::absolute(&c, v);
            let exp_last = if abs { last } else { v };
            assert!(snap(&c) == (true, exp_last, v, upd.wrapping_add(1)));
        }
        _ => {
            let (delta, updates) = c.flush();
            assert!(delta == cur.wrapping_sub(last));
            assert!(updates == upd);
            assert!(snap(&c) == (abs, cur, cur, 0));
            // a second flush with nothing in between sends nothing new
            assert!(c.flush() == (0, 0));
        }
    }
    kani::cover!(op % 3 == 1 && !abs && last != v);
    kani::cover!(op % 3 == 2 && cur < last);
}
#[cfg(kani)]
#[kani::proof]
fn c10_counter_percall() {
    c10_counter_percall_body(kani::any(), kani::any(), kani::any(), kani::any(), kani::any(), kani::any());
}

// Whole history from new(): three increments with flushes at any of the cut points. Every delta is exactly what
// was added since the previous flush (hence never more), deltas sum to the increments, update counts sum to 3.
pub fn c10_counter_seq_increments_body(a: u64, b: u64, c: u64, f1: bool, f2: bool) {
    let ctr = AtomicCounter::new();
    let mut sent: u64 = 0;
    let mut ups: u64 = 0;
    let mut pending: u64 = 0; // added since the previous flush
    let mut pend_ups: u64 = 0;
    let mut fl = |ctr: &AtomicCounter, pending: &mut u64, pend_ups: &mut u64| {
        let (d, u) = ctr.flush();
        assert!(d == *pending);
        assert!(u == *pend_ups);
        *pending = 0;
        *pend_ups = 0;
        sent = sent.wrapping_add(d);
        ups += u;
        (sent, ups)
    };
    CounterFn::increment(&ctr, a);
    pending = pending.wrapping_add(a);
    pend_ups += 1;
    if f1 {
        fl(&ctr, &mut pending, &mut pend_ups);
    }
    CounterFn::increment(&ctr, b);
    pending = pending.wrapping_add(b);
    pend_ups += 1;
    if f2 {
        fl(&ctr, &mut pending, &mut pend_ups);
    }
    CounterFn::increment(&ctr, c);
    pending = pending.wrapping_add(c);
    pend_ups += 1;
    let (s, u) = fl(&ctr, &mut pending, &mut pend_ups);
    assert!(s == a.wrapping_add(b).wrapping_add(c));
    assert!(u == 3);
    assert!(ctr.flush() == (0, 0));
}
#[cfg(kani)]
#[kani::proof]
fn c10_counter_seq_increments() {
    c10_counter_seq_increments_body(kani::any(), kani::any(), kani::any(), kani::any(), kani::any());
}

// Counter driven only by absolute values, flushes at any cut point (also before the first value):
// deltas add up to (last value - first value), each delta is the difference between the values current at
// consecutive flushes, and the first flush after the first value sends 0.
pub fn c10_counter_seq_absolute_body(v1: u64, v2: u64, v3: u64, f0: bool, f1: bool, f2: bool) {
    let ctr = AtomicCounter::new();
    let mut sent: u64 = 0;
    let mut ups: u64 = 0;
    if f0 {
        assert!(ctr.flush() == (0, 0));
    }
    CounterFn::absolute(&ctr, v1);
    let mut at_prev_flush = v1; // the value the deltas are relative to
    if f1 {
        let (d, u) = ctr.flush();
        assert!(d == 0 && u == 1);
        ups += u;
    }
    CounterFn::absolute(&ctr, v2);
    if f2 {
        let (d, u) = ctr.flush();
        assert!(d == v2.wrapping_sub(at_prev_flush));
        at_prev_flush = v2;
        sent = sent.wrapping_add(d);
        ups += u;
    }
    CounterFn::absolute(&ctr, v3);
    let (d, u) = ctr.flush();
    assert!(d == v3.wrapping_sub(at_prev_flush));
    sent = sent.wrapping_add(d);
    ups += u;
    assert!(sent == v3.wrapping_sub(v1));
    assert!(ups == 3);
    assert!(ctr.flush() == (0, 0));
    kani::cover!(f0 && f1 && f2 && v1 < v2 && v2 < v3);
}
#[cfg(kani)]
#[kani::proof]
fn c10_counter_seq_absolute() {
    c10_counter_seq_absolute_body(kani::any(), kani::any(), kani::any(), kani::any(), kani::any(), kani::any());
}

// ---------------------------------------------------------------------------------------------------------
// AtomicGauge per-call contracts, arbitrary pre-state (bits, upd), all f64 bit patterns.
//   set(v): value := v (bit for bit); increment/decrement(v): value := value +/- v; each: updates += 1
//   flush(): returns (value, updates) and resets updates only -- the value stays, so EVERY flush sends the most
//   recent value.
pub fn c10_gauge_percall_body(bits: u64, upd: u64, vbits: u64, op: u8) {
    let v = f64::from_bits(vbits);
    let old = f64::from_bits(bits);
    let g = AtomicGauge { inner: AtomicU64::new(bits), updates: AtomicU64::new(upd) };
    match op % 4 {
        0 => {
            GaugeFn::set(&g, v);
            assert!(g.inner.load(SeqCst) == vbits);
            assert!(g.updates.load(SeqCst) == upd.wrapping_add(1));
        }
        1 => {
            GaugeFn::increment(&g, v);
            assert!(same_f64(f64::from_bits(g.inner.load(SeqCst)), old + v));
            assert!(g.updates.load(SeqCst) == upd.wrapping_add(1));
        }
        2 => {
            GaugeFn::decrement(&g, v);
            assert!(same_f64(f64::from_bits(g.inner.load(SeqCst)), old - v));
            assert!(g.updates.load(SeqCst) == upd.wrapping_add(1));
        }
        _ => {
            let (val, u) = g.flush();
            assert!(val.to_bits() == bits);
            assert!(u == upd);
            assert!(g.inner.load(SeqCst) == bits);
            assert!(g.updates.load(SeqCst) == 0);
        }
    }
    kani::cover!(op % 4 == 3 && old.is_nan());
    kani::cover!(op % 4 == 1 && old == 1.5 && v == 2.25);
}
#[cfg(kani)]
#[kani::proof]
#[kani::unwind(2)]
fn c10_gauge_percall() {
    c10_gauge_percall_body(kani::any(), kani::any(), kani::any(), kani::any());
}

// History from new(): two arbitrary gauge operations, then two flushes: both flushes send the result of the LAST
// operation (last write wins; the value is re-sent on every flush), update counts 2 then 0.
pub fn c10_gauge_seq_body(abits: u64, bbits: u64, op1: u8, op2: u8) {
    let a = f64::from_bits(abits);
    let b = f64::from_bits(bbits);
    let g = AtomicGauge::new();
    assert!(g.flush().0.to_bits() == 0.0f64.to_bits());
    let mut model = 0.0f64;
    match op1 % 3 {
        0 => { GaugeFn::set(&g, a); model = a; }
        1 => { GaugeFn::increment(&g, a); model = model + a; }
        _ => { GaugeFn::decrement(&g, a); model = model - a; }
    }
    match op2 % 3 {
        0 => { GaugeFn::set(&g, b); model = b; }
        1 => { GaugeFn::increment(&g, b); model = model + b; }
        _ => { GaugeFn::decrement(&g, b); model = model - b; }
    }
    let (v1, u1) = g.flush();
    assert!(same_f64(v1, model));
    assert!(u1 == 2);
    if op2 % 3 == 0 {
        assert!(v1.to_bits() == bbits); // a plain set is reported bit for bit
    }
    let (v2, u2) = g.flush();
    assert!(v2.to_bits() == v1.to_bits());
    assert!(u2 == 0);
}
#[cfg(kani)]
#[kani::proof]
#[kani::unwind(2)]
fn c10_gauge_seq() {
    c10_gauge_seq_body(kani::any(), kani::any(), kani::any(), kani::any());
}

// ---------------------------------------------------------------------------------------------------------
// Rely/guarantee.  The std atomics are replaced (generic path `Atomic::<T>::op`) by stubs that
//   1. let the environment run (`env()`: steps of other threads, as allowed by the RELY of the harness),
//   2. perform the operation itself through as_ptr() (one atomic step, SC),
//   3. log the step (which cell, which op, which value) so the harness can state the GUARANTEE of the call.
#[cfg(kani)]
mod rg {
    use super::*;
    use std::sync::atomic::Ordering;

    // cell ids
    const C_ABS: u8 = 1;
    const C_LAST: u8 = 2;
    const C_CUR: u8 = 3;
    const C_UPD: u8 = 4;
    const C_OTHER: u8 = 9;
    // op ids
    const O_LOAD: u8 = 1;
    const O_STORE: u8 = 2;
    const O_SWAP: u8 = 3;
    const O_FADD: u8 = 4;

    static mut P_ABS: *const AtomicBool = core::ptr::null();
    static mut P_LAST: *const AtomicU64 = core::ptr::null();
    static mut P_CUR: *const AtomicU64 = core::ptr::null();
    static mut P_UPD: *const AtomicU64 = core::ptr::null();

    // step log of the thread under contract
    static mut LOG: [(u8, u8, u64); 6] = [(0, 0, 0); 6];
    static mut NLOG: usize = 0;

    // which environment is active
    const ENV_NONE: u8 = 0;
    const ENV_INCREMENTS: u8 = 1; // any number of partial increment() calls by other threads
    const ENV_FIRST_ABSOLUTE: u8 = 2; // one concurrent absolute(v) on a fresh counter, any prefix of its steps
    const ENV_GAUGE: u8 = 3; // any number of set/increment/decrement by other threads
    static mut ENV: u8 = 0;

    // ghost state, counter
    static mut TOTAL: u64 = 0; // sum of all increments ever made, mod 2^64
    static mut PEND: u128 = 0; // what was really added to `current` since the flusher last read it (not wrapped)
    static mut PEND_AT_READ: u128 = 0;
    static mut BUMPS: u64 = 0; // `updates` bumps since the flusher last swapped it
    static mut BUMPS_AT_SWAP: u64 = 0;
    // ghost state, concurrent absolute(v)
    static mut ABS_V: u64 = 0;
    static mut ABS_PC: u8 = 0;
    static mut ABS_REBASE: bool = false;
    // ghost state, gauge
    static mut G_SEEN: u64 = 0;

    fn cell64(a: &AtomicU64) -> u8 {
        let p = a as *const AtomicU64;
        unsafe {
            if p == P_LAST { C_LAST } else if p == P_CUR { C_CUR } else if p == P_UPD { C_UPD } else { C_OTHER }
        }
    }

    unsafe fn log(cell: u8, op: u8, v: u64) {
        if NLOG < 6 {
            LOG[NLOG] = (cell, op, v);
        }
        NLOG += 1;
    }

    /// up to `n` further atomic steps of the concurrent `absolute(ABS_V)` (step list = its proved guarantee)
    unsafe fn abs_steps(n: u8) {
        let mut i = 0;
        while i < 4 {
            if i < n && ABS_PC < 4 {
                match ABS_PC {
                    0 => {
                        let was = *(*P_ABS).as_ptr();
                        *(*P_ABS).as_ptr() = true;
                        ABS_REBASE = !was;
                    }
                    1 => {
                        if ABS_REBASE {
                            *(*P_LAST).as_ptr() = ABS_V;
                        }
                    }
                    2 => {
                        *(*P_CUR).as_ptr() = ABS_V;
                    }
                    _ => {
                        *(*P_UPD).as_ptr() = (*(*P_UPD).as_ptr()).wrapping_add(1);
                    }
                }
                ABS_PC += 1;
            }
            i += 1;
        }
    }

    /// Steps of the other threads between two atomic steps of the thread under contract.
    unsafe fn env() {
        match ENV {
            ENV_INCREMENTS => {
                // RELY: other threads have executed, since the previous step, any number of the two RMWs of
                // `increment`: `current += d` (a real increment: total grows by the same d) and, NOT linked to it,
                // `updates += 1` (k times).  `a` is the true (unwrapped) amount added.
                let a: u128 = kani::any();
                kani::assume(a <= (1u128 << 96));
                *(*P_CUR).as_ptr() = (*(*P_CUR).as_ptr()).wrapping_add(a as u64);
                TOTAL = TOTAL.wrapping_add(a as u64);
                PEND += a;
                let k: u64 = kani::any();
                *(*P_UPD).as_ptr() = (*(*P_UPD).as_ptr()).wrapping_add(k);
                BUMPS = BUMPS.wrapping_add(k);
            }
            ENV_FIRST_ABSOLUTE => {
                // RELY: one other thread is inside `absolute(ABS_V)` and advances by any number of its atomic steps
                // (the step list is the GUARANTEE proved for the real `absolute` in c10_counter_absolute_guarantee_rg).
                abs_steps(kani::any());
            }
            _ => {}
        }
    }

    pub fn load_stub(a: &AtomicU64, _o: Ordering) -> u64 {
        unsafe {
            if ENV == ENV_GAUGE {
                // RELY (gauge): other threads completed any number of set/increment/decrement: the cell holds the
                // result of the last of them -- any bit pattern
                let bits: u64 = kani::any();
                *a.as_ptr() = bits;
                G_SEEN = bits;
            } else {
                env();
            }
            let v = *a.as_ptr();
            let c = cell64(a);
            if c == C_CUR {
                PEND_AT_READ = PEND;
                PEND = 0;
            }
            log(c, O_LOAD, v);
            v
        }
    }
    pub fn swap_stub(a: &AtomicU64, val: u64, _o: Ordering) -> u64 {
        unsafe {
            if ENV == ENV_GAUGE {
                let k: u64 = kani::any();
                *a.as_ptr() = (*a.as_ptr()).wrapping_add(k);
                BUMPS = BUMPS.wrapping_add(k);
            } else {
                env();
            }
            let old = *a.as_ptr();
            *a.as_ptr() = val;
            let c = cell64(a);
            if c == C_UPD || ENV == ENV_GAUGE {
                BUMPS_AT_SWAP = BUMPS;
                BUMPS = 0;
            }
            log(c, O_SWAP, val);
            old
        }
    }
    pub fn store_stub(a: &AtomicU64, val: u64, _o: Ordering) {
        unsafe {
            env();
            *a.as_ptr() = val;
            log(cell64(a), O_STORE, val);
        }
    }
    pub fn fetch_add_stub(a: &AtomicU64, val: u64, _o: Ordering) -> u64 {
        unsafe {
            env();
            let old = *a.as_ptr();
            *a.as_ptr() = old.wrapping_add(val);
            log(cell64(a), O_FADD, val);
            old
        }
    }
    pub fn bool_store_stub(a: &AtomicBool, val: bool, _o: Ordering) {
        unsafe {
            env();
            *a.as_ptr() = val;
            log(C_ABS, O_STORE, val as u64);
        }
    }
    pub fn bool_swap_stub(a: &AtomicBool, val: bool, _o: Ordering) -> bool {
        unsafe {
            env();
            let old = *a.as_ptr();
            *a.as_ptr() = val;
            log(C_ABS, O_SWAP, val as u64);
            old
        }
    }

    unsafe fn register(c: &AtomicCounter) {
        P_ABS = &c.is_absolute;
        P_LAST = &c.last;
        P_CUR = &c.current;
        P_UPD = &c.updates;
    }
    unsafe fn raw(c: &AtomicCounter) -> (bool, u64, u64, u64) {
        (*c.is_absolute.as_ptr(), *c.last.as_ptr(), *c.current.as_ptr(), *c.updates.as_ptr())
    }

    // GUARANTEE of increment(v): exactly three atomic steps, in this order, nothing else:
    //   is_absolute.store(false); current.fetch_add(v); updates.fetch_add(1)      (`last` is never touched)
    #[kani::proof]
    #[kani::stub(core::sync::atomic::Atomic::<u64>::load, load_stub)]
    #[kani::stub(core::sync::atomic::Atomic::<u64>::swap, swap_stub)]
    #[kani::stub(core::sync::atomic::Atomic::<u64>::store, store_stub)]
    #[kani::stub(core::sync::atomic::Atomic::<u64>::fetch_add, fetch_add_stub)]
    #[kani::stub(core::sync::atomic::Atomic::<bool>::store, bool_store_stub)]
    #[kani::stub(core::sync::atomic::Atomic::<bool>::swap, bool_swap_stub)]
    fn c10_counter_increment_guarantee_rg() {
        let c = mk_counter(kani::any(), kani::any(), kani::any(), kani::any());
        let v: u64 = kani::any();
        unsafe {
            register(&c);
            ENV = ENV_NONE;
            CounterFn::increment(&c, v);
            assert!(NLOG == 3);
            assert!(LOG[0] == (C_ABS, O_STORE, 0));
            assert!(LOG[1] == (C_CUR, O_FADD, v));
            assert!(LOG[2] == (C_UPD, O_FADD, 1));
        }
    }

    // GUARANTEE of absolute(v): is_absolute.swap(true); [only if it was false: last.store(v)]; current.store(v);
    // updates.fetch_add(1) -- in this order, nothing else.
    #[kani::proof]
    #[kani::stub(core::sync::atomic::Atomic::<u64>::load, load_stub)]
    #[kani::stub(core::sync::atomic::Atomic::<u64>::swap, swap_stub)]
    #[kani::stub(core::sync::atomic::Atomic::<u64>::store, store_stub)]
    #[kani::stub(core::sync::atomic::Atomic::<u64>::fetch_add, fetch_add_stub)]
    #[kani::stub(core::sync::atomic::Atomic::<bool>::store, bool_store_stub)]
    #[kani::stub(core::sync::atomic::Atomic::<bool>::swap, bool_swap_stub)]
    fn c10_counter_absolute_guarantee_rg() {
        let was_abs: bool = kani::any();
        let c = mk_counter(was_abs, kani::any(), kani::any(), kani::any());
        let v: u64 = kani::any();
        unsafe {
            register(&c);
            ENV = ENV_NONE;
            CounterFn::absolute(&c, v);
            assert!(LOG[0] == (C_ABS, O_SWAP, 1));
            if was_abs {
                assert!(NLOG == 3);
                assert!(LOG[1] == (C_CUR, O_STORE, v));
                assert!(LOG[2] == (C_UPD, O_FADD, 1));
            } else {
                assert!(NLOG == 4);
                assert!(LOG[1] == (C_LAST, O_STORE, v));
                assert!(LOG[2] == (C_CUR, O_STORE, v));
                assert!(LOG[3] == (C_UPD, O_FADD, 1));
            }
        }
    }

    // flush() as the single flusher against concurrent increments.
    // Pre-state: any state satisfying the inter-flush invariant
    //     I:  current == last + PEND (mod 2^64)   and   SENT + (current - last) == TOTAL (mod 2^64)
    // Obligations (post-state taken after a further arbitrary environment step):
    //   conservation   SENT' + (current - last) == TOTAL        where SENT' = SENT + delta
    //   no over-send   delta == PEND_AT_READ mod 2^64, hence delta <= what was really added since the previous read
    //   I again        current == last + PEND'                   (so the argument repeats for the next flush)
    //   update count   updates == number of bumps since the previous swap; bumps after the swap stay in the cell
    //   frame          flush performs exactly load(current), swap(last), swap(updates): `last` is written once, by
    //                  the flusher only, with the value it read.
    #[kani::proof]
    #[kani::stub(core::sync::atomic::Atomic::<u64>::load, load_stub)]
    #[kani::stub(core::sync::atomic::Atomic::<u64>::swap, swap_stub)]
    #[kani::stub(core::sync::atomic::Atomic::<u64>::store, store_stub)]
    #[kani::stub(core::sync::atomic::Atomic::<u64>::fetch_add, fetch_add_stub)]
    #[kani::stub(core::sync::atomic::Atomic::<bool>::store, bool_store_stub)]
    #[kani::stub(core::sync::atomic::Atomic::<bool>::swap, bool_swap_stub)]
    fn c10_counter_flush_rg() {
        let last0: u64 = kani::any();
        let pend0: u128 = kani::any();
        kani::assume(pend0 <= (1u128 << 100));
        let cur0 = last0.wrapping_add(pend0 as u64);
        let upd0: u64 = kani::any();
        let total0: u64 = kani::any();
        let sent0 = total0.wrapping_sub(cur0.wrapping_sub(last0));
        let c = mk_counter(false, last0, cur0, upd0);
        unsafe {
            register(&c);
            TOTAL = total0;
            PEND = pend0;
            BUMPS = upd0;
            ENV = ENV_INCREMENTS;
            let (delta, updates) = c.flush();
            env(); // and the world keeps moving after flush returned
            ENV = ENV_NONE;
            let (_, last1, cur1, upd1) = raw(&c);
            let sent1 = sent0.wrapping_add(delta);
            // conservation
            assert!(sent1.wrapping_add(cur1.wrapping_sub(last1)) == TOTAL);
            // no delta exceeds what was actually added since the previous flush's read
            assert!(delta == PEND_AT_READ as u64);
            assert!((delta as u128) <= PEND_AT_READ);
            // invariant re-established
            assert!(cur1 == last1.wrapping_add(PEND as u64));
            // update accounting
            assert!(updates == BUMPS_AT_SWAP);
            assert!(upd1 == BUMPS);
            // frame / single flusher
            assert!(NLOG == 3);
            assert!(LOG[0].0 == C_CUR && LOG[0].1 == O_LOAD);
            assert!(LOG[1] == (C_LAST, O_SWAP, LOG[0].2));
            assert!(LOG[2] == (C_UPD, O_SWAP, 0));
            // Reachable under this rely (vacuity guards AND evidence for State::flush's contract, see FINDINGS.md):
            // the update count says "nothing happened" while a non-zero delta is returned, and vice versa.
            kani::cover!(updates == 0 && delta != 0);
            kani::cover!(updates != 0 && delta == 0);
            kani::cover!(updates == 2 && delta == 5);
        }
    }

    // FINDING obligation (expected to fail on the current protocol): a FRESH counter, one other thread inside its first
    // `absolute(v)`.  Only one absolute value was ever given, so (last value - first value) == 0: every flush must send 0
    // and the deltas of this flush and the next must add up to 0 with neither exceeding what was added (nothing).
    #[kani::proof]
    #[kani::stub(core::sync::atomic::Atomic::<u64>::load, load_stub)]
    #[kani::stub(core::sync::atomic::Atomic::<u64>::swap, swap_stub)]
    #[kani::stub(core::sync::atomic::Atomic::<u64>::store, store_stub)]
    #[kani::stub(core::sync::atomic::Atomic::<u64>::fetch_add, fetch_add_stub)]
    #[kani::stub(core::sync::atomic::Atomic::<bool>::store, bool_store_stub)]
    #[kani::stub(core::sync::atomic::Atomic::<bool>::swap, bool_swap_stub)]
    fn c10_counter_flush_vs_first_absolute_rg() {
        let c = AtomicCounter::new();
        unsafe {
            register(&c);
            ABS_V = kani::any();
            ABS_PC = 0;
            ENV = ENV_FIRST_ABSOLUTE;
            let (delta, _updates) = c.flush();
            ENV = ENV_NONE;
            assert!(delta == 0, "no delta may exceed what was added (one absolute value: nothing)");
        }
    }

    // Control for the finding above (must pass): the same race once the counter IS in absolute mode is harmless --
    // with is_absolute already true the re-base step is skipped, `last` stays the flusher's, and the delta is one of
    // (old current - last) or (v - last), never more than v - last for non-decreasing absolute values.
    #[kani::proof]
    #[kani::stub(core::sync::atomic::Atomic::<u64>::load, load_stub)]
    #[kani::stub(core::sync::atomic::Atomic::<u64>::swap, swap_stub)]
    #[kani::stub(core::sync::atomic::Atomic::<u64>::store, store_stub)]
    #[kani::stub(core::sync::atomic::Atomic::<u64>::fetch_add, fetch_add_stub)]
    #[kani::stub(core::sync::atomic::Atomic::<bool>::store, bool_store_stub)]
    #[kani::stub(core::sync::atomic::Atomic::<bool>::swap, bool_swap_stub)]
    fn c10_counter_flush_vs_later_absolute_rg() {
        let last0: u64 = kani::any();
        let cur0: u64 = kani::any();
        let v: u64 = kani::any();
        kani::assume(last0 <= cur0 && cur0 <= v);
        let c = mk_counter(true, last0, cur0, kani::any());
        unsafe {
            register(&c);
            ABS_V = v;
            ABS_PC = 0;
            ENV = ENV_FIRST_ABSOLUTE;
            let (delta, _updates) = c.flush();
            // let the other thread finish, then flush again without interference
            abs_steps(4);
            ENV = ENV_NONE;
            assert!(ABS_PC == 4);
            let (delta2, _) = c.flush();
            assert!(delta <= v - last0);
            assert!(delta == cur0 - last0 || delta == v - last0);
            assert!(delta.wrapping_add(delta2) == v - last0);
            kani::cover!(delta == 7 && delta2 == 3);
        }
    }

    // AtomicGauge::flush against concurrent writers: the value returned is the cell content at the instant of the
    // load, i.e. the result of the last completed set/increment/decrement (any bit pattern); update accounting as for
    // the counter; the value cell is not written by flush.
    #[kani::proof]
    #[kani::stub(core::sync::atomic::Atomic::<u64>::load, load_stub)]
    #[kani::stub(core::sync::atomic::Atomic::<u64>::swap, swap_stub)]
    #[kani::stub(core::sync::atomic::Atomic::<u64>::store, store_stub)]
    #[kani::stub(core::sync::atomic::Atomic::<u64>::fetch_add, fetch_add_stub)]
    fn c10_gauge_flush_rg() {
        let upd0: u64 = kani::any();
        let g = AtomicGauge { inner: AtomicU64::new(kani::any()), updates: AtomicU64::new(upd0) };
        unsafe {
            BUMPS = upd0;
            ENV = ENV_GAUGE;
            let (val, updates) = g.flush();
            ENV = ENV_NONE;
            assert!(val.to_bits() == G_SEEN);
            assert!(*g.inner.as_ptr() == G_SEEN);
            assert!(updates == BUMPS_AT_SWAP);
            assert!(*g.updates.as_ptr() == 0);
            assert!(NLOG == 2);
            assert!(LOG[0].1 == O_LOAD && LOG[1].1 == O_SWAP && LOG[1].2 == 0);
            kani::cover!(val == 2.5 && updates == 0);
        }
    }
}
