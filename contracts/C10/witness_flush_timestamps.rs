// Hand-derived from the timestamp clause of `State::flush` ("counters and gauges carry a timestamp exactly in the aggregation
// mode documented to send one") for EVERY key, the exporter's own telemetry names included: concrete flushes in both modes.
use super::*;
use crate::{
    builder::AggregationMode,
    state::{FlushState, State, StateConfiguration},
    telemetry::TelemetryUpdate,
    writer::PayloadWriter,
};

fn lines(mode: AggregationMode) -> Vec<String> {
    let state = State::new(StateConfiguration {
        agg_mode: mode,
        telemetry: false,
        histogram_sampling: false,
        histogram_reservoir_size: 16,
        histograms_as_distributions: false,
        global_labels: Vec::new(),
        global_prefix: Some("app".into()),
    });
    for name in ["plain", "datadog.dogstatsd.client.packets_sent", "datadog.dogstatsd.clientish"] {
        let c: Arc<AtomicCounter> = state.registry().get_or_create_counter(&Key::from_name(name), |c| c.clone());
        CounterFn::increment(&*c, 2);
        let g: Arc<AtomicGauge> = state.registry().get_or_create_gauge(&Key::from_name(format!("{name}.g")), |g| g.clone());
        GaugeFn::set(&*g, 1.5);
    }
    let mut fs = FlushState::default();
    let mut w = PayloadWriter::new(8192, false);
    let mut telemetry = TelemetryUpdate::default();
    state.flush(&mut fs, &mut w, &mut telemetry);
    let mut out = Vec::new();
    let mut payloads = w.payloads();
    while let Some(p) = payloads.next_payload() {
        out.extend(String::from_utf8_lossy(p).lines().map(|l| l.to_string()));
    }
    out
}

#[test]
fn every_counter_and_gauge_is_timestamped_exactly_in_aggressive_mode() {
    let aggressive = lines(AggregationMode::Aggressive);
    assert_eq!(aggressive.len(), 6, "{aggressive:?}");
    for l in &aggressive { assert!(l.contains("|T"), "aggressive mode sends a timestamp with every counter / gauge: {l}"); }
    let conservative = lines(AggregationMode::Conservative);
    assert_eq!(conservative.len(), 6, "{conservative:?}");
    for l in &conservative { assert!(!l.contains("|T"), "conservative mode sends none: {l}"); }
    // the global prefix goes on every metric but the client telemetry namespace
    for l in aggressive.iter().chain(conservative.iter()) {
        let telemetry = l.starts_with("datadog.dogstatsd.client");
        assert!(telemetry || l.starts_with("app."), "prefix: {l}");
    }
}
