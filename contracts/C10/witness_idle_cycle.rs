// Hand-derived from the contract of `State::flush` on counters ("a counter that stops changing is sent as zero exactly once and
// then not again until it changes; any update re-activates it"): one concrete multi-flush history with TWO idle periods.
use super::*;
use crate::{
    builder::AggregationMode,
    state::{FlushState, State, StateConfiguration},
    telemetry::TelemetryUpdate,
    writer::PayloadWriter,
};

fn flush_values(state: &State, fs: &mut FlushState, w: &mut PayloadWriter) -> Vec<u64> {
    let mut telemetry = TelemetryUpdate::default();
    state.flush(fs, w, &mut telemetry);
    let mut out = Vec::new();
    let mut payloads = w.payloads();
    while let Some(p) = payloads.next_payload() {
        let s = String::from_utf8_lossy(p).to_string();
        let rest = s.strip_prefix("c:").expect("only key c is registered");
        out.push(rest.split('|').next().unwrap().parse::<u64>().unwrap());
    }
    out
}

#[test]
fn zero_is_sent_once_per_idle_period() {
    let state = State::new(StateConfiguration {
        agg_mode: AggregationMode::Conservative,
        telemetry: false,
        histogram_sampling: false,
        histogram_reservoir_size: 16,
        histograms_as_distributions: false,
        global_labels: Vec::new(),
        global_prefix: None,
    });
    let key = Key::from_name("c");
    let counter: Arc<AtomicCounter> = state.registry().get_or_create_counter(&key, |c| c.clone());
    let mut fs = FlushState::default();
    let mut w = PayloadWriter::new(8192, false);
    let mut history: Vec<Vec<u64>> = Vec::new();
    CounterFn::increment(&*counter, 3);
    history.push(flush_values(&state, &mut fs, &mut w)); // active: [3]
    history.push(flush_values(&state, &mut fs, &mut w)); // first idle flush: [0]
    history.push(flush_values(&state, &mut fs, &mut w)); // still idle: []
    CounterFn::increment(&*counter, 4);
    history.push(flush_values(&state, &mut fs, &mut w)); // re-activated: [4]
    history.push(flush_values(&state, &mut fs, &mut w)); // second idle period begins: [0]
    history.push(flush_values(&state, &mut fs, &mut w)); // []
    assert_eq!(history, vec![vec![3], vec![0], vec![], vec![4], vec![0], vec![]]);
}
