// Hand-derived from the failed clause `State::flush/assert: value == 0` at the `continue` (a key may be skipped only when
// its delta is 0).  The interleaving found by the rely/guarantee analysis (cover `updates == 0 && delta != 0` of
// c10_counter_flush_rg is SATISFIED) is replayed DETERMINISTICALLY: the test plays the other thread by executing the atomic
// steps of `increment(5)` one at a time, exactly as written in `<AtomicCounter as CounterFn>::increment`
// (is_absolute.store(false); current.fetch_add(5); updates.fetch_add(1)), with the forwarder's flush in between.
// (The module sits in storage.rs only because the counter's fields are private to it.)
use super::*;
use crate::{
    builder::AggregationMode,
    state::{FlushState, State, StateConfiguration},
    telemetry::TelemetryUpdate,
    writer::PayloadWriter,
};

/// one State::flush; returns the counter values sent for key "c" (parsed from `c:<value>|c...`)
fn flush_and_collect(state: &State, fs: &mut FlushState, w: &mut PayloadWriter) -> Vec<u64> {
    let mut telemetry = TelemetryUpdate::default();
    state.flush(fs, w, &mut telemetry);
    let mut out = Vec::new();
    let mut payloads = w.payloads();
    while let Some(p) = payloads.next_payload() {
        let s = String::from_utf8_lossy(p).to_string();
        let rest = s.strip_prefix("c:").expect("only key c is registered");
        let val = rest.split('|').next().unwrap();
        out.push(val.parse::<u64>().unwrap());
    }
    out
}

#[test]
fn increment_racing_a_flush_of_an_idle_counter_is_not_lost() {
    let state = State::new(StateConfiguration {
        agg_mode: AggregationMode::Conservative,
        telemetry: false,
        histogram_sampling: false,
        histogram_reservoir_size: 16,
        histograms_as_distributions: false,
        global_labels: Vec::new(),
        global_prefix: None,
    });
    let key = Key::from_name("c");
    let counter: Arc<AtomicCounter> = state.registry().get_or_create_counter(&key, |c| c.clone());
    let mut fs = FlushState::default();
    let mut w = PayloadWriter::new(8192, false);
    let mut sent: Vec<u64> = Vec::new();

    // the counter exists but is not being updated: zero is sent once, then the key is idle and skipped
    sent.extend(flush_and_collect(&state, &mut fs, &mut w));
    sent.extend(flush_and_collect(&state, &mut fs, &mut w));
    assert_eq!(sent, vec![0], "idle counter: zero sent exactly once");

    // thread A enters increment(5) and performs its first two atomic steps ...
    counter.is_absolute.store(false, Release);
    counter.current.fetch_add(5, Relaxed);
    // ... the forwarder thread flushes here (A is preempted between its two RMWs) ...
    sent.extend(flush_and_collect(&state, &mut fs, &mut w));
    // ... thread A performs its last step
    counter.updates.fetch_add(1, Relaxed);
    // two more flush intervals go by
    sent.extend(flush_and_collect(&state, &mut fs, &mut w));
    sent.extend(flush_and_collect(&state, &mut fs, &mut w));

    let total: u64 = sent.iter().sum();
    assert_eq!(total, 5, "the deltas sent must add up to the increments made; sent = {sent:?}");
}
