// Hand-derived from the failed clause `get_aggregation_timestamp/ensures:r.is_some() <==> documented_to_timestamp(..)`:
// builder.rs documents AggregationMode::Conservative as "not sent with a timestamp" and Aggressive as "sent with a
// timestamp"; a DogStatsD timestamp is the `|T<secs>` field.
use super::*;
use metrics::{CounterFn as _, GaugeFn as _};

fn flushed_payloads(agg_mode: AggregationMode) -> Vec<Vec<u8>> {
    let state = State::new(StateConfiguration {
        agg_mode,
        telemetry: false,
        histogram_sampling: false,
        histogram_reservoir_size: 16,
        histograms_as_distributions: false,
        global_labels: Vec::new(),
        global_prefix: None,
    });
    let ck = Key::from_name("c");
    let gk = Key::from_name("g");
    state.registry().get_or_create_counter(&ck, |c| c.increment(3));
    state.registry().get_or_create_gauge(&gk, |g| g.set(1.5));
    let mut flush_state = FlushState::default();
    let mut writer = PayloadWriter::new(8192, false);
    let mut telemetry = TelemetryUpdate::default();
    state.flush(&mut flush_state, &mut writer, &mut telemetry);
    let mut out = Vec::new();
    let mut payloads = writer.payloads();
    while let Some(p) = payloads.next_payload() {
        out.push(p.to_vec());
    }
    out
}

fn has_timestamp(p: &[u8]) -> bool {
    p.windows(2).any(|w| w == b"|T")
}

#[test]
fn conservative_mode_sends_no_timestamp_and_aggressive_mode_sends_one() {
    let cons = flushed_payloads(AggregationMode::Conservative);
    assert_eq!(cons.len(), 2, "one counter and one gauge payload");
    for p in &cons {
        assert!(!has_timestamp(p), "Conservative mode is documented to send NO timestamp: {:?}", String::from_utf8_lossy(p));
    }
    let aggr = flushed_payloads(AggregationMode::Aggressive);
    assert_eq!(aggr.len(), 2);
    for p in &aggr {
        assert!(has_timestamp(p), "Aggressive mode is documented to send a timestamp: {:?}", String::from_utf8_lossy(p));
    }
}
