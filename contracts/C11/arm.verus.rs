// C11 -- the per-client event arm of run_transport (metrics-exporter-tcp/src/lib.rs, `token => { .. }`), lifted (R29) and
// verified as a function.  Clause: "while at least one client is connected, every metric ... is delivered [to every client the
// exporter has accepted]": a client leaves the client map and the accounting ONLY on the evidence of a failed write, i.e. when
// drive_connection (under its own contract, drive.verus.rs) reports the connection closed during this very event.  Readiness
// flags alone (read-closed, error, hang-up) do not end a client that may still be reading.
#![allow(unused_imports, dead_code, unused_variables, unused_mut)]
use vstd::prelude::*;
use std::collections::VecDeque;

verus! {

global size_of usize == 8;

//@INCLUDE prelude/std_extra.rs

/// the licence to take a client out: established only by drive_connection returning `true` in this invocation
pub uninterp spec fn removal_licensed() -> bool;

#[verifier::external_body] pub struct TcpStream { _p: [u8; 0] }
#[verifier::external_body] pub struct Bytes { _p: [u8; 0] }
#[derive(Clone, Copy)] pub struct Token(pub usize);
/// mio::event::Event: readiness flags, all uninterpreted
#[verifier::external_body] pub struct Event { _p: [u8; 0] }
impl Event {
    #[verifier::external_body] pub fn is_writable(&self) -> bool { unimplemented!() }
    #[verifier::external_body] pub fn is_readable(&self) -> bool { unimplemented!() }
    #[verifier::external_body] pub fn is_read_closed(&self) -> bool { unimplemented!() }
    #[verifier::external_body] pub fn is_write_closed(&self) -> bool { unimplemented!() }
    #[verifier::external_body] pub fn is_error(&self) -> bool { unimplemented!() }
    #[verifier::external_body] pub fn is_priority(&self) -> bool { unimplemented!() }
}
/// HashMap<Token, (TcpStream, Option<Bytes>, VecDeque<Bytes>)> of run_transport
#[verifier::external_body] pub struct ClientMap { _p: [u8; 0] }
impl ClientMap {
    #[verifier::external_body]
    pub fn get_mut(&mut self, t: &Token) -> Option<(&mut TcpStream, &mut Option<Bytes>, &mut VecDeque<Bytes>)> { unimplemented!() }
    #[verifier::external_body]
    pub fn remove(&mut self, t: &Token) requires removal_licensed() { unimplemented!() }
    #[verifier::external_body]
    pub fn contains_key(&self, t: &Token) -> bool { unimplemented!() }
}
#[verifier::external_body] pub struct State { _p: [u8; 0] }
impl State {
    #[verifier::external_body] pub fn decrement_clients(&self) requires removal_licensed() { unimplemented!() }
    #[verifier::external_body] pub fn increment_clients(&self) { unimplemented!() }
}
/// contract proved on the real function in drive.verus.rs: `true` exactly when the connection was found closed
#[verifier::external_body]
pub fn drive_connection(conn: &mut TcpStream, wbuf: &mut Option<Bytes>, msgs: &mut VecDeque<Bytes>) -> (done: bool)
    ensures done ==> removal_licensed(),
{ unimplemented!() }

// R29: the block after `token =>` in run_transport, lifted (the matched token, the event and the captured locals become parameters)
//@ITEM file=metrics-exporter-tcp/src/lib.rs sel=fn run_transport lift_after=token => as=fn client_event(token: Token, event: &Event, clients: &mut ClientMap, state: &State)
//@REWRITE R3? re:\n\s*(?:trace|error|debug|warn|info)!\([^;]*\); ==> 
//@END

} // verus!
fn main() {}
