// C11 (frame-integrity clause only) — Verus contract for metrics-exporter-tcp/src/lib.rs `drive_connection`
// //@ITEM blocks are replaced on every run by the item's text taken verbatim from /repo's working tree.
#![allow(unused_imports, dead_code, unused_variables, unused_mut)]
use vstd::prelude::*;
use std::collections::VecDeque;

verus! {

global size_of usize == 8;

//@INCLUDE prelude/std_extra.rs

// ------------------------------------------------------------------ dependency stubs (ASSUMED contracts)
pub mod io {
    use vstd::prelude::*;
    #[derive(Clone, Copy)]
    pub enum ErrorKind { WouldBlock, Interrupted, Other }
    impl vstd::std_specs::cmp::PartialEqSpecImpl for ErrorKind {
        open spec fn obeys_eq_spec() -> bool { true }
        open spec fn eq_spec(&self, o: &ErrorKind) -> bool { *self == *o }
    }
    impl PartialEq for ErrorKind {
        fn eq(&self, o: &ErrorKind) -> (r: bool)
        {
            match (self, o) {
                (ErrorKind::WouldBlock, ErrorKind::WouldBlock) => true,
                (ErrorKind::Interrupted, ErrorKind::Interrupted) => true,
                (ErrorKind::Other, ErrorKind::Other) => true,
                _ => false,
            }
        }
    }
    #[verifier::external_body]
    pub struct Error { _p: [u8; 0] }
    impl Error {
        pub uninterp spec fn spec_kind(&self) -> ErrorKind;
        #[verifier::external_body]
        pub fn kind(&self) -> (k: ErrorKind) ensures k == self.spec_kind() { unimplemented!() }
    }
}

/// bytes::Bytes: an immutable byte string
#[verifier::external_body]
pub struct Bytes { _p: [u8; 0] }
impl Bytes {
    pub uninterp spec fn view(&self) -> Seq<u8>;
    #[verifier::external_body]
    pub fn len(&self) -> (r: usize) ensures r == self@.len() { unimplemented!() }
    // bytes: "Afterwards self contains elements [0, at), and the returned Bytes contains elements [at, len)"
    #[verifier::external_body]
    pub fn split_off(&mut self, at: usize) -> (r: Bytes)
        requires at <= old(self)@.len(),
        ensures final(self)@ == old(self)@.take(at as int), r@ == old(self)@.skip(at as int),
    { unimplemented!() }
}

/// mio::net::TcpStream, non-blocking. Ghost view: every byte the kernel has accepted for this client so far.
#[verifier::external_body]
pub struct TcpStream { _p: [u8; 0] }
impl TcpStream {
    pub uninterp spec fn sent(&self) -> Seq<u8>;
    // std::io::Write::write on a non-blocking socket: accepts a PREFIX of the buffer (possibly empty = peer closed) or fails
    // without accepting anything
    #[verifier::external_body]
    pub fn write(&mut self, buf: &Bytes) -> (r: Result<usize, io::Error>)
        ensures match r {
            Ok(n) => n <= buf@.len() && final(self).sent() == old(self).sent() + buf@.take(n as int),
            Err(e) => final(self).sent() == old(self).sent(),
        },
    { unimplemented!() }
}

// ------------------------------------------------------------------ specification
pub open spec fn flat(q: Seq<Bytes>) -> Seq<u8>
    decreases q.len(),
{
    if q.len() == 0 { Seq::<u8>::empty() } else { q[0]@ + flat(q.skip(1)) }
}
/// everything still owed to the client, in order: the parked remainder of a partially written frame, then the queued frames
pub open spec fn owed(wbuf: Option<Bytes>, msgs: Seq<Bytes>) -> Seq<u8> {
    (match wbuf { Some(b) => b@, None => Seq::<u8>::empty() }) + flat(msgs)
}

//@ITEM file=metrics-exporter-tcp/src/lib.rs sel=fn would_block ret=r
//@SPEC
    ensures r == (err.spec_kind() is WouldBlock),
//@END

//@ITEM file=metrics-exporter-tcp/src/lib.rs sel=fn interrupted ret=r
//@SPEC
    ensures r == (err.spec_kind() is Interrupted),
//@END

/// `a` is what is left of `b` after taking some elements off its front
pub open spec fn is_suffix<T>(a: Seq<T>, b: Seq<T>) -> bool { a.len() <= b.len() && a =~= b.skip(b.len() - a.len()) }

#[verifier::exec_allows_no_decreases_clause]
//@ITEM file=metrics-exporter-tcp/src/lib.rs sel=fn drive_connection ret=closed
// R3: tracing statements dropped (logging has no effect on the state the contract mentions)
//@REWRITE R3 re:\n\s*(?:trace|error|debug)!\([^;]*\); ==> 
//@SPEC
    ensures
        // the client's byte stream is conserved: what it has been sent, followed by everything still owed to it (parked
        // remainder first, then the queue, in order) is unchanged -- no byte of a frame is lost, duplicated or reordered, so the
        // stream stays a concatenation of whole frames even across partial writes, WouldBlock and EINTR.
        // (A client reported closed is dropped by the caller together with its queue.)
        !closed ==> final(conn).sent() + owed(*final(wbuf), final(msgs)@) == old(conn).sent() + owed(*old(wbuf), old(msgs)@),
        // the queue (which the caller may shorten from the front when the client is slow: drop-oldest) only ever holds whole,
        // not yet started frames: this function takes frames off its front and puts nothing (in particular no remainder of a
        // partially written frame) back into it -- the remainder is parked in `wbuf`, out of drop-oldest's reach.
        is_suffix(final(msgs)@, old(msgs)@),
//@LOOP 1
        invariant conn.sent() + owed(*wbuf, msgs@) == old(conn).sent() + owed(*old(wbuf), old(msgs)@),
            is_suffix(msgs@, old(msgs)@),
//@END

// ------------------------------------------------------------------ the per-client fan-out step of run_transport
#[derive(Clone, Copy)]
pub struct Token(pub usize);
/// exporter State (client_count / should_send are atomics behind `&self`): what this check needs is a FRAME condition --
/// which steps may change the client count at all
#[verifier::external_body] pub struct State { _p: [u8; 0] }
impl State {
    /// fixed by the `requires` of the function under proof: may this step call decrement_clients?
    pub uninterp spec fn decrement_permitted(&self) -> bool;
    #[verifier::external_body]
    pub fn decrement_clients(&self) requires self.decrement_permitted() { unimplemented!() }
}
// R2f: `let _ = Q.drain(0..N);` -> shim_drain_front(Q, N)  (std: VecDeque::drain panics when the range end exceeds the length)
#[verifier::external_body]
pub fn shim_drain_front(q: &mut VecDeque<Bytes>, n: usize)
    requires n <= old(q)@.len(),
    ensures final(q)@ == old(q)@.skip(n as int),
{ unimplemented!() }
// R2g: `Q.extend(B.iter().take(N).cloned())` -> shim_extend_take_cloned(Q, B, N)  (clone of Bytes is the same byte string)
#[verifier::external_body]
pub fn shim_extend_take_cloned(q: &mut VecDeque<Bytes>, b: &VecDeque<Bytes>, n: usize)
    ensures final(q)@ == old(q)@ + b@.take(if n <= b@.len() { n as int } else { b@.len() as int }),
{ unimplemented!() }

pub proof fn lemma_flat_concat(a: Seq<Bytes>, b: Seq<Bytes>)
    ensures flat(a + b) == flat(a) + flat(b),
    decreases a.len(),
{
    if a.len() == 0 {
        assert(a + b =~= b);
        assert(flat(a) =~= Seq::<u8>::empty());
        assert(flat(a) + flat(b) =~= flat(b));
    } else {
        assert((a + b)[0] == a[0]);
        assert((a + b).skip(1) =~= a.skip(1) + b);
        lemma_flat_concat(a.skip(1), b);
        assert(flat(a + b) =~= a[0]@ + (flat(a.skip(1)) + flat(b)));
        assert(flat(a) + flat(b) =~= a[0]@ + (flat(a.skip(1)) + flat(b)));
    }
}
pub proof fn lemma_cancel_suffix(x: Seq<u8>, y: Seq<u8>, t: Seq<u8>)
    requires x + t == y + t,
    ensures x == y,
{
    assert((x + t).len() == x.len() + t.len());
    assert((y + t).len() == y.len() + t.len());
    assert forall|i: int| 0 <= i < x.len() implies x[i] == y[i] by {
        assert((x + t)[i] == x[i]);
        assert((y + t)[i] == y[i]);
    }
    assert(x =~= y);
}
pub open spec fn parked(w: Option<Bytes>) -> Seq<u8> { match w { Some(b) => b@, None => Seq::<u8>::empty() } }
/// what the client is still to receive after a fan-out step that sent the first `a` queued frames' worth, discarded the `d`
/// oldest remaining WHOLE frames and appended the batch
pub open spec fn kept(q: Seq<Bytes>, a: int, d: int, batch: Seq<Bytes>) -> Seq<Bytes> {
    q.take(a) + q.skip(a + d) + batch
}

#[verifier::exec_allows_no_decreases_clause]
// R29: the body of `for (token, (conn, wbuf, msgs)) in clients.iter_mut() { .. }` lifted to a function (loop variables and the
// captured locals become parameters); R31: `continue` of that loop -> `return`
//@ITEM file=metrics-exporter-tcp/src/lib.rs sel=fn run_transport lift_after=in clients.iter_mut() as=fn fanout_client(token: &Token, conn: &mut TcpStream, wbuf: &mut Option<Bytes>, msgs: &mut VecDeque<Bytes>, buffered_pmsgs: &VecDeque<Bytes>, buffer_limit: usize, clients_to_remove: &mut Vec<Token>, state: &State)
//@REWRITE R31 continue; ==> return;
//@REWRITE R2f re:let _ = (\w+)\.drain\(0\.\.(\w+)\); ==> shim_drain_front(\1, \2);
//@REWRITE R2g re:(\w+)\.extend\((\w+)\.iter\(\)\.take\((\w+)\)\.cloned\(\)\); ==> shim_extend_take_cloned(\1, \2, \3);
//@SPEC
    requires
        old(msgs)@.len() <= buffer_limit,              // the per-client queue is bounded (maintained below)
        buffered_pmsgs@.len() <= buffer_limit,         // the batch was read under the same bound (rx loop of run_transport)
        // FRAME: a client is taken out of the accounting where it is taken out of the client map (the removal loop after the
        // fan-out, like the per-token arm does) -- not here, or it would be counted out twice
        !state.decrement_permitted(),
    ensures
        final(msgs)@.len() <= buffer_limit,
        // scheduled for removal at most once
        final(clients_to_remove)@ == old(clients_to_remove)@ || final(clients_to_remove)@ == old(clients_to_remove)@.push(*token),
        // a client that stays: its stream is still `sent ++ parked remainder ++ whole frames`: of the frames queued for it, the
        // `d` oldest not yet started may have been discarded (drop-oldest) -- never part of a frame, and nothing else
        final(clients_to_remove)@ == old(clients_to_remove)@ ==> exists|a: int, d: int| 0 <= a && 0 <= d && a + d <= old(msgs)@.len()
            && final(conn).sent() + owed(*final(wbuf), final(msgs)@)
                == old(conn).sent() + owed(*old(wbuf), #[trigger] kept(old(msgs)@, a, d, buffered_pmsgs@)),
//@AFTER 1 stmt:let done = drive_connection(
                        let ghost sent1 = conn.sent();
                        let ghost w1 = *wbuf;
                        let ghost q1 = msgs@;
//@AFTER 1 clients_to_remove.push(*token);
                            assert(clients_to_remove@.len() == old(clients_to_remove)@.len() + 1);
//@AFTER 2 clients_to_remove.push(*token);
                            assert(clients_to_remove@.len() == old(clients_to_remove)@.len() + 1);
//@AFTER 1 stmt:shim_extend_take_cloned(
                        let ghost q2 = msgs@;
                        let ghost dd = to_drain as int;
//@BODYEND
                        proof {
                            let q0 = old(msgs)@;
                            let batch = buffered_pmsgs@;
                            if !done {
                                let a = q0.len() - q1.len();
                                assert(q1 =~= q0.skip(a));
                                assert(batch.take(batch.len() as int) =~= batch);
                                assert(q2 =~= q0.skip(a + dd) + batch);
                                assert(q0.take(a) + q0.skip(a) =~= q0);
                                lemma_flat_concat(q0.take(a), q0.skip(a));
                                lemma_flat_concat(q0.take(a) + q0.skip(a + dd), batch);
                                lemma_flat_concat(q0.take(a), q0.skip(a + dd));
                                lemma_flat_concat(q0.skip(a + dd), batch);
                                let s0 = old(conn).sent() + parked(*old(wbuf));
                                // first drive: sent1 ++ w1 ++ flat(q0.skip(a)) == s0 ++ flat(q0.take(a)) ++ flat(q0.skip(a))
                                assert((sent1 + parked(w1)) + flat(q1) =~= sent1 + owed(w1, q1));
                                assert((s0 + flat(q0.take(a))) + flat(q1) =~= old(conn).sent() + owed(*old(wbuf), q0));
                                lemma_cancel_suffix(sent1 + parked(w1), s0 + flat(q0.take(a)), flat(q1));
                                // second drive conserves sent1 ++ w1 ++ flat(q2)
                                assert(conn.sent() + owed(*wbuf, msgs@) == sent1 + owed(w1, q2));
                                assert(sent1 + owed(w1, q2) =~= (sent1 + parked(w1)) + flat(q2));
                                assert(old(conn).sent() + owed(*old(wbuf), kept(q0, a, dd, batch)) =~= (s0 + flat(q0.take(a))) + flat(q2));
                                assert(0 <= a && 0 <= dd && a + dd <= q0.len());
                            }
                        }
//@END

} // verus!
fn main() {}
