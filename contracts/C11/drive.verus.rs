// C11 (frame-integrity clause only) — Verus contract for metrics-exporter-tcp/src/lib.rs `drive_connection`
// //@ITEM blocks are replaced on every run by the item's text taken verbatim from /repo's working tree.
#![allow(unused_imports, dead_code, unused_variables, unused_mut)]
use vstd::prelude::*;
use std::collections::VecDeque;

verus! {

global size_of usize == 8;

//@INCLUDE prelude/std_extra.rs

// ------------------------------------------------------------------ dependency stubs (ASSUMED contracts)
pub mod io {
    use vstd::prelude::*;
    #[derive(Clone, Copy)]
    pub enum ErrorKind { WouldBlock, Interrupted, Other }
    impl vstd::std_specs::cmp::PartialEqSpecImpl for ErrorKind {
        open spec fn obeys_eq_spec() -> bool { true }
        open spec fn eq_spec(&self, o: &ErrorKind) -> bool { *self == *o }
    }
    impl PartialEq for ErrorKind {
        fn eq(&self, o: &ErrorKind) -> (r: bool)
        {
            match (self, o) {
                (ErrorKind::WouldBlock, ErrorKind::WouldBlock) => true,
                (ErrorKind::Interrupted, ErrorKind::Interrupted) => true,
                (ErrorKind::Other, ErrorKind::Other) => true,
                _ => false,
            }
        }
    }
    #[verifier::external_body]
    pub struct Error { _p: [u8; 0] }
    impl Error {
        pub uninterp spec fn spec_kind(&self) -> ErrorKind;
        #[verifier::external_body]
        pub fn kind(&self) -> (k: ErrorKind) ensures k == self.spec_kind() { unimplemented!() }
    }
}

/// bytes::Bytes: an immutable byte string
#[verifier::external_body]
pub struct Bytes { _p: [u8; 0] }
impl Bytes {
    pub uninterp spec fn view(&self) -> Seq<u8>;
    #[verifier::external_body]
    pub fn len(&self) -> (r: usize) ensures r == self@.len() { unimplemented!() }
    // bytes: "Afterwards self contains elements [0, at), and the returned Bytes contains elements [at, len)"
    #[verifier::external_body]
    pub fn split_off(&mut self, at: usize) -> (r: Bytes)
        requires at <= old(self)@.len(),
        ensures final(self)@ == old(self)@.take(at as int), r@ == old(self)@.skip(at as int),
    { unimplemented!() }
}

/// mio::net::TcpStream, non-blocking. Ghost view: every byte the kernel has accepted for this client so far.
#[verifier::external_body]
pub struct TcpStream { _p: [u8; 0] }
impl TcpStream {
    pub uninterp spec fn sent(&self) -> Seq<u8>;
    // std::io::Write::write on a non-blocking socket: accepts a PREFIX of the buffer (possibly empty = peer closed) or fails
    // without accepting anything
    #[verifier::external_body]
    pub fn write(&mut self, buf: &Bytes) -> (r: Result<usize, io::Error>)
        ensures match r {
            Ok(n) => n <= buf@.len() && final(self).sent() == old(self).sent() + buf@.take(n as int),
            Err(e) => final(self).sent() == old(self).sent(),
        },
    { unimplemented!() }
}

// ------------------------------------------------------------------ specification
pub open spec fn flat(q: Seq<Bytes>) -> Seq<u8>
    decreases q.len(),
{
    if q.len() == 0 { Seq::<u8>::empty() } else { q[0]@ + flat(q.skip(1)) }
}
/// everything still owed to the client, in order: the parked remainder of a partially written frame, then the queued frames
pub open spec fn owed(wbuf: Option<Bytes>, msgs: Seq<Bytes>) -> Seq<u8> {
    (match wbuf { Some(b) => b@, None => Seq::<u8>::empty() }) + flat(msgs)
}

//@ITEM file=metrics-exporter-tcp/src/lib.rs sel=fn would_block ret=r
//@SPEC
    ensures r == (err.spec_kind() is WouldBlock),
//@END

//@ITEM file=metrics-exporter-tcp/src/lib.rs sel=fn interrupted ret=r
//@SPEC
    ensures r == (err.spec_kind() is Interrupted),
//@END

/// `a` is what is left of `b` after taking some elements off its front
pub open spec fn is_suffix<T>(a: Seq<T>, b: Seq<T>) -> bool { a.len() <= b.len() && a =~= b.skip(b.len() - a.len()) }

#[verifier::exec_allows_no_decreases_clause]
//@ITEM file=metrics-exporter-tcp/src/lib.rs sel=fn drive_connection ret=closed
// R3: tracing statements dropped (logging has no effect on the state the contract mentions)
//@REWRITE R3 re:\n\s*(?:trace|error|debug)!\([^;]*\); ==> 
//@SPEC
    ensures
        // the client's byte stream is conserved: what it has been sent, followed by everything still owed to it (parked
        // remainder first, then the queue, in order) is unchanged -- no byte of a frame is lost, duplicated or reordered, so the
        // stream stays a concatenation of whole frames even across partial writes, WouldBlock and EINTR.
        // (A client reported closed is dropped by the caller together with its queue.)
        !closed ==> final(conn).sent() + owed(*final(wbuf), final(msgs)@) == old(conn).sent() + owed(*old(wbuf), old(msgs)@),
        // the queue (which the caller may shorten from the front when the client is slow: drop-oldest) only ever holds whole,
        // not yet started frames: this function takes frames off its front and puts nothing (in particular no remainder of a
        // partially written frame) back into it -- the remainder is parked in `wbuf`, out of drop-oldest's reach.
        is_suffix(final(msgs)@, old(msgs)@),
//@LOOP 1
        invariant conn.sent() + owed(*wbuf, msgs@) == old(conn).sent() + owed(*old(wbuf), old(msgs)@),
            is_suffix(msgs@, old(msgs)@),
//@END

} // verus!
fn main() {}
