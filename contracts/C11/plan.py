PLAN = {
    "property": "C11",
    "level": "proof",
    "manifest": {
        "technique": "Verus (z3) on drive_connection (+ would_block/interrupted) extracted verbatim, with the non-blocking socket write as an ASSUMED contract over a ghost 'bytes accepted so far' view (frame-integrity clause only)",
        "text": "Only the per-client frame-integrity clause is claimed, at the one function boundary where it lives: for every state of (parked remainder, queue), every socket behaviour (any partial write length, WouldBlock, EINTR, errors) and any number of loop iterations, drive_connection conserves `bytes accepted by the socket ++ parked remainder ++ queued frames`: no byte of a frame is lost, duplicated or reordered, so what a slow client receives stays a prefix of the concatenation of whole frames; and the droppable queue only loses frames from its front and never receives the remainder of a half-written frame (that stays parked in wbuf, out of drop-oldest's reach).",
        "note": "ASSUMED: std::io::Write::write on a non-blocking mio TcpStream accepts a prefix of the buffer or fails without accepting anything; bytes::Bytes::split_off as documented; vstd VecDeque specs. NOT decided (no function boundary a contract can name: all inside the mio event loop run_transport): which frames are queued for which client, drop-oldest, metadata-first ordering, client accounting (increment/decrement_clients), behaviour for buffer_size None, delivery to every client. Termination of the retry recursion is not proved.",
    },
    "min_obligations": {"quick": 3, "thorough": 3},
    "assumptions": [
        "non-blocking TcpStream::write: Ok(n) accepted exactly the first n <= len bytes, Err(_) accepted nothing (std/mio contract)",
        "bytes::Bytes::split_off(at): self keeps [0, at), the result is [at, len)",
        "vstd specifications of VecDeque::pop_front and Option::take; Option::replace (assumed)",
        "R3: trace!/error! statements dropped; the #[tracing::instrument] attribute is not extracted",
        "recursion on EINTR: no termination proof (exec_allows_no_decreases_clause)",
        "everything in run_transport (event loop, per-client queues, accounting) is outside this check",
    ],
    "verus": [
        {"template": "drive.verus.rs", "tier": "quick", "rlimit": 40, "min_functions": 3},
    ],
    "witnesses": [
        {"match": r"drive_connection", "src": "witness_would_block.rs", "crate": "metrics-exporter-tcp", "file": "metrics-exporter-tcp/src/lib.rs"},
    ],
}
