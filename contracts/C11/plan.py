PLAN = {
    "property": "C11",
    "level": "proof",
    "manifest": {
        "technique": "Verus (z3) on drive_connection (+ would_block/interrupted) and on the per-client fan-out step of run_transport (loop body lifted mechanically to a function), extracted verbatim, with the non-blocking socket write as an ASSUMED contract over a ghost 'bytes accepted so far' view (frame-integrity and per-client queue clauses)",
        "text": "Claimed where a boundary exists. (a) drive_connection: for every state of (parked remainder, queue), every socket behaviour (any partial write length, WouldBlock, EINTR, errors) and any number of loop iterations, drive_connection conserves `bytes accepted by the socket ++ parked remainder ++ queued frames`: no byte of a frame is lost, duplicated or reordered, so what a slow client receives stays a prefix of the concatenation of whole frames; and the droppable queue only loses frames from its front and never receives the remainder of a half-written frame (that stays parked in wbuf, out of drop-oldest's reach). (b) the per-client fan-out step (drive, drop-oldest, append the batch, drive): the queue stays within buffer_size; drop-oldest never asks to drain more than is queued (no panic); a client that stays keeps a stream of the form sent ++ parked remainder ++ whole frames, from which only whole, not yet started, oldest frames were discarded; a closed client is scheduled for removal once and is NOT counted out here (it is counted out where it leaves the client map). (c) State::register_metric / push_metric: whenever the call attempted to enqueue an event it woke the transport afterwards (ghost accounting spliced after the real statements). (d) the metadata arm of the rx loop (lifted): after a (re-)description the table holds the latest unit and description of the name, the first registration's type, and nothing else changes.",
        "note": "ASSUMED: std::io::Write::write on a non-blocking mio TcpStream accepts a prefix of the buffer or fails without accepting anything; bytes::Bytes::split_off as documented; vstd VecDeque specs. NOT decided (inside the mio event loop run_transport, no boundary): the rx loop that bounds the batch, metadata-first ordering, accept path and the removal loop (that client_count equals the number of mapped clients is only covered by the frame condition above), behaviour for buffer_size None (VecDeque::with_capacity(usize::MAX)), delivery to every client, encoding. Termination of the retry recursion is not proved.",
    },
    "min_obligations": {"quick": 12, "thorough": 12},
    "assumptions": [
        "non-blocking TcpStream::write: Ok(n) accepted exactly the first n <= len bytes, Err(_) accepted nothing (std/mio contract)",
        "bytes::Bytes::split_off(at): self keeps [0, at), the result is [at, len)",
        "vstd specifications of VecDeque::pop_front and Option::take; Option::replace (assumed)",
        "R3: trace!/error! statements dropped; the #[tracing::instrument] attribute is not extracted",
        "recursion on EINTR: no termination proof (exec_allows_no_decreases_clause)",
        "R29: the body of `for (token, (conn, wbuf, msgs)) in clients.iter_mut()` is lifted to a function (loop variables and captured locals become parameters; `continue` -> `return`); its preconditions (queue and batch within buffer_limit) are maintained by code outside the check",
        "R2f/R2g: `msgs.drain(0..n)` and `msgs.extend(batch.iter().take(limit).cloned())` -> shims with std's contract (drain panics when n > len)",
        "State::decrement_clients is a stub whose precondition encodes the frame condition (which step may change the client count)",
        "the rest of run_transport (event loop, rx loop, accept, removal loop) is outside this check",
    ],
    "verus": [
        {"template": "drive.verus.rs", "tier": "quick", "rlimit": 40, "min_functions": 5},
        # enqueue side: every enqueue attempt is followed by a wake-up; the metadata table keeps the latest description
        {"template": "state.verus.rs", "tier": "quick", "rlimit": 40, "min_functions": 3},
        # per-client event arm (lifted): a client is removed / counted out only when drive_connection reported the connection closed
        {"template": "arm.verus.rs", "tier": "quick", "rlimit": 20, "min_functions": 1},
    ],
    "witnesses": [
        # the connect clause on the real exporter over loopback (metadata changes between two connects)
        {"match": r"(fn run_transport|on_metadata|metadata)", "name": "fn run_transport (connect)", "src": "witness_metadata_on_connect.rs", "crate": "metrics-exporter-tcp", "file": "metrics-exporter-tcp/src/lib.rs"},
        {"match": r"drive_connection", "src": "witness_would_block.rs", "crate": "metrics-exporter-tcp", "file": "metrics-exporter-tcp/src/lib.rs"},
        {"match": r"run_transport/precondition:state.decrement_clients", "src": "witness_double_decrement.rs", "crate": "metrics-exporter-tcp", "file": "metrics-exporter-tcp/src/lib.rs"},
    ],
}
