// C11 — Verus contracts for the enqueue side of the TCP exporter (metrics-exporter-tcp/src/lib.rs): State::register_metric /
// push_metric (every enqueue attempt is followed by a wake-up of the transport) and the metadata table update of run_transport
// (the latest description and unit of a name are what a client connecting later is told).
#![feature(allocator_api)]
#![allow(unused_imports, dead_code, unused_variables, unused_mut)]
use vstd::prelude::*;
use std::collections::HashMap;
use vstd::std_specs::hash::*;

verus! {

global size_of usize == 8;

//@INCLUDE prelude/std_extra.rs
//@INCLUDE prelude/hashmap_entry.rs

// ------------------------------------------------------------------ stubs (ASSUMED contracts)
#[verifier::external_body] pub struct KeyName { _p: [u8; 0] }
#[verifier::external_body] pub struct Key { _p: [u8; 0] }
#[verifier::external_body] pub struct SharedString { _p: [u8; 0] }
#[derive(Clone, Copy)] pub struct Unit(pub u8);
#[derive(Clone, Copy)] pub struct MetricType(pub u8);
impl Clone for Key { #[verifier::external_body] fn clone(&self) -> (r: Self) ensures r == *self { unimplemented!() } }
#[verifier::external_body] pub struct AtomicUsize { _p: [u8; 0] }
#[verifier::external_body] pub struct AtomicBool { _p: [u8; 0] }
pub enum Ordering { Relaxed, Release, Acquire, AcqRel, SeqCst }
impl AtomicBool {
    #[verifier::external_body] pub fn load(&self, o: Ordering) -> bool { unimplemented!() }
}
#[verifier::external_body] pub struct Waker { _p: [u8; 0] }
#[verifier::external_body] pub struct IoError { _p: [u8; 0] }
impl Waker {
    #[verifier::external_body] pub fn wake(&self) -> Result<(), IoError> { unimplemented!() }
}
#[verifier::external_body] #[verifier::reject_recursive_types(T)] pub struct Sender<T> { _p: core::marker::PhantomData<T> }
#[verifier::external_body] #[verifier::reject_recursive_types(T)] pub struct TrySendError<T> { _p: core::marker::PhantomData<T> }
impl<T> Sender<T> {
    #[verifier::external_body] pub fn try_send(&self, msg: T) -> Result<(), TrySendError<T>> { unimplemented!() }
    #[verifier::external_body] pub fn is_empty(&self) -> bool { unimplemented!() }
    #[verifier::external_body] pub fn len(&self) -> usize { unimplemented!() }
    #[verifier::external_body] pub fn is_full(&self) -> bool { unimplemented!() }
}
//@ITEM file=metrics-exporter-tcp/src/lib.rs sel=enum MetricOperation
//@END
//@ITEM file=metrics-exporter-tcp/src/lib.rs sel=enum Event
//@END
//@ITEM file=metrics-exporter-tcp/src/lib.rs sel=struct State
//@END

impl State {
//@ITEM file=metrics-exporter-tcp/src/lib.rs sel=impl State :: fn should_send
//@END
//@ITEM file=metrics-exporter-tcp/src/lib.rs sel=impl State :: fn wake
//@END
// Ghost accounting spliced after the REAL statements: whenever this call attempted to enqueue an event, it woke the transport
// afterwards. (Per call this is the weakest condition under which the transport, whatever it is doing, is certain to look at the
// queue again after the enqueue; a scheme that coalesces wake-ups across calls would need its own argument and would be reported.)
//@ITEM file=metrics-exporter-tcp/src/lib.rs sel=impl State :: fn register_metric
//@BODYSTART
        let ghost mut enq: bool = false;
        let ghost mut woke_after: bool = false;
//@AFTER 1 stmt:self.tx.try_send(
        proof { enq = true; woke_after = false; }
//@AFTER 1 stmt:self.wake()
        proof { woke_after = true; }
//@BODYEND
        assert(enq && woke_after);      // a description is always enqueued, and the transport woken after it
//@END
//@ITEM file=metrics-exporter-tcp/src/lib.rs sel=impl State :: fn push_metric
//@BODYSTART
        let ghost mut enq: bool = false;
        let ghost mut woke_after: bool = false;
//@AFTER 1 stmt:self.tx.try_send(
            proof { enq = true; woke_after = false; }
//@AFTER 1 stmt:self.wake()
            proof { woke_after = true; }
//@BODYEND
        assert(enq ==> woke_after);
//@END
}

// ------------------------------------------------------------------ run_transport: the metadata table
pub type MetaMap = HashMap<KeyName, (MetricType, Option<Unit>, Option<SharedString>)>;
// R29: the arm `Event::Metadata(key, metric_type, unit, desc) => { .. }` of run_transport's rx loop lifted to a function
//@ITEM file=metrics-exporter-tcp/src/lib.rs sel=fn run_transport lift_after=Event::Metadata(key, metric_type, unit, desc) => as=fn on_metadata(metadata: &mut MetaMap, key: KeyName, metric_type: MetricType, unit: Option<Unit>, desc: SharedString)
// SPEC-closure: the default of a first registration
//@IF file=metrics-exporter-tcp/src/lib.rs sel=fn run_transport contains=.or_insert_with(|| (metric_type, None, None))
//@REWRITE SPEC-closure re:\.or_insert_with\(\|\| \(metric_type, None, None\)\) ==> .or_insert_with(|| -> (d: (MetricType, Option<Unit>, Option<SharedString>)) ensures d == (metric_type, None::<Unit>, None::<SharedString>) { (metric_type, None, None) })
//@ENDIF
//@SPEC
    requires obeys_key_model::<KeyName>(),
    ensures
        // after a (re-)description the table holds the LATEST unit and description of the name (the type of its first registration
        // is kept); no other name changes -- this table is what a client connecting later is told first
        final(metadata)@ == old(metadata)@.insert(key, (
            if old(metadata)@.contains_key(key) { old(metadata)@[key].0 } else { metric_type }, unit, Some(desc))),
//@END

} // verus!
// trait impls std's HashMap demands of the key stub (outside verus!: external, never executed by the verifier)
impl PartialEq for KeyName { fn eq(&self, _: &KeyName) -> bool { unimplemented!() } }
impl Eq for KeyName {}
impl std::hash::Hash for KeyName { fn hash<H: std::hash::Hasher>(&self, _: &mut H) { unimplemented!() } }
fn main() {}
