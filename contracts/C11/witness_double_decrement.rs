// Hand-derived from the failed obligation `fanout_client / precondition: state.decrement_clients requires decrement_permitted`:
// a client found closed on the fan-out path is counted out there AND again in the removal loop that follows. With two clients,
// one disconnect brings client_count from 2 to 0, should_send goes false, and the client that is still connected and reading
// receives nothing any more.
use super::*;
use std::io::Read;
use std::time::{Duration, Instant};

#[test]
fn a_disconnecting_client_does_not_stop_delivery_to_the_one_still_connected() {
    let probe = std::net::TcpListener::bind("127.0.0.1:0").unwrap();
    let addr = probe.local_addr().unwrap();
    drop(probe);
    let recorder = TcpBuilder::new().listen_address(addr).buffer_size(Some(256)).build().expect("exporter starts");
    static METADATA: metrics::Metadata<'static> = metrics::Metadata::new("c11", metrics::Level::INFO, None);
    let counter = recorder.register_counter(&Key::from_name("c11_witness"), &METADATA);

    let leaving = std::net::TcpStream::connect(addr).unwrap();
    let mut staying = std::net::TcpStream::connect(addr).unwrap();
    staying.set_read_timeout(Some(Duration::from_millis(20))).unwrap();
    std::thread::sleep(Duration::from_millis(300)); // both accepted

    let mut chunk = vec![0u8; 1 << 16];
    let mut received = 0usize;
    // both connected: metrics flow
    for _ in 0..20 {
        counter.increment(1);
        std::thread::sleep(Duration::from_millis(5));
        if let Ok(n) = staying.read(&mut chunk) { received += n; }
    }
    assert!(received > 0, "the staying client receives metrics while both are connected");

    // one client goes away; the exporter notices on a later write to it (the fan-out path)
    drop(leaving);
    let deadline = Instant::now() + Duration::from_secs(3);
    while Instant::now() < deadline {
        counter.increment(1);
        std::thread::sleep(Duration::from_millis(5));
        let _ = staying.read(&mut chunk);
    }
    // by now the exporter has dropped the closed client; the one still connected must keep receiving
    let mut late = 0usize;
    for _ in 0..100 {
        counter.increment(1);
        std::thread::sleep(Duration::from_millis(5));
        if let Ok(n) = staying.read(&mut chunk) { late += n; }
    }
    assert!(late > 0, "a client that is still connected and reading stopped receiving metrics after another client disconnected");
}
