// Hand-derived from the connect clause of C11 ("each connected client receives ... first the metadata known when it connected
// and then metrics", whole length-delimited frames): the real exporter over loopback; the metadata of a metric changes between
// two connects and each client must be sent the state at ITS connect.
use super::*;
use prost::Message;
use std::io::Read;
use std::net::{SocketAddr, TcpListener as StdListener, TcpStream as StdStream};
use std::time::{Duration, Instant};

fn read_frame(s: &mut StdStream) -> proto::Event {
    // length-delimited: varint length, then the message
    let mut len: u64 = 0;
    let mut shift = 0;
    loop {
        let mut b = [0u8; 1];
        s.read_exact(&mut b).expect("frame header");
        len |= ((b[0] & 0x7f) as u64) << shift;
        if b[0] & 0x80 == 0 { break; }
        shift += 7;
    }
    let mut buf = vec![0u8; len as usize];
    s.read_exact(&mut buf).expect("whole frame");
    proto::Event::decode(&buf[..]).expect("a whole Event message")
}

fn description_of(ev: &proto::Event) -> (String, Option<String>, Option<String>) {
    match ev.event.as_ref().expect("event") {
        proto::event::Event::Metadata(m) => (
            m.name.clone(),
            m.unit.as_ref().map(|u| match u { proto::metadata::Unit::UnitValue(s) => s.clone() }),
            m.description.as_ref().map(|d| match d { proto::metadata::Description::DescriptionValue(s) => s.clone() }),
        ),
        other => panic!("expected metadata first, got {other:?}"),
    }
}

#[test]
fn a_client_is_sent_the_metadata_known_when_it_connected() {
    let port = StdListener::bind("127.0.0.1:0").unwrap().local_addr().unwrap().port();
    let addr: SocketAddr = ([127, 0, 0, 1], port).into();
    // (an environment without a usable loopback decides nothing)
    let Ok(recorder) = TcpBuilder::new().listen_address(addr).build() else { return };
    let settle = |r: &TcpRecorder| { let t0 = Instant::now(); while !r.state.tx.is_empty() && t0.elapsed() < Duration::from_secs(5) { std::thread::sleep(Duration::from_millis(5)); } std::thread::sleep(Duration::from_millis(50)); };
    recorder.describe_counter("jobs".into(), Some(metrics::Unit::Count), "first text".into());
    settle(&recorder);
    let Ok(mut a) = StdStream::connect(addr) else { return };
    a.set_read_timeout(Some(Duration::from_secs(5))).unwrap();
    assert_eq!(description_of(&read_frame(&mut a)), ("jobs".to_string(), Some("count".to_string()), Some("first text".to_string())));
    // the same metric is described again (no new metric appears): a later client must be sent the new state
    recorder.describe_counter("jobs".into(), Some(metrics::Unit::Seconds), "second text".into());
    settle(&recorder);
    let Ok(mut b) = StdStream::connect(addr) else { return };
    b.set_read_timeout(Some(Duration::from_secs(5))).unwrap();
    assert_eq!(description_of(&read_frame(&mut b)), ("jobs".to_string(), Some("seconds".to_string()), Some("second text".to_string())));
    // a further metric appears and the first one changes once more
    recorder.describe_gauge("depth".into(), None, "a gauge".into());
    recorder.describe_counter("jobs".into(), None, "third text".into());
    settle(&recorder);
    let Ok(mut c) = StdStream::connect(addr) else { return };
    c.set_read_timeout(Some(Duration::from_secs(5))).unwrap();
    let mut got = vec![description_of(&read_frame(&mut c)), description_of(&read_frame(&mut c))];
    got.sort();
    assert_eq!(got, vec![("depth".to_string(), None, Some("a gauge".to_string())),
                         ("jobs".to_string(), None, Some("third text".to_string()))]);
}
