// Hand-derived from the failed clause `drive_connection/ensures` at the WouldBlock / Interrupted exits: the frame (or the parked
// remainder of a partially written frame) that was taken out of the queue for the failed write is dropped, so a slow client
// receives a stream with missing or TORN frames.
use super::*;
use std::io::Read;
use std::time::{Duration, Instant};

fn frame(i: u32) -> Vec<u8> {
    let mut f = Vec::with_capacity(16 * 1024);
    f.extend_from_slice(&i.to_be_bytes());
    f.resize(16 * 1024, (i % 251) as u8);
    f
}

#[test]
fn a_slow_client_still_receives_every_queued_frame_whole_and_in_order() {
    let listener = std::net::TcpListener::bind("127.0.0.1:0").unwrap();
    let addr = listener.local_addr().unwrap();
    let mut conn = TcpStream::connect(addr).unwrap();
    let (mut peer, _) = listener.accept().unwrap();
    std::thread::sleep(Duration::from_millis(200)); // let the non-blocking connect finish
    let mut wbuf: Option<Bytes> = None;
    let mut msgs: VecDeque<Bytes> = VecDeque::new();
    let mut expected: Vec<u8> = Vec::new();
    let mut n = 0u32;
    // phase 1: the client does not read; keep queueing frames and driving the connection (the socket buffer fills: WouldBlock)
    for _ in 0..150 {
        for _ in 0..4 {
            let f = frame(n);
            expected.extend_from_slice(&f);
            msgs.push_back(Bytes::from(f));
            n += 1;
        }
        assert!(!drive_connection(&mut conn, &mut wbuf, &mut msgs), "client must not be reported closed");
    }
    // phase 2: the client catches up; everything queued for it must arrive, whole and in order
    peer.set_nonblocking(true).unwrap();
    let mut got: Vec<u8> = Vec::new();
    let mut chunk = vec![0u8; 1 << 16];
    let deadline = Instant::now() + Duration::from_secs(20);
    while Instant::now() < deadline && got.len() < expected.len() {
        match peer.read(&mut chunk) {
            Ok(0) => break,
            Ok(k) => got.extend_from_slice(&chunk[..k]),
            Err(_) => std::thread::sleep(Duration::from_millis(2)),
        }
        assert!(!drive_connection(&mut conn, &mut wbuf, &mut msgs));
    }
    assert_eq!(got.len(), expected.len(), "bytes delivered vs bytes queued");
    assert!(got == expected, "the delivered stream is not the concatenation of the queued frames");
}
