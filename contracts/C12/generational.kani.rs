// C12 — Generational<T> (metrics-util/src/registry/recency.rs): every update goes through with_increment, which bumps the
// generation AFTER applying the update and forwards the result; so "updated since the last observation" <=> generation differs,
// also for an update that leaves the value unchanged.
use super::*;
use std::sync::atomic::AtomicU64;

pub fn c12_with_increment_body(g0: usize, v: u64) {
    let inner = AtomicU64::new(7);
    let gen = Generational { inner, gen: Arc::new(AtomicUsize::new(g0)) };
    assert!(gen.get_generation() == Generation(g0));
    // the closure observes the generation it runs under: the bump must not have happened yet
    let seen = gen.with_increment(|a| { a.store(v, Ordering::SeqCst); gen.get_generation() });
    assert!(seen == Generation(g0));
    assert!(gen.get_inner().load(Ordering::SeqCst) == v);
    assert!(gen.get_generation() == Generation(g0.wrapping_add(1)));
    assert!(gen.get_generation() != Generation(g0));
}
#[cfg(kani)]
#[kani::proof]
fn c12_with_increment() {
    c12_with_increment_body(kani::any(), kani::any());
}

// every handle operation of Generational<AtomicU64> is one update: generation + 1 each, also when the value does not change
pub fn c12_generational_ops_body(op: u8, v: u64, fbits: u64) {
    let gen = Generational::new(AtomicU64::new(0));
    let g0 = gen.get_generation();
    let f = f64::from_bits(fbits);
    match op % 6 {
        0 => CounterFn::increment(&gen, v),
        1 => CounterFn::absolute(&gen, v),
        2 => GaugeFn::increment(&gen, f),
        3 => GaugeFn::decrement(&gen, f),
        4 => GaugeFn::set(&gen, f),
        _ => CounterFn::increment(&gen, 0), // an update that leaves the value unchanged still counts
    }
    assert!(gen.get_generation() == Generation(g0.0 + 1));
    if op % 6 == 0 { assert!(gen.get_inner().load(Ordering::SeqCst) == v); }
    if op % 6 == 4 { assert!(gen.get_inner().load(Ordering::SeqCst) == fbits); }
}
#[cfg(kani)]
#[kani::proof]
#[kani::unwind(2)]
fn c12_generational_ops() {
    c12_generational_ops_body(kani::any(), kani::any(), kani::any());
}

// ---- histogram updates through the generation wrapper: EVERY HistogramFn entry point (record and record_many, whether the
// trait's default or an override) delivers its samples to the wrapped storage AND moves the generation, so that Recency sees
// the series as updated ("a metric updated since the previous observation is always kept")
pub struct C12CountingHist { pub n: AtomicU64, pub last: AtomicU64 }
impl HistogramFn for C12CountingHist {
    fn record(&self, value: f64) {
        self.n.fetch_add(1, Ordering::SeqCst);
        self.last.store(value.to_bits(), Ordering::SeqCst);
    }
}
pub fn c12_generational_hist_body(many: bool, count: u8, fbits: u64) {
    let gen = Generational::new(C12CountingHist { n: AtomicU64::new(0), last: AtomicU64::new(0) });
    let g0 = gen.get_generation();
    let f = f64::from_bits(fbits);
    let k = (count % 4) as usize;
    if many { HistogramFn::record_many(&gen, f, k); } else { HistogramFn::record(&gen, f); }
    let delivered = gen.get_inner().n.load(Ordering::SeqCst);
    if many {
        assert!(delivered == k as u64);
        if k >= 1 { assert!(gen.get_generation() != g0); assert!(gen.get_inner().last.load(Ordering::SeqCst) == fbits); }
    } else {
        assert!(delivered == 1);
        assert!(gen.get_generation() == Generation(g0.0 + 1));
        assert!(gen.get_inner().last.load(Ordering::SeqCst) == fbits);
    }
}
#[cfg(kani)]
#[kani::proof]
#[kani::unwind(5)]
fn c12_generational_hist() {
    c12_generational_hist_body(kani::any(), kani::any(), kani::any());
}
