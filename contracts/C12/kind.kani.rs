// C12 — MetricKindMask (metrics-util/src/kind.rs): complete over all 3 kinds x 256 masks.
use super::*;

fn kind_of(i: u8) -> MetricKind {
    match i % 3 { 0 => MetricKind::Counter, 1 => MetricKind::Gauge, _ => MetricKind::Histogram }
}

// ensures: matches(kind) <=> the kind's bit is set; kinds outside the mask never match
pub fn c12_mask_matches_body(bits: u8, k: u8) {
    let mask = MetricKindMask(bits);
    let kind = kind_of(k);
    let bit = match kind { MetricKind::Counter => 1u8, MetricKind::Gauge => 2u8, MetricKind::Histogram => 4u8 };
    assert!(mask.matches(kind) == (bits & bit != 0));
    assert!(!MetricKindMask::NONE.matches(kind));
    assert!(MetricKindMask::ALL.matches(kind));
    assert!(MetricKindMask::COUNTER.matches(kind) == (k % 3 == 0));
    assert!(MetricKindMask::GAUGE.matches(kind) == (k % 3 == 1));
    assert!(MetricKindMask::HISTOGRAM.matches(kind) == (k % 3 == 2));
    kani::cover!(mask.matches(kind));
    kani::cover!(!mask.matches(kind));
}
#[cfg(kani)]
#[kani::proof]
fn c12_mask_matches() {
    c12_mask_matches_body(kani::any(), kani::any());
}

// ensures: (a | b) matches kind <=> a matches or b matches
pub fn c12_mask_bitor_body(a: u8, b: u8, k: u8) {
    let kind = kind_of(k);
    let (ma, mb) = (MetricKindMask(a), MetricKindMask(b));
    let or = ma | mb;
    assert!(or.matches(kind) == (ma.matches(kind) || mb.matches(kind)));
}
#[cfg(kani)]
#[kani::proof]
fn c12_mask_bitor() {
    c12_mask_bitor_body(kani::any(), kani::any(), kani::any());
}
