PLAN = {
    "property": "C12",
    "level": "proof",
    "manifest": {
        "technique": "Verus (z3) on Recency::should_store extracted verbatim: one step of the per-(kind,key) idle state machine + frame over the whole view, for an arbitrary map state; Kani complete harness for the kind mask",
        "text": "For an ARBITRARY state of the recency map (the lock hands out any state: the rely of a lock-protected map), any clock value, generation, mask and timeout, should_store is proved to perform exactly one step of the property's per-series state machine for (kind, key) -- keep/forget decision, boundary now - t == timeout keeps, deletion only after the registry confirmed it -- and to leave the state of every other (kind', key') untouched. By induction over observations this is the property for all histories, keys, kinds, masks and timeouts.",
        "note": "Assumed: std Mutex is a lock; vstd HashMap specs + an assumed get_mut spec; quanta Instant subtraction saturates; K's Hash/Eq/Clone are consistent (C03 for metrics::Key); registry deletion is an opaque call; generation bump after every update is checked in the Kani part.",
    },
    "min_obligations": {"quick": 21, "thorough": 21},
    "assumptions": [
        "std::sync::Mutex is a lock; the protected value at acquisition is arbitrary (assume_specification without ensures)",
        "vstd specifications of HashMap::{insert, remove}; ASSUMED specification of HashMap::get_mut (hit: mutable access to exactly that key's value, miss: no change)",
        "obeys_key_model::<K>() / <(MetricKind, K)>(): Hash and Eq of the key type agree (for metrics::Key this is property C03); K::clone returns an equal key",
        "quanta::Instant as abstract u64 ticks, Instant - Instant saturating, Duration comparison total",
        "MetricKindMask::matches is specified by an uninterpreted covers(kind) here and checked over all masks by Kani",
        "Registry::delete_* are opaque calls; 'dropped metric re-registered starts from zero' is C06's get_or_create contract",
        "usize is 64 bit",
    ],
    "verus": [
        {"template": "recency.verus.rs", "tier": "quick", "rlimit": 50, "min_functions": 12},
        # Prometheus side of the property (an expired histogram's aggregated distribution is removed under the SAME series identity
        # that draining uses): shared template with C07
        {"template": "../C07/recorder.verus.rs", "tier": "quick", "rlimit": 60, "min_functions": 5},
    ],
    "kani": [{
        "crate": "metrics-util", "parallel": 4,
        "modules": [
            {"file": "metrics-util/src/kind.rs", "mod": "__verif_c12_kind", "src": "kind.kani.rs"},
            {"file": "metrics-util/src/registry/recency.rs", "mod": "__verif_c12_gen", "src": "generational.kani.rs"},
        ],
        "functions": [
            {"item": "MetricKindMask::matches, BitOr for MetricKindMask", "file": "metrics-util/src/kind.rs"},
            {"item": "Generational::{new,get_generation,get_inner,with_increment}, CounterFn/GaugeFn for Generational<T>", "file": "metrics-util/src/registry/recency.rs"},
        ],
        "harnesses": [
            {"name": "c12_mask_matches", "obligation": "C12/kani/c12_mask_matches", "clause": "matches(kind) <=> kind's bit set, all 3 x 256", "kind": "complete", "tier": "quick", "timeout": 600, "replay": True, "covers": 2},
            {"name": "c12_mask_bitor", "obligation": "C12/kani/c12_mask_bitor", "clause": "(a|b).matches(k) <=> a.matches(k) || b.matches(k)", "kind": "complete", "tier": "quick", "timeout": 600, "replay": True},
            {"name": "c12_with_increment", "obligation": "C12/kani/c12_with_increment", "clause": "generation' == generation + 1 AFTER f ran; result forwarded", "kind": "complete", "tier": "quick", "timeout": 600, "replay": True, "module": "__verif_c12_gen"},
            {"name": "c12_generational_hist", "obligation": "C12/kani/c12_generational_hist", "clause": "every HistogramFn entry point through Generational (record; record_many, default or overridden) delivers its samples to the wrapped storage and moves the generation", "kind": "bounded", "bound": "record_many count <= 3 (record: complete)", "tier": "quick", "timeout": 600, "replay": True, "module": "__verif_c12_gen"},
            {"name": "c12_generational_ops", "obligation": "C12/kani/c12_generational_ops", "clause": "each counter/gauge op through Generational bumps the generation exactly once", "kind": "complete", "tier": "quick", "timeout": 600, "replay": True, "module": "__verif_c12_gen"},
        ],
    }],
    "witnesses": [
        {"match": r"should_store", "src": "witness_two_kinds.rs", "crate": "metrics-util", "file": "metrics-util/src/registry/recency.rs"},
        {"match": r"should_store", "src": "witness_reregistered.rs", "crate": "metrics-util", "file": "metrics-util/src/registry/recency.rs"},
        {"match": r"(fn get_recent_metrics|recorder\.verus)", "name": "impl Inner :: fn get_recent_metrics", "src": "witness_expired_label_sets.rs",
         "crate": "metrics-exporter-prometheus", "file": "metrics-exporter-prometheus/src/exporter/builder.rs"},
    ],
}
