// C12 — Verus contracts for metrics-util/src/registry/recency.rs (Recency::should_store and its three public wrappers).
// //@ITEM blocks are replaced on every run by the item's text taken verbatim from /repo's working tree.
#![feature(allocator_api)]
#![allow(unused_imports, dead_code, unused_variables, unused_mut)]
use vstd::prelude::*;
use vstd::std_specs::hash::*;
use std::collections::HashMap;
use std::ops::DerefMut;
use std::sync::{Mutex, MutexGuard, PoisonError, LockResult};

verus! {

global size_of usize == 8;

//@INCLUDE prelude/std_extra.rs

//@INCLUDE prelude/mutex_types.rs
// the value protected by the lock at the moment it is acquired is ARBITRARY (other threads may have changed it since
// the last release): no ensures about its content.  This is the rely of a lock-protected structure.
pub assume_specification<'a, T: ?Sized>[ Mutex::<T>::lock ](m: &'a Mutex<T>) -> (r: LockResult<MutexGuard<'a, T>>);

pub assume_specification<T, E, F: FnOnce(E) -> T>[ Result::<T, E>::unwrap_or_else ](r: Result<T, E>, f: F) -> (t: T)
    requires r is Err ==> f.requires((r->Err_0,)),
    ensures r is Ok ==> t == r->Ok_0, r is Err ==> f.ensures((r->Err_0,), t);

pub assume_specification<T>[ PoisonError::<T>::into_inner ](e: PoisonError<T>) -> (t: T);

//@INCLUDE prelude/hashmap_get_mut.rs
broadcast use {getmut_axioms::axiom_same_key_refl, vstd::std_specs::hash::group_hash_axioms};

// ------------------------------------------------------------------ dependency stubs (ASSUMED specs)
/// quanta::Instant: a point on a monotonic clock, in abstract ticks
#[derive(Clone, Copy)]
pub struct Instant { pub t: u64 }
/// std::time::Duration, in the same abstract ticks
#[derive(Clone, Copy)]
pub struct Duration { pub n: u64 }

// quanta: `Instant - Instant` saturates at zero
impl vstd::std_specs::ops::SubSpecImpl<Instant> for Instant {
    open spec fn obeys_sub_spec() -> bool { true }
    open spec fn sub_req(self, rhs: Instant) -> bool { true }
    open spec fn sub_spec(self, rhs: Instant) -> Duration { Duration { n: if self.t >= rhs.t { (self.t - rhs.t) as u64 } else { 0 } } }
}
impl std::ops::Sub for Instant {
    type Output = Duration;
    fn sub(self, rhs: Instant) -> Duration { Duration { n: if self.t >= rhs.t { self.t - rhs.t } else { 0 } } }
}
impl vstd::std_specs::cmp::PartialEqSpecImpl for Duration {
    open spec fn obeys_eq_spec() -> bool { true }
    open spec fn eq_spec(&self, o: &Duration) -> bool { self.n == o.n }
}
impl PartialEq for Duration { fn eq(&self, o: &Duration) -> bool { self.n == o.n } }
impl vstd::std_specs::cmp::PartialOrdSpecImpl for Duration {
    open spec fn obeys_partial_cmp_spec() -> bool { true }
    open spec fn partial_cmp_spec(&self, o: &Duration) -> Option<core::cmp::Ordering> {
        if self.n < o.n { Some(core::cmp::Ordering::Less) } else if self.n == o.n { Some(core::cmp::Ordering::Equal) } else { Some(core::cmp::Ordering::Greater) }
    }
}
impl PartialOrd for Duration {
    fn partial_cmp(&self, o: &Duration) -> Option<core::cmp::Ordering> {
        if self.n < o.n { Some(core::cmp::Ordering::Less) } else if self.n == o.n { Some(core::cmp::Ordering::Equal) } else { Some(core::cmp::Ordering::Greater) }
    }
}

#[verifier::external_body]
pub struct Clock { _p: [u8; 0] }
impl Clock {
    #[verifier::external_body]
    pub fn now(&self) -> Instant { unimplemented!() }
}

#[derive(Clone, Copy, PartialEq, Eq, Hash)]
pub enum MetricKind { Counter, Gauge, Histogram }

#[verifier::external_body]
pub struct MetricKindMask { _p: [u8; 0] }
impl MetricKindMask {
    pub uninterp spec fn covers(&self, kind: MetricKind) -> bool;
    // the real `matches` is checked over all 3 x 256 (kind, mask) pairs by the Kani harness c12_mask_matches
    #[verifier::external_body]
    pub fn matches(&self, kind: MetricKind) -> (r: bool) ensures r == self.covers(kind) { unimplemented!() }
}

pub trait Storage<K> {}
pub trait Hashable: std::hash::Hash {}

#[verifier::external_body]
#[verifier::reject_recursive_types(K)]
#[verifier::reject_recursive_types(S)]
pub struct Registry<K, S> { _k: std::marker::PhantomData<(K, S)> }
impl<K, S> Registry<K, S> {
    // ghost: the three deletions are distinct operations on three distinct maps of the registry
    pub uninterp spec fn deleted_counter(&self, key: &K, existed: bool) -> bool;
    pub uninterp spec fn deleted_gauge(&self, key: &K, existed: bool) -> bool;
    pub uninterp spec fn deleted_histogram(&self, key: &K, existed: bool) -> bool;
    #[verifier::external_body]
    pub fn delete_counter(&self, key: &K) -> (r: bool) ensures self.deleted_counter(key, r) { unimplemented!() }
    #[verifier::external_body]
    pub fn delete_gauge(&self, key: &K) -> (r: bool) ensures self.deleted_gauge(key, r) { unimplemented!() }
    #[verifier::external_body]
    pub fn delete_histogram(&self, key: &K) -> (r: bool) ensures self.deleted_histogram(key, r) { unimplemented!() }
    /// which registry deletion belongs to which metric kind
    pub open spec fn deleted(&self, kind: MetricKind, key: &K, existed: bool) -> bool {
        match kind {
            MetricKind::Counter => self.deleted_counter(key, existed),
            MetricKind::Gauge => self.deleted_gauge(key, existed),
            MetricKind::Histogram => self.deleted_histogram(key, existed),
        }
    }
}

#[derive(Clone, Copy)]
//@ITEM file=metrics-util/src/registry/recency.rs sel=struct Generation
//@END
impl vstd::std_specs::cmp::PartialEqSpecImpl for Generation {
    open spec fn obeys_eq_spec() -> bool { true }
    closed spec fn eq_spec(&self, o: &Generation) -> bool { self.0 == o.0 }
}
impl PartialEq for Generation { fn eq(&self, o: &Generation) -> bool { self.0 == o.0 } }

#[verifier::reject_recursive_types(K)]
//@ITEM file=metrics-util/src/registry/recency.rs sel=struct Recency
//@END

// ------------------------------------------------------------------ the property's per-series state machine
pub enum Seen { Unknown, At(Generation, Instant) }

/// one observation of series (kind, key) with generation `gen` at time `now` under `timeout`:
/// (keep?, new state, registry deletion attempted?)
spec fn observe(s: Seen, gen: Generation, now: Instant, timeout: Duration, registry_had_it: bool) -> (bool, Seen, bool) {
    match s {
        Seen::Unknown => (true, Seen::At(gen, now), false),
        Seen::At(g, t) =>
            if g.0 != gen.0 { (true, Seen::At(gen, now), false) }                       // updated since the last observation: keep
            else if (if now.t >= t.t { now.t - t.t } else { 0 }) > timeout.n {           // unchanged for longer than the timeout
                if registry_had_it { (false, Seen::Unknown, true) } else { (true, s, true) }
            } else { (true, s, false) },                                                 // idle for no longer than the timeout: keep
    }
}

//@IF file=metrics-util/src/registry/recency.rs sel=struct Recency contains=HashMap<K, (Generation, Instant)>)>
/// abstraction function of the representation found in the source: ONE map keyed by the key alone, shared by all kinds
spec fn tracked<K>(entries: Map<K, (Generation, Instant)>, kind: MetricKind, key: K) -> Seen {
    if entries.contains_key(key) { Seen::At(entries[key].0, entries[key].1) } else { Seen::Unknown }
}
//@ELSE
/// abstraction function of the representation found in the source: one map keyed by (kind, key)
spec fn tracked<K>(entries: Map<(MetricKind, K), (Generation, Instant)>, kind: MetricKind, key: K) -> Seen {
    if entries.contains_key((kind, key)) { Seen::At(entries[(kind, key)].0, entries[(kind, key)].1) } else { Seen::Unknown }
}
//@ENDIF

//@IF file=metrics-util/src/registry/recency.rs sel=struct Recency contains=HashMap<K, (Generation, Instant)>)>
spec fn step<K>(m0: Map<K, (Generation, Instant)>, m1: Map<K, (Generation, Instant)>,
//@ELSE
spec fn step<K>(m0: Map<(MetricKind, K), (Generation, Instant)>, m1: Map<(MetricKind, K), (Generation, Instant)>,
//@ENDIF
                kind: MetricKind, key: K, gen: Generation, now: Instant, timeout: Duration, keep: bool) -> bool {
    let s = tracked(m0, kind, key);
    // exactly one step of the property's state machine for (kind, key) ...
    &&& (observe(s, gen, now, timeout, true) == (keep, tracked(m1, kind, key), !keep)
         || (keep && observe(s, gen, now, timeout, false) == (true, tracked(m1, kind, key), true)))
    // ... and the state of EVERY other series is untouched (frame, over the whole view)
    &&& forall|kind2: MetricKind, key2: K| (kind2 != kind || key2 != key) ==> #[trigger] tracked(m1, kind2, key2) == tracked(m0, kind2, key2)
}


impl<K> Recency<K> where K: Clone + Eq + Hashable {

//@ITEM file=metrics-util/src/registry/recency.rs sel=impl<K> Recency<K> where.* :: fn should_store_counter ret=keep
//@REWRITE SPEC-closure re:\|registry, key\| \{ ==> |registry: &Registry<K, S>, key: &K| -> (r: bool) ensures registry.deleted(MetricKind::Counter, key, r), {
//@SPEC
    requires
        obeys_key_model::<K>(),
//@IF file=metrics-util/src/registry/recency.rs sel=struct Recency contains=HashMap<K, (Generation, Instant)>)>
//@ELSE
        obeys_key_model::<(MetricKind, K)>(),
//@ENDIF
        forall|a: K, b: K| #[trigger] call_ensures(K::clone, (&a,), b) ==> a == b,
    ensures
        // the counter wrapper drops a series only through the registry's counter deletion, and only if that confirmed the entry
        !keep ==> registry.deleted_counter(key, true),
        (self.idle_timeout is None || !self.mask.covers(MetricKind::Counter)) ==> keep,
//@END

//@ITEM file=metrics-util/src/registry/recency.rs sel=impl<K> Recency<K> where.* :: fn should_store_gauge ret=keep
//@REWRITE SPEC-closure re:\|registry, key\| \{ ==> |registry: &Registry<K, S>, key: &K| -> (r: bool) ensures registry.deleted(MetricKind::Gauge, key, r), {
//@SPEC
    requires
        obeys_key_model::<K>(),
//@IF file=metrics-util/src/registry/recency.rs sel=struct Recency contains=HashMap<K, (Generation, Instant)>)>
//@ELSE
        obeys_key_model::<(MetricKind, K)>(),
//@ENDIF
        forall|a: K, b: K| #[trigger] call_ensures(K::clone, (&a,), b) ==> a == b,
    ensures
        // the gauge wrapper drops a series only through the registry's gauge deletion, and only if that confirmed the entry
        !keep ==> registry.deleted_gauge(key, true),
        (self.idle_timeout is None || !self.mask.covers(MetricKind::Gauge)) ==> keep,
//@END

//@ITEM file=metrics-util/src/registry/recency.rs sel=impl<K> Recency<K> where.* :: fn should_store_histogram ret=keep
//@REWRITE SPEC-closure re:\|registry, key\| \{ ==> |registry: &Registry<K, S>, key: &K| -> (r: bool) ensures registry.deleted(MetricKind::Histogram, key, r), {
//@SPEC
    requires
        obeys_key_model::<K>(),
//@IF file=metrics-util/src/registry/recency.rs sel=struct Recency contains=HashMap<K, (Generation, Instant)>)>
//@ELSE
        obeys_key_model::<(MetricKind, K)>(),
//@ENDIF
        forall|a: K, b: K| #[trigger] call_ensures(K::clone, (&a,), b) ==> a == b,
    ensures
        // the histogram wrapper drops a series only through the registry's histogram deletion, and only if that confirmed the entry
        !keep ==> registry.deleted_histogram(key, true),
        (self.idle_timeout is None || !self.mask.covers(MetricKind::Histogram)) ==> keep,
//@END

//@ITEM file=metrics-util/src/registry/recency.rs sel=impl<K> Recency<K> where.* :: fn should_store ret=keep
//@SPEC
    requires
        obeys_key_model::<K>(),                                 // K's Hash/Eq are consistent (for metrics::Key this is property C03)
//@IF file=metrics-util/src/registry/recency.rs sel=struct Recency contains=HashMap<K, (Generation, Instant)>)>
//@ELSE
        obeys_key_model::<(MetricKind, K)>(),                   // ... and so are those of the (kind, key) pair (derived Hash/Eq of a tuple)
//@ENDIF
        forall|a: K, b: K| #[trigger] call_ensures(K::clone, (&a,), b) ==> a == b,   // K::clone returns an equal key (for metrics::Key: property C03)
        forall|r: &Registry<K, S>, k: &K| delete_op.requires((r, k)),
    ensures
        // a series is reported gone only after the registry deletion went through and confirmed it existed
        !keep ==> delete_op.ensures((registry, key), true),
        // kinds outside the mask, or no timeout configured: always kept
        (self.idle_timeout is None || !self.mask.covers(kind)) ==> keep,
//@AFTER 1 let (clock, entries) = guard.deref_mut();
                let ghost m0 = entries@;
//@BEFORE 1 if deleted {
                proof {
                    if !deleted {
//@IF file=metrics-util/src/registry/recency.rs sel=struct Recency contains=HashMap<K, (Generation, Instant)>)>
//@ELSE
                        let kk = (kind, *key);
                        assert(same_key(kk, &entry_key));
//@ENDIF
                        assert(step(m0, entries@, kind, *key, gen, now, idle_timeout, true));
                    }
                }
//@BEFORE 1 return false;
                    proof {
//@IF file=metrics-util/src/registry/recency.rs sel=struct Recency contains=HashMap<K, (Generation, Instant)>)>
//@ELSE
                        let kk = (kind, *key);
                        assert(same_key(kk, &entry_key));
//@ENDIF
                        assert(step(m0, entries@, kind, *key, gen, now, idle_timeout, false));
                    }
//@END
}

} // verus!
fn main() {}
