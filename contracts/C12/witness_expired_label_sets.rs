// Hand-derived from the contract of `Inner::get_recent_metrics` on expired histograms ("a metric of a covered kind disappears
// from the output (and from the registry) at the first observation that finds it idle for longer than the timeout"): several
// label sets of ONE histogram name expire at the same render -- every one of them must disappear, and come back from zero.
use super::*;
use metrics::{Key, Label, Level, Metadata, Recorder};
use metrics_util::MetricKindMask;
use quanta::Clock;
use std::time::Duration;

#[test]
fn every_expired_label_set_of_a_histogram_disappears() {
    static M: Metadata<'static> = Metadata::new("w", Level::INFO, None);
    let (clock, mock) = Clock::mock();
    let recorder = PrometheusBuilder::new()
        .idle_timeout(MetricKindMask::ALL, Some(Duration::from_secs(10)))
        .set_quantiles(&[0.5]).unwrap()
        .build_with_clock(clock);
    let handle = recorder.handle();
    let keys: Vec<Key> = ["a", "b", "c"].iter().map(|v| Key::from_parts("lat", vec![Label::new("shard", *v)])).collect();
    for (i, k) in keys.iter().enumerate() { recorder.register_histogram(k, &M).record(i as f64 + 1.0); }
    let r1 = handle.render();
    for v in ["a", "b", "c"] { assert!(r1.contains(&format!("lat_count{{shard=\"{v}\"}} 1")), "{r1}"); }
    mock.increment(Duration::from_secs(11));
    let r2 = handle.render();
    assert!(!r2.contains("lat"), "all three label sets were idle for 11 s > 10 s and must be gone:\n{r2}");
    let r3 = handle.render();
    assert!(!r3.contains("lat"), "and stay gone:\n{r3}");
    // registered again: fresh series from zero
    recorder.register_histogram(&keys[1], &M).record(7.0);
    let r4 = handle.render();
    assert!(r4.contains("lat_count{shard=\"b\"} 1") && r4.contains("lat_sum{shard=\"b\"} 7"), "{r4}");
    assert!(!r4.contains("shard=\"a\"") && !r4.contains("shard=\"c\""), "{r4}");
}
