// Hand-derived from the step contract of `Recency::should_store` ("a dropped metric that is registered again starts as a fresh
// series; a metric updated since the previous observation is always kept"): one concrete history on the real crate -- a series
// goes idle, is dropped, is registered again, receives as many updates as the old one had, and is observed right away.
use super::*;
use crate::registry::{GenerationalAtomicStorage, Registry};
use crate::MetricKindMask;
use metrics::Key;
use quanta::Clock;
use std::time::Duration;

#[test]
fn a_dropped_and_re_registered_series_is_fresh() {
    let (clock, mock) = Clock::mock();
    let registry: Registry<Key, GenerationalAtomicStorage> = Registry::new(GenerationalAtomicStorage::atomic());
    let recency = Recency::new(clock, MetricKindMask::ALL, Some(Duration::from_secs(10)));
    let key = Key::from_name("k");
    for updates in [0usize, 1, 3] {
        // life 1: `updates` updates, first observation (kept), then idle for longer than the timeout => dropped
        let gen1 = registry.get_or_create_counter(&key, |c| { for _ in 0..updates { metrics::CounterFn::increment(c, 1); } c.get_generation() });
        assert!(recency.should_store_counter(&key, gen1, &registry), "first observation keeps it");
        mock.increment(Duration::from_secs(11));
        assert!(!recency.should_store_counter(&key, gen1, &registry), "idle for 11 s > 10 s: dropped");
        assert!(registry.get_counter(&key).is_none(), "and gone from the registry");
        // life 2, much later: registered again, the SAME number of updates, observed at once
        mock.increment(Duration::from_secs(60));
        let gen2 = registry.get_or_create_counter(&key, |c| { for _ in 0..updates { metrics::CounterFn::increment(c, 1); } c.get_generation() });
        assert!(recency.should_store_counter(&key, gen2, &registry), "a re-registered series is fresh: kept ({updates} updates)");
        assert!(registry.get_counter(&key).is_some(), "and still registered");
        mock.increment(Duration::from_secs(5));
        assert!(recency.should_store_counter(&key, gen2, &registry), "5 s idle <= 10 s: kept");
        // clean up for the next round: let it expire
        mock.increment(Duration::from_secs(11));
        assert!(!recency.should_store_counter(&key, gen2, &registry));
    }
}
