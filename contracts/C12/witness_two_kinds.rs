// Hand-derived from the failed frame clause of `should_store/assert:step(..)`: the recency map is keyed by the key alone, so
// the same key registered as a counter and as a gauge shares one (generation, time) entry.  Deleting the idle counter
// erases the gauge's timestamp, so the equally idle gauge is kept although it was idle for longer than the timeout.
use super::*;
use crate::registry::{GenerationalAtomicStorage, Registry};
use crate::MetricKindMask;
use metrics::Key;
use quanta::Clock;
use std::time::Duration;

#[test]
fn same_key_under_two_kinds_is_tracked_per_kind() {
    let (clock, mock) = Clock::mock();
    let registry: Registry<Key, GenerationalAtomicStorage> = Registry::new(GenerationalAtomicStorage::atomic());
    let recency = Recency::new(clock, MetricKindMask::ALL, Some(Duration::from_secs(10)));
    let key = Key::from_name("k");
    let cgen = registry.get_or_create_counter(&key, |c| c.get_generation());
    let ggen = registry.get_or_create_gauge(&key, |g| g.get_generation());
    // first observation of both series: kept, remembered
    assert!(recency.should_store_counter(&key, cgen, &registry));
    assert!(recency.should_store_gauge(&key, ggen, &registry));
    mock.increment(Duration::from_secs(11));
    // neither was updated, both were idle for 11 s > 10 s: both must be dropped at this observation
    assert!(!recency.should_store_counter(&key, cgen, &registry), "idle counter must be dropped");
    assert!(!recency.should_store_gauge(&key, ggen, &registry), "idle gauge must be dropped as well");
    assert!(registry.get_gauge(&key).is_none(), "and removed from the registry");
}
