// C13 -- Fanout (metrics-util/src/layers/fanout.rs), bounded: width w <= 3.
//   every describe/register operation reaches each of the w recorders exactly once with equal arguments;
//   every update through a fanned-out handle reaches each of the w inner handles exactly once with the same value.
use super::*;
// ---- recording double (same text in every C13 harness module) -------------------------------------------
// One recorder type `Rec2 { id }` for every position (inner / default / target / fan-out member): all
// `dyn Recorder` objects in a harness then share one vtable, so CBMC resolves dynamic calls even when the
// data pointer is symbolic.  Every call that enters recorder `id` is logged per id: operation, name bytes
// (first NAME_CAP) + length, unit, description pointer/length, key labels (pointer/length of each part),
// metadata pointer.  Handles handed out by recorder `id` log their updates per id.
use metrics::{Label, Level};
pub const NR: usize = 4;
pub const NAME_CAP: usize = 8;
pub struct Log {
    pub calls: [u32; NR],
    pub op: [u8; NR],
    pub name: [[u8; NAME_CAP]; NR],
    pub name_len: [usize; NR],
    pub name_ptr: [usize; NR],
    pub unit: [u32; NR],
    pub desc_ptr: [usize; NR],
    pub desc_len: [usize; NR],
    pub key_ptr: [usize; NR],
    pub nlabels: [usize; NR],
    pub labels: [[usize; 8]; NR],
    pub meta_ptr: [usize; NR],
    pub upd_calls: [u32; NR],
    pub upd_op: [u8; NR],
    pub upd_val: [u64; NR],
    pub total: u32,
}
pub static mut LOG: Log = Log {
    calls: [0; NR], op: [0; NR], name: [[0; NAME_CAP]; NR], name_len: [0; NR], name_ptr: [0; NR], unit: [0; NR],
    desc_ptr: [0; NR], desc_len: [0; NR], key_ptr: [0; NR], nlabels: [0; NR], labels: [[0; 8]; NR], meta_ptr: [0; NR],
    upd_calls: [0; NR], upd_op: [0; NR], upd_val: [0; NR], total: 0,
};
pub fn unit_code(u: Option<Unit>) -> u32 {
    match u {
        None => 0,
        Some(u) => 1 + u as u32,
    }
}
pub struct Sink2 {
    id: usize,
}
impl Sink2 {
    fn hit(&self, op: u8, v: u64) {
        unsafe {
            LOG.upd_calls[self.id] += 1;
            LOG.upd_op[self.id] = op;
            LOG.upd_val[self.id] = v;
        }
    }
}
impl metrics::CounterFn for Sink2 {
    fn increment(&self, v: u64) { self.hit(1, v) }
    fn absolute(&self, v: u64) { self.hit(2, v) }
}
impl metrics::GaugeFn for Sink2 {
    fn increment(&self, v: f64) { self.hit(3, v.to_bits()) }
    fn decrement(&self, v: f64) { self.hit(4, v.to_bits()) }
    fn set(&self, v: f64) { self.hit(5, v.to_bits()) }
}
impl metrics::HistogramFn for Sink2 {
    fn record(&self, v: f64) { self.hit(6, v.to_bits()) }
}
pub struct Rec2 {
    pub id: usize,
}
impl Rec2 {
    fn name(&self, op: u8, name: &str) {
        unsafe {
            LOG.total += 1;
            LOG.calls[self.id] += 1;
            LOG.op[self.id] = op;
            LOG.name_len[self.id] = name.len();
            LOG.name_ptr[self.id] = name.as_ptr() as usize;
            let b = name.as_bytes();
            let mut i = 0;
            while i < NAME_CAP {
                LOG.name[self.id][i] = if i < b.len() { b[i] } else { 0 };
                i += 1;
            }
        }
    }
    fn describe(&self, op: u8, key: KeyName, unit: Option<Unit>, description: SharedString) {
        self.name(op, key.as_str());
        unsafe {
            LOG.unit[self.id] = unit_code(unit);
            LOG.desc_ptr[self.id] = description.as_ptr() as usize;
            LOG.desc_len[self.id] = description.len();
        }
    }
    fn register(&self, op: u8, key: &Key, metadata: &Metadata<'_>) {
        self.name(op, key.name());
        unsafe {
            LOG.key_ptr[self.id] = key as *const Key as usize;
            LOG.meta_ptr[self.id] = metadata as *const Metadata<'_> as usize;
            let mut n = 0;
            for l in key.labels() {
                if n < 2 {
                    LOG.labels[self.id][4 * n] = l.key().as_ptr() as usize;
                    LOG.labels[self.id][4 * n + 1] = l.key().len();
                    LOG.labels[self.id][4 * n + 2] = l.value().as_ptr() as usize;
                    LOG.labels[self.id][4 * n + 3] = l.value().len();
                }
                n += 1;
            }
            LOG.nlabels[self.id] = n;
        }
    }
}
impl Recorder for Rec2 {
    fn describe_counter(&self, key: KeyName, unit: Option<Unit>, description: SharedString) { self.describe(1, key, unit, description) }
    fn describe_gauge(&self, key: KeyName, unit: Option<Unit>, description: SharedString) { self.describe(2, key, unit, description) }
    fn describe_histogram(&self, key: KeyName, unit: Option<Unit>, description: SharedString) { self.describe(3, key, unit, description) }
    fn register_counter(&self, key: &Key, metadata: &Metadata<'_>) -> Counter {
        self.register(4, key, metadata);
        Counter::from_arc(std::sync::Arc::new(Sink2 { id: self.id }))
    }
    fn register_gauge(&self, key: &Key, metadata: &Metadata<'_>) -> Gauge {
        self.register(5, key, metadata);
        Gauge::from_arc(std::sync::Arc::new(Sink2 { id: self.id }))
    }
    fn register_histogram(&self, key: &Key, metadata: &Metadata<'_>) -> Histogram {
        self.register(6, key, metadata);
        Histogram::from_arc(std::sync::Arc::new(Sink2 { id: self.id }))
    }
}
pub static LABELS: [Label; 2] = [Label::from_static_parts("host", "a"), Label::from_static_parts("", "v2")];
pub static NO_LABELS_: [Label; 0] = [];
pub static NAME_A: &str = "rq.t";
pub static NAME_B: &str = "";
pub static DESC_A: &str = "requests";
pub static DESC_B: &str = "";
pub static KEY_A: Key = Key::from_static_parts("rq.t", &LABELS);
pub static KEY_B: Key = Key::from_static_name("");
pub static META: Metadata<'static> = Metadata::new("target", Level::INFO, Some("module"));
pub fn unit_of(sel: u8) -> Option<Unit> {
    match sel % 4 {
        0 => None,
        1 => Some(Unit::Count),
        2 => Some(Unit::Bytes),
        _ => Some(Unit::Seconds),
    }
}
pub fn name_of(which: bool) -> &'static str { if which { NAME_A } else { NAME_B } }
pub fn desc_of(which: bool) -> &'static str { if which { DESC_A } else { DESC_B } }
pub fn key_of(which: bool) -> &'static Key { if which { &KEY_A } else { &KEY_B } }
/// One operation `op` in 1..=6 through `r`; register ops use the returned handle once with `v`.
pub fn emit<R: Recorder + ?Sized>(r: &R, op: u8, which: bool, usel: u8, v: u64) {
    match op {
        1 => r.describe_counter(KeyName::from_const_str(name_of(which)), unit_of(usel), SharedString::const_str(desc_of(which))),
        2 => r.describe_gauge(KeyName::from_const_str(name_of(which)), unit_of(usel), SharedString::const_str(desc_of(which))),
        3 => r.describe_histogram(KeyName::from_const_str(name_of(which)), unit_of(usel), SharedString::const_str(desc_of(which))),
        4 => r.register_counter(key_of(which), &META).increment(v),
        5 => r.register_gauge(key_of(which), &META).set(f64::from_bits(v)),
        _ => r.register_histogram(key_of(which), &META).record(f64::from_bits(v)),
    }
}
/// Recorder `id` received, as its last call, `op` with exactly the arguments `emit` passed (name/key/labels
/// identical, unit equal, description and metadata pointer-identical) and, for register ops, its handle got `v`.
pub fn assert_same_args(id: usize, op: u8, which: bool, usel: u8, v: u64) {
    unsafe {
        assert!(LOG.op[id] == op);
        assert!(LOG.name_ptr[id] == name_of(which).as_ptr() as usize && LOG.name_len[id] == name_of(which).len());
        if op <= 3 {
            assert!(LOG.unit[id] == unit_code(unit_of(usel)));
            assert!(LOG.desc_ptr[id] == desc_of(which).as_ptr() as usize && LOG.desc_len[id] == desc_of(which).len());
            assert!(LOG.upd_calls[id] == 0);
        } else {
            assert!(LOG.key_ptr[id] == key_of(which) as *const Key as usize);
            assert!(LOG.meta_ptr[id] == &META as *const Metadata<'static> as usize);
            assert!(LOG.upd_calls[id] == 1 && LOG.upd_val[id] == v);
            assert!(LOG.upd_op[id] == if op == 4 { 1 } else if op == 5 { 5 } else { 6 });
        }
    }
}
pub fn op_of(op: u8) -> u8 { 1 + op % 6 }
// CBMC executes string copies / trie walks affordably only when pointers and lengths are concrete: every harness
// case-splits on the symbolic selectors that choose a string or a width, and runs the check with a LITERAL.
pub fn split2(which: bool, f: impl Fn(bool)) {
    if which { f(true) } else { f(false) }
}
pub fn split6(op: u8, f: impl Fn(u8)) {
    match op {
        1 => f(1),
        2 => f(2),
        3 => f(3),
        4 => f(4),
        5 => f(5),
        _ => f(6),
    }
}
pub fn split4(n: usize, f: impl Fn(usize)) {
    match n {
        0 => f(0),
        1 => f(1),
        2 => f(2),
        _ => f(3),
    }
}
// ---- end of double --------------------------------------------------------------------------------------

fn mk_fanout(w: usize) -> Fanout {
    let mut b = FanoutBuilder::default();
    let mut i = 0;
    while i < w {
        b = b.add_recorder(Rec2 { id: i });
        i += 1;
    }
    b.build()
}

pub fn c13_fanout_describe_register_body(w: usize, op: u8, which: bool, usel: u8, v: u64) {
    kani::assume(w <= 3);
    let op = op_of(op);
    split4(w, |w| split2(which, |wh| fanout_case(w, op, wh, usel, v)));
    kani::cover!(w == 3 && op == 1);
    kani::cover!(w == 3 && op == 5 && which);
    kani::cover!(w == 0 && op == 4);
}
fn fanout_case(w: usize, op: u8, which: bool, usel: u8, v: u64) {
    let f = mk_fanout(w);
    emit(&f, op, which, usel, v);
    unsafe {
        assert!(LOG.total as usize == w);
        let mut i = 0;
        while i < NR {
            if i < w {
                assert!(LOG.calls[i] == 1);
                assert_same_args(i, op, which, usel, v);
            } else {
                assert!(LOG.calls[i] == 0 && LOG.upd_calls[i] == 0);
            }
            i += 1;
        }
    }
}
#[cfg(kani)]
#[kani::proof]
#[kani::unwind(10)]
fn c13_fanout_describe_register() {
    c13_fanout_describe_register_body(kani::any(), kani::any(), kani::any(), kani::any(), kani::any());
}

// quick stand-in with w <= 2
pub fn c13_fanout_describe_register_w2_body(w: usize, op: u8, which: bool, usel: u8, v: u64) {
    kani::assume(w <= 2);
    let op = op_of(op);
    split4(w, |w| split2(which, |wh| fanout_case(w, op, wh, usel, v)));
    kani::cover!(w == 2 && op == 1);
    kani::cover!(w == 2 && op == 5 && which);
    kani::cover!(w == 0 && op == 4);
}
#[cfg(kani)]
#[kani::proof]
#[kani::unwind(10)]
fn c13_fanout_describe_register_w2() {
    c13_fanout_describe_register_w2_body(kani::any(), kani::any(), kani::any(), kani::any(), kani::any());
}

// all six update operations through fanned-out handles (u selects the update method), two updates in a row
pub fn c13_fanout_updates_body(w: usize, u: u8, v1: u64, v2: u64) {
    kani::assume(w <= 3);
    let u = u % 6;
    split4(w, |w| fanout_updates_case(w, u, v1, v2));
    kani::cover!(w == 3 && u == 1);
    kani::cover!(w == 2 && u == 5);
    kani::cover!(w == 1 && u == 3);
}
fn fanout_updates_case(w: usize, u: u8, v1: u64, v2: u64) {
    let f = mk_fanout(w);
    let expect_op = 1 + u;
    match u {
        0 => { let h = f.register_counter(&KEY_A, &META); h.increment(v1); h.increment(v2); }
        1 => { let h = f.register_counter(&KEY_A, &META); h.absolute(v1); h.absolute(v2); }
        2 => { let h = f.register_gauge(&KEY_A, &META); h.increment(f64::from_bits(v1)); h.increment(f64::from_bits(v2)); }
        3 => { let h = f.register_gauge(&KEY_A, &META); h.decrement(f64::from_bits(v1)); h.decrement(f64::from_bits(v2)); }
        4 => { let h = f.register_gauge(&KEY_A, &META); h.set(f64::from_bits(v1)); h.set(f64::from_bits(v2)); }
        _ => { let h = f.register_histogram(&KEY_A, &META); h.record(f64::from_bits(v1)); h.record(f64::from_bits(v2)); }
    }
    unsafe {
        let mut i = 0;
        while i < NR {
            if i < w {
                assert!(LOG.calls[i] == 1); // one registration each
                assert!(LOG.upd_calls[i] == 2 && LOG.upd_op[i] == expect_op && LOG.upd_val[i] == v2);
            } else {
                assert!(LOG.calls[i] == 0 && LOG.upd_calls[i] == 0);
            }
            i += 1;
        }
    }
}
#[cfg(kani)]
#[kani::proof]
#[kani::unwind(10)]
fn c13_fanout_updates() {
    c13_fanout_updates_body(kani::any(), kani::any(), kani::any(), kani::any());
}
