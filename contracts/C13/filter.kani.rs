// C13 -- Filter layer forwarding logic (metrics-util/src/layers/filter.rs).
// The matcher is replaced: `Filter::should_filter` is stubbed by a function returning a symbolic verdict and
// recording the string it was asked about.  ASSUMED (aho-corasick's contract, not executed -- building or running
// its automaton under CBMC is not tractable): `automaton.is_match(name)` <=> the name contains one of the
// configured patterns, ASCII-case-insensitively iff `case_insensitive(true)` was configured.
// Obligation here (complete over verdict x 6 operations x arguments): the verdict is asked exactly once, about
// the metric NAME; verdict true => the inner recorder is not called and the handle returned is inert;
// verdict false => the inner recorder is called exactly once with identical arguments and its handle is returned.
use super::*;
// ---- recording double (same text in every C13 harness module) -------------------------------------------
// One recorder type `Rec2 { id }` for every position (inner / default / target / fan-out member): all
// `dyn Recorder` objects in a harness then share one vtable, so CBMC resolves dynamic calls even when the
// data pointer is symbolic.  Every call that enters recorder `id` is logged per id: operation, name bytes
// (first NAME_CAP) + length, unit, description pointer/length, key labels (pointer/length of each part),
// metadata pointer.  Handles handed out by recorder `id` log their updates per id.
use metrics::{Label, Level};
pub const NR: usize = 4;
pub const NAME_CAP: usize = 8;
pub struct Log {
    pub calls: [u32; NR],
    pub op: [u8; NR],
    pub name: [[u8; NAME_CAP]; NR],
    pub name_len: [usize; NR],
    pub name_ptr: [usize; NR],
    pub unit: [u32; NR],
    pub desc_ptr: [usize; NR],
    pub desc_len: [usize; NR],
    pub key_ptr: [usize; NR],
    pub nlabels: [usize; NR],
    pub labels: [[usize; 8]; NR],
    pub meta_ptr: [usize; NR],
    pub upd_calls: [u32; NR],
    pub upd_op: [u8; NR],
    pub upd_val: [u64; NR],
    pub total: u32,
}
pub static mut LOG: Log = Log {
    calls: [0; NR], op: [0; NR], name: [[0; NAME_CAP]; NR], name_len: [0; NR], name_ptr: [0; NR], unit: [0; NR],
    desc_ptr: [0; NR], desc_len: [0; NR], key_ptr: [0; NR], nlabels: [0; NR], labels: [[0; 8]; NR], meta_ptr: [0; NR],
    upd_calls: [0; NR], upd_op: [0; NR], upd_val: [0; NR], total: 0,
};
pub fn unit_code(u: Option<Unit>) -> u32 {
    match u {
        None => 0,
        Some(u) => 1 + u as u32,
    }
}
pub struct Sink2 {
    id: usize,
}
impl Sink2 {
    fn hit(&self, op: u8, v: u64) {
        unsafe {
            LOG.upd_calls[self.id] += 1;
            LOG.upd_op[self.id] = op;
            LOG.upd_val[self.id] = v;
        }
    }
}
impl metrics::CounterFn for Sink2 {
    fn increment(&self, v: u64) { self.hit(1, v) }
    fn absolute(&self, v: u64) { self.hit(2, v) }
}
impl metrics::GaugeFn for Sink2 {
    fn increment(&self, v: f64) { self.hit(3, v.to_bits()) }
    fn decrement(&self, v: f64) { self.hit(4, v.to_bits()) }
    fn set(&self, v: f64) { self.hit(5, v.to_bits()) }
}
impl metrics::HistogramFn for Sink2 {
    fn record(&self, v: f64) { self.hit(6, v.to_bits()) }
}
pub struct Rec2 {
    pub id: usize,
}
impl Rec2 {
    fn name(&self, op: u8, name: &str) {
        unsafe {
            LOG.total += 1;
            LOG.calls[self.id] += 1;
            LOG.op[self.id] = op;
            LOG.name_len[self.id] = name.len();
            LOG.name_ptr[self.id] = name.as_ptr() as usize;
            let b = name.as_bytes();
            let mut i = 0;
            while i < NAME_CAP {
                LOG.name[self.id][i] = if i < b.len() { b[i] } else { 0 };
                i += 1;
            }
        }
    }
    fn describe(&self, op: u8, key: KeyName, unit: Option<Unit>, description: SharedString) {
        self.name(op, key.as_str());
        unsafe {
            LOG.unit[self.id] = unit_code(unit);
            LOG.desc_ptr[self.id] = description.as_ptr() as usize;
            LOG.desc_len[self.id] = description.len();
        }
    }
    fn register(&self, op: u8, key: &Key, metadata: &Metadata<'_>) {
        self.name(op, key.name());
        unsafe {
            LOG.key_ptr[self.id] = key as *const Key as usize;
            LOG.meta_ptr[self.id] = metadata as *const Metadata<'_> as usize;
            let mut n = 0;
            for l in key.labels() {
                if n < 2 {
                    LOG.labels[self.id][4 * n] = l.key().as_ptr() as usize;
                    LOG.labels[self.id][4 * n + 1] = l.key().len();
                    LOG.labels[self.id][4 * n + 2] = l.value().as_ptr() as usize;
                    LOG.labels[self.id][4 * n + 3] = l.value().len();
                }
                n += 1;
            }
            LOG.nlabels[self.id] = n;
        }
    }
}
impl Recorder for Rec2 {
    fn describe_counter(&self, key: KeyName, unit: Option<Unit>, description: SharedString) { self.describe(1, key, unit, description) }
    fn describe_gauge(&self, key: KeyName, unit: Option<Unit>, description: SharedString) { self.describe(2, key, unit, description) }
    fn describe_histogram(&self, key: KeyName, unit: Option<Unit>, description: SharedString) { self.describe(3, key, unit, description) }
    fn register_counter(&self, key: &Key, metadata: &Metadata<'_>) -> Counter {
        self.register(4, key, metadata);
        Counter::from_arc(std::sync::Arc::new(Sink2 { id: self.id }))
    }
    fn register_gauge(&self, key: &Key, metadata: &Metadata<'_>) -> Gauge {
        self.register(5, key, metadata);
        Gauge::from_arc(std::sync::Arc::new(Sink2 { id: self.id }))
    }
    fn register_histogram(&self, key: &Key, metadata: &Metadata<'_>) -> Histogram {
        self.register(6, key, metadata);
        Histogram::from_arc(std::sync::Arc::new(Sink2 { id: self.id }))
    }
}
pub static LABELS: [Label; 2] = [Label::from_static_parts("host", "a"), Label::from_static_parts("", "v2")];
pub static NO_LABELS_: [Label; 0] = [];
pub static NAME_A: &str = "rq.t";
pub static NAME_B: &str = "";
pub static DESC_A: &str = "requests";
pub static DESC_B: &str = "";
pub static KEY_A: Key = Key::from_static_parts("rq.t", &LABELS);
pub static KEY_B: Key = Key::from_static_name("");
pub static META: Metadata<'static> = Metadata::new("target", Level::INFO, Some("module"));
pub fn unit_of(sel: u8) -> Option<Unit> {
    match sel % 4 {
        0 => None,
        1 => Some(Unit::Count),
        2 => Some(Unit::Bytes),
        _ => Some(Unit::Seconds),
    }
}
pub fn name_of(which: bool) -> &'static str { if which { NAME_A } else { NAME_B } }
pub fn desc_of(which: bool) -> &'static str { if which { DESC_A } else { DESC_B } }
pub fn key_of(which: bool) -> &'static Key { if which { &KEY_A } else { &KEY_B } }
/// One operation `op` in 1..=6 through `r`; register ops use the returned handle once with `v`.
pub fn emit<R: Recorder + ?Sized>(r: &R, op: u8, which: bool, usel: u8, v: u64) {
    match op {
        1 => r.describe_counter(KeyName::from_const_str(name_of(which)), unit_of(usel), SharedString::const_str(desc_of(which))),
        2 => r.describe_gauge(KeyName::from_const_str(name_of(which)), unit_of(usel), SharedString::const_str(desc_of(which))),
        3 => r.describe_histogram(KeyName::from_const_str(name_of(which)), unit_of(usel), SharedString::const_str(desc_of(which))),
        4 => r.register_counter(key_of(which), &META).increment(v),
        5 => r.register_gauge(key_of(which), &META).set(f64::from_bits(v)),
        _ => r.register_histogram(key_of(which), &META).record(f64::from_bits(v)),
    }
}
/// Recorder `id` received, as its last call, `op` with exactly the arguments `emit` passed (name/key/labels
/// identical, unit equal, description and metadata pointer-identical) and, for register ops, its handle got `v`.
pub fn assert_same_args(id: usize, op: u8, which: bool, usel: u8, v: u64) {
    unsafe {
        assert!(LOG.op[id] == op);
        assert!(LOG.name_ptr[id] == name_of(which).as_ptr() as usize && LOG.name_len[id] == name_of(which).len());
        if op <= 3 {
            assert!(LOG.unit[id] == unit_code(unit_of(usel)));
            assert!(LOG.desc_ptr[id] == desc_of(which).as_ptr() as usize && LOG.desc_len[id] == desc_of(which).len());
            assert!(LOG.upd_calls[id] == 0);
        } else {
            assert!(LOG.key_ptr[id] == key_of(which) as *const Key as usize);
            assert!(LOG.meta_ptr[id] == &META as *const Metadata<'static> as usize);
            assert!(LOG.upd_calls[id] == 1 && LOG.upd_val[id] == v);
            assert!(LOG.upd_op[id] == if op == 4 { 1 } else if op == 5 { 5 } else { 6 });
        }
    }
}
pub fn op_of(op: u8) -> u8 { 1 + op % 6 }
// CBMC executes string copies / trie walks affordably only when pointers and lengths are concrete: every harness
// case-splits on the symbolic selectors that choose a string or a width, and runs the check with a LITERAL.
pub fn split2(which: bool, f: impl Fn(bool)) {
    if which { f(true) } else { f(false) }
}
pub fn split6(op: u8, f: impl Fn(u8)) {
    match op {
        1 => f(1),
        2 => f(2),
        3 => f(3),
        4 => f(4),
        5 => f(5),
        _ => f(6),
    }
}
pub fn split4(n: usize, f: impl Fn(usize)) {
    match n {
        0 => f(0),
        1 => f(1),
        2 => f(2),
        _ => f(3),
    }
}
// ---- end of double --------------------------------------------------------------------------------------

#[cfg(kani)]
mod stubbed {
    use super::*;
    static mut VERDICT: bool = false;
    static mut SF_CALLS: u32 = 0;
    static mut SF_PTR: usize = 0;
    static mut SF_LEN: usize = 0;

    fn should_filter_stub<R>(_this: &Filter<R>, key: &str) -> bool {
        unsafe {
            SF_CALLS += 1;
            SF_PTR = key.as_ptr() as usize;
            SF_LEN = key.len();
            VERDICT
        }
    }

    #[kani::proof]
    #[kani::unwind(10)]
    #[kani::stub(super::super::Filter::should_filter, should_filter_stub)]
    fn c13_filter_forward() {
        let verdict: bool = kani::any();
        let op = op_of(kani::any());
        let which: bool = kani::any();
        let usel: u8 = kani::any();
        let v: u64 = kani::any();
        unsafe { VERDICT = verdict };
        // A Filter whose automaton is never built and never read (should_filter is the only reader and is
        // stubbed); the value is never dropped.
        let mut slot = core::mem::MaybeUninit::<Filter<Rec2>>::uninit();
        unsafe { core::ptr::addr_of_mut!((*slot.as_mut_ptr()).inner).write(Rec2 { id: 0 }) };
        let f: &Filter<Rec2> = unsafe { &*slot.as_ptr() };
        emit(f, op, which, usel, v);
        unsafe {
            assert!(SF_CALLS == 1);
            assert!(SF_PTR == name_of(which).as_ptr() as usize && SF_LEN == name_of(which).len());
            if verdict {
                assert!(LOG.total == 0 && LOG.calls[0] == 0);
                assert!(LOG.upd_calls[0] == 0); // the handle given back is inert
            } else {
                assert!(LOG.total == 1 && LOG.calls[0] == 1);
                assert_same_args(0, op, which, usel, v);
            }
        }
        kani::cover!(verdict && op == 4);
        kani::cover!(!verdict && op == 3 && !which);
        kani::cover!(verdict && op == 2 && which);
    }
}
