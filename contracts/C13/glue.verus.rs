// C13 — Verus contracts for two pieces of layer glue the Kani harnesses take as given: how FilterLayer::layer configures the
// automaton, and which recorder Router::route picks from the trie's answer (metrics-util/src/layers/{filter,router}.rs).
#![allow(unused_imports, dead_code, unused_variables, unused_mut)]
use vstd::prelude::*;
use vstd::string::*;

verus! {

global size_of usize == 8;

//@INCLUDE prelude/std_extra.rs

// ------------------------------------------------------------------ aho-corasick stubs (ASSUMED: the builder records its settings)
#[derive(Clone, Copy, PartialEq, Eq)]
pub enum AhoCorasickKind { NoncontiguousNFA, ContiguousNFA, DFA }
pub struct AhoCorasickBuilder { pub ci: bool, pub kind: Option<AhoCorasickKind> }
#[verifier::external_body] pub struct AhoCorasick { _p: [u8; 0] }
#[verifier::external_body] #[derive(Debug)] pub struct BuildError { _p: [u8; 0] }
impl AhoCorasick {
    pub uninterp spec fn patterns(&self) -> Seq<String>;
    /// matches ASCII-case-insensitively?
    pub uninterp spec fn ci(&self) -> bool;
    pub uninterp spec fn kind(&self) -> Option<AhoCorasickKind>;
}
impl AhoCorasickBuilder {
    /// aho-corasick defaults: case-sensitive, automaton kind chosen by the library
    pub fn new() -> (r: Self) ensures r.ci == false, r.kind is None { AhoCorasickBuilder { ci: false, kind: None } }
    // builder methods hand the (updated) builder back for chaining: `r` is a reborrow of `self`
    #[verifier::external_body]
    pub fn ascii_case_insensitive(&mut self, yes: bool) -> (r: &mut Self)
        ensures r.ci == yes, r.kind == old(self).kind, *final(r) == *final(self),
    { unimplemented!() }
    #[verifier::external_body]
    pub fn kind(&mut self, kind: Option<AhoCorasickKind>) -> (r: &mut Self)
        ensures r.kind == kind, r.ci == old(self).ci, *final(r) == *final(self),
    { unimplemented!() }
    /// ASSUMED: build succeeds (the source `expect`s it: internal limits not exceeded) and yields an automaton with these settings
    #[verifier::external_body]
    pub fn build(&self, patterns: &Vec<String>) -> (r: Result<AhoCorasick, BuildError>)
        ensures r is Ok, r->Ok_0.patterns() == patterns@, r->Ok_0.ci() == self.ci, r->Ok_0.kind() == self.kind,
    { unimplemented!() }
}

//@ITEM file=metrics-util/src/layers/filter.rs sel=struct FilterLayer
//@END
#[verifier::reject_recursive_types(R)]
//@ITEM file=metrics-util/src/layers/filter.rs sel=struct Filter
//@END

impl FilterLayer {
// `impl<R> Layer<R> for FilterLayer :: layer` verified as an inherent generic method (R9-like; `Self::Output` is `Filter<R>`)
//@ITEM file=metrics-util/src/layers/filter.rs sel=impl<R> Layer<R> for FilterLayer :: fn layer ret=r
//@REWRITE R9 fn layer( ==> fn layer<R>(
//@REWRITE R9 Self::Output ==> Filter<R>
//@SPEC
    ensures
        r.inner == inner,
        // the filter the layer builds matches exactly the configured patterns, case-insensitively iff so configured -- whatever the
        // automaton kind -- and as a DFA iff asked for
        r.automaton.patterns() == self.patterns@,
        r.automaton.ci() == self.case_insensitive,
        r.automaton.kind() == (if self.use_dfa { Some(AhoCorasickKind::DFA) } else { None::<AhoCorasickKind> }),
//@END
}

// ------------------------------------------------------------------ Router::route
/// R34: `dyn Recorder (+ Sync)` -> the opaque object type `RecorderObj` (Verus does not take trait objects; `route` only moves references
/// to them around, their identity is what the contract talks about)
#[verifier::external_body] pub struct RecorderObj { _p: [u8; 0] }
#[derive(Clone, Copy, PartialEq, Eq)]
pub enum MetricKind { Counter, Gauge, Histogram }
#[verifier::external_body] #[derive(Clone, Copy)] pub struct MetricKindMask { _p: [u8; 0] }
impl MetricKindMask {
    /// does the mask name this kind (full-domain Kani contract: c13_mask)
    pub uninterp spec fn names(&self, kind: MetricKind) -> bool;
    #[verifier::external_body] pub fn matches(&self, kind: MetricKind) -> (r: bool) ensures r == self.names(kind) { unimplemented!() }
}
/// radix_trie::Trie<String, usize> / SubTrie (ASSUMED contracts, read from radix_trie's documentation):
///  * `get_ancestor(key)`: the entry with the LONGEST stored key that is a prefix of `key`, if any -- its `value()` is `Some`;
///  * `get_raw_ancestor(key)`: the deepest trie NODE on `key`'s path, which may carry no value even when a shorter stored key is a
///    prefix of `key` (so it is NOT interchangeable with get_ancestor).
#[verifier::external_body] #[verifier::reject_recursive_types(K)] #[verifier::reject_recursive_types(V)]
pub struct Trie<K, V> { _p: core::marker::PhantomData<(K, V)> }
#[verifier::external_body] #[verifier::reject_recursive_types(K)] #[verifier::reject_recursive_types(V)]
pub struct SubTrie<'a, K, V> { _p: core::marker::PhantomData<&'a (K, V)> }
impl Trie<String, usize> {
    /// the value stored under the longest stored key that is a prefix of `key`
    pub uninterp spec fn longest_prefix(&self, key: Seq<char>) -> Option<usize>;
    #[verifier::external_body]
    pub fn get_ancestor(&self, key: &str) -> (r: Option<SubTrie<'_, String, usize>>)
        ensures r is Some <==> self.longest_prefix(key@) is Some, r is Some ==> r->Some_0.spec_value() == self.longest_prefix(key@),
    { unimplemented!() }
    #[verifier::external_body]
    pub fn get_raw_ancestor(&self, key: &str) -> (r: SubTrie<'_, String, usize>)
        ensures r.spec_value() is Some ==> r.spec_value() == self.longest_prefix(key@),
    { unimplemented!() }
}
impl<'a> SubTrie<'a, String, usize> {
    pub uninterp spec fn spec_value(&self) -> Option<usize>;
    #[verifier::external_body]
    pub fn value(&self) -> (r: Option<&usize>)
        ensures r is Some <==> self.spec_value() is Some, r is Some ==> *r->Some_0 == self.spec_value()->Some_0,
    { unimplemented!() }
}
// R15: `B.as_ref()` on a `Box<T>` -> shim_box_ref(&B)  (Box::as_ref is generic over the allocator; the reference to the boxed value)
pub fn shim_box_ref<T>(b: &Box<T>) -> (r: &T) ensures *r == **b { &**b }
// R12: `V.get_unchecked(I)` -> `shim_get_unchecked(&V, I)`; the SAFETY comment of the caller becomes a proof obligation
#[verifier::external_body]
pub unsafe fn shim_get_unchecked<T>(v: &Vec<T>, i: usize) -> (r: &T)
    requires i < v@.len(),
    ensures *r == v@[i as int],
{ unimplemented!() }

//@ITEM file=metrics-util/src/layers/router.rs sel=struct Router
//@REWRITE R34 re:dyn Recorder \+ Sync ==> RecorderObj
//@END

impl Router {
    /// every index stored in a route trie points into `targets` (established by RouterBuilder::add_route: Kani c13_add_route)
    spec fn wf_routes(&self, routes: &Trie<String, usize>) -> bool {
        forall|k: Seq<char>| #[trigger] routes.longest_prefix(k) is Some ==> routes.longest_prefix(k)->Some_0 < self.targets@.len()
    }
//@ITEM file=metrics-util/src/layers/router.rs sel=impl Router :: fn route ret=r
//@REWRITE R34 re:&dyn Recorder ==> &RecorderObj
//@REWRITE R12+R15 re:self\.(\w+)\.get_unchecked\((.+?)\)\.as_ref\(\) ==> shim_box_ref(shim_get_unchecked(&self.\1, \2))
//@REWRITE R15 re:self\.default\.as_ref\(\) ==> shim_box_ref(&self.default)
// SPEC-closure: the two closures of the map / unwrap_or_else chain, annotated with what they select
//@IF file=metrics-util/src/layers/router.rs sel=impl Router :: fn route contains=.map(|st| unsafe {
//@REWRITE SPEC-closure re:\.map\(\|st\| unsafe \{ ==> .map(|st: SubTrie<'_, String, usize>| -> (t: &RecorderObj) requires st.spec_value() is Some && st.spec_value()->Some_0 < self.targets@.len() ensures *t == *self.targets@[st.spec_value()->Some_0 as int] { unsafe {
//@REWRITE SPEC-closure re:\) \}\)\s*\.unwrap_or_else\(\|\| shim_box_ref\(&self\.default\)\) ==> ) } }).unwrap_or_else(|| -> (t: &RecorderObj) ensures *t == *self.default { shim_box_ref(&self.default) })
//@ENDIF
//@SPEC
    requires self.wf_routes(search_routes),
    ensures
        // the default recorder unless the global mask names the kind AND some stored route is a prefix of the name; then the target
        // registered under the LONGEST such route
        *r == (if !self.global_mask.names(kind) { *self.default }
               else { match search_routes.longest_prefix(key@) { Some(i) => *self.targets@[i as int], None => *self.default } }),
//@END
}

// ------------------------------------------------------------------ Prefix: the two name builders (any strings)
// ASSUMED std contract: an empty string (capacity is not observable)
pub assume_specification[ String::with_capacity ](n: usize) -> (s: String)
    ensures s@ == Seq::<char>::empty();
#[verifier::external_body] pub struct SharedString { _p: [u8; 0] }
impl SharedString {
    pub uninterp spec fn view(&self) -> Seq<char>;
    /// ASSUMED (Rust allocation limit): a str is at most isize::MAX bytes long; `len` is the UTF-8 byte length
    pub uninterp spec fn blen(&self) -> usize;
    #[verifier::external_body] pub fn len(&self) -> (n: usize) ensures n == self.blen(), n <= isize::MAX as usize { unimplemented!() }
    #[verifier::external_body] pub fn as_ref(&self) -> (r: &str) ensures r@ == self@ { unimplemented!() }
}
#[verifier::external_body] pub struct LabelsIter<'a> { _p: core::marker::PhantomData<&'a u8> }
#[verifier::external_body] pub struct Label { _p: [u8; 0] }
#[verifier::external_body] pub struct Key { _p: [u8; 0] }
#[verifier::external_body] pub struct KeyName { _p: [u8; 0] }
pub uninterp spec fn str_blen(s: &str) -> usize;
#[verifier::external_body]
pub fn shim_str_len(s: &str) -> (n: usize) ensures n == str_blen(s), n <= isize::MAX as usize { unimplemented!() }
impl<'a> LabelsIter<'a> { pub uninterp spec fn items(&self) -> Seq<Label>; }
impl Key {
    pub uninterp spec fn spec_name(&self) -> Seq<char>;
    pub uninterp spec fn spec_labels(&self) -> Seq<Label>;
    #[verifier::external_body] pub fn name(&self) -> (r: &str) ensures r@ == self.spec_name() { unimplemented!() }
    #[verifier::external_body] pub fn labels(&self) -> (r: LabelsIter<'_>) ensures r.items() == self.spec_labels() { unimplemented!() }
    #[verifier::external_body]
    pub fn from_parts(name: String, labels: LabelsIter<'_>) -> (r: Key) ensures r.spec_name() == name@, r.spec_labels() == labels.items() { unimplemented!() }
}
impl KeyName {
    pub uninterp spec fn view(&self) -> Seq<char>;
    #[verifier::external_body] pub fn as_str(&self) -> (r: &str) ensures r@ == self@ { unimplemented!() }
}
impl From<String> for KeyName {
    #[verifier::external_body] fn from(s: String) -> (r: KeyName) ensures r@ == s@ { unimplemented!() }
}
#[verifier::reject_recursive_types(R)]
//@ITEM file=metrics-util/src/layers/prefix.rs sel=struct Prefix
//@END
impl<R> Prefix<R> {
    /// `<prefix>.<name>`
    pub open spec fn prefixed(prefix: Seq<char>, name: Seq<char>) -> Seq<char> { prefix + seq!['.'] + name }
//@ITEM file=metrics-util/src/layers/prefix.rs sel=impl<R> Prefix<R> :: fn prefix_key ret=r
// R35: `S.len()` on a `&str` expression -> shim_str_len(S) (byte length; only used for the capacity hint, bounded by isize::MAX)
//@REWRITE R35 key.name().len() ==> shim_str_len(key.name())
//@SPEC
    ensures r.spec_name() == Self::prefixed(self.prefix@, key.spec_name()), r.spec_labels() == key.spec_labels(),
//@END
//@ITEM file=metrics-util/src/layers/prefix.rs sel=impl<R> Prefix<R> :: fn prefix_key_name ret=r
//@REWRITE R35 key_name.as_str().len() ==> shim_str_len(key_name.as_str())
//@SPEC
    ensures r@ == Self::prefixed(self.prefix@, key_name@),
//@END
}

} // verus!
fn main() {}
