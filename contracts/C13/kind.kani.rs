// C13 -- MetricKindMask::matches / BitOr (metrics-util/src/kind.rs), complete: 3 kinds x all 256 mask bytes.
use super::*;

fn kind_of(k: u8) -> (MetricKind, u8) {
    match k % 3 {
        0 => (MetricKind::Counter, 1),
        1 => (MetricKind::Gauge, 2),
        _ => (MetricKind::Histogram, 4),
    }
}

// matches(kind) <=> the kind's own bit is set; the named masks are the singletons / empty / full sets.
pub fn c13_mask_matches_body(m: u8, k: u8) {
    let (kind, bit) = kind_of(k);
    let mask = MetricKindMask(m);
    assert!(mask.matches(kind) == (m & bit != 0));
    assert!(!MetricKindMask::NONE.matches(kind));
    assert!(MetricKindMask::ALL.matches(kind));
    assert!(MetricKindMask::COUNTER.matches(kind) == (kind == MetricKind::Counter));
    assert!(MetricKindMask::GAUGE.matches(kind) == (kind == MetricKind::Gauge));
    assert!(MetricKindMask::HISTOGRAM.matches(kind) == (kind == MetricKind::Histogram));
    kani::cover!(m == 5 && k % 3 == 1);
    kani::cover!(m == 0xff);
}
#[cfg(kani)]
#[kani::proof]
fn c13_mask_matches() {
    c13_mask_matches_body(kani::any(), kani::any());
}

// (a | b).matches(kind) <=> a.matches(kind) || b.matches(kind); ALL == COUNTER | GAUGE | HISTOGRAM; NONE is neutral.
pub fn c13_mask_bitor_body(a: u8, b: u8, k: u8) {
    let (kind, _) = kind_of(k);
    let (ma, mb) = (MetricKindMask(a), MetricKindMask(b));
    let u = ma | mb;
    assert!(u.matches(kind) == (ma.matches(kind) || mb.matches(kind)));
    assert!(u == mb | ma);
    assert!(ma | MetricKindMask::NONE == ma);
    assert!(MetricKindMask::COUNTER | MetricKindMask::GAUGE | MetricKindMask::HISTOGRAM == MetricKindMask::ALL);
    kani::cover!(a == 1 && b == 4);
}
#[cfg(kani)]
#[kani::proof]
fn c13_mask_bitor() {
    c13_mask_bitor_body(kani::any(), kani::any(), kani::any());
}
