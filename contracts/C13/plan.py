def H(name, clause, module, kind="complete", tier="quick", timeout=600, replay=True, covers=0, **kw):
    d = dict(name=name, obligation=f"C13/kani/{name}", clause=clause, kind=kind, tier=tier, timeout=timeout, replay=replay, covers=covers, module=module)
    d.update(kw)
    return d

L = "metrics-util/src/layers/"

PLAN = {
    "property": "C13",
    "level": "proof",
    "manifest": {
        "technique": "Kani/CBMC on the real layer code with one recording recorder double: complete forwarding/routing glue with the aho-corasick matcher and the radix_trie stubbed (their contracts ASSUMED), full-domain MetricKindMask, concrete-string smoke check of the prefix helpers, bounded fanout width (w <= 3), Stack::push by unfolding",
        "text": "Per layer, on the real code: Filter -- with should_filter replaced by a symbolic verdict the verdict is asked once about the metric name; true => inner not called and an inert handle returned, false => inner called exactly once with identical arguments (all 6 operations). Router -- route(kind, name) is the default when the global mask does not name the kind (trie not consulted), otherwise targets[i] for the index the kind's trie returns for the name, or the default on None; each of the 6 methods consults the trie of its own kind once and forwards exactly once to that recorder; add_route stores the pre-push length into exactly the tries its mask names, ORs the mask, and the stored index is in bounds for the unchecked access; MetricKindMask::matches/BitOr over 3 kinds x all 256 masks. Prefix -- forwarded exactly once with name == prefix ++ '.' ++ name, labels/metadata/unit/description untouched, for 3 concrete prefixes (ASCII, empty, non-ASCII) x 2 concrete names: a smoke check, strings are not symbolic. Fanout -- every describe/register reaches each of w <= 3 recorders once with equal arguments and every update through a fanned-out handle reaches each inner handle once (bounded). Stack::new is transparent and Stack::new(r).push(a).push(b) behaves as b.layer(a.layer(r)).",
        "note": "Verus (glue.verus.rs): FilterLayer::layer builds the automaton from exactly the configured patterns, case-insensitive iff configured whatever the kind, DFA iff asked (builder stub records its settings); Router::route returns the default unless the mask names the kind and the trie's get_ancestor (longest stored prefix, ASSUMED contract) answers, then that target, with the unchecked index proved in bounds from the route-table invariant. ASSUMED, not executed: aho-corasick is_match <=> the name contains a configured pattern (ASCII-case-insensitively iff configured); radix_trie insert/get_ancestor = store / longest stored key that is a prefix of the name (measured: real trie lookups time out under CBMC). 'Longest prefix' and 'contains pattern' themselves therefore rest on those crates. Prefix: prefix_key / prefix_key_name are proved in glue.verus.rs for ALL strings (name == prefix ++ '.' ++ name, labels untouched; capacity arithmetic cannot overflow given str lengths <= isize::MAX); the forwarding through Prefix is checked by Kani on concrete strings; fanout width <= 3 is bounded, not proved.",
    },
    "min_obligations": {"quick": 12, "thorough": 12},
    "assumptions": [
        "aho-corasick contract (ASSUMED): AhoCorasick::is_match(name) is true iff name contains at least one of the patterns given to the builder, comparing ASCII letters case-insensitively iff ascii_case_insensitive(true); FilterLayer::layer (builder configuration, DFA/NFA choice) is not executed. Filter::should_filter is stubbed by a symbolic verdict",
        "radix_trie contract (ASSUMED): Trie::insert(k, v) stores v under k (later insert of an equal key overwrites); Trie::get_ancestor(name) returns the entry with the longest stored key that is a prefix of name, or None, and its value() is Some(stored value). Trie::insert is stubbed by a recording model in c13_router_add_route; Trie::get_ancestor cannot be stubbed (named lifetime in its signature, Kani 0.68 finds no type-compatible stub), so the route harnesses execute the REAL trie in its two cheap states -- empty (answer None) and a single entry at the empty key (answer Some(i) for every name, i symbolic) -- which cover both shapes of the only value the glue reads from the trie; that the trie is not even consulted when the mask does not name the kind is therefore not observed",
        "router invariant used for the unchecked access: every index stored in a trie is < targets.len(); established by c13_router_add_route (index == len before push) and preserved because targets only grows and tries are written only by add_route",
        "all recorders in a harness are one double type (Rec2{id}) so that dynamic dispatch resolves; the layers are parametric in / hold boxed `dyn Recorder`, with no recorder-specific branches",
        "prefix: concrete strings only (prefixes ap, empty, e-acute; names rq.t and empty); string content for ALL strings is not proved here",
        "fanout: width w <= 3 (bounded); the loops over recorders/handles are uniform in w",
        "router lookups use the empty metric name / label-less key only (non-empty names make the real trie walk unaffordable); which string is handed to get_ancestor is not observed",
        "argument identity is checked by pointer+length for names/descriptions/label parts/metadata and by value for units; two names (one empty), four unit options, keys with 0 and 2 labels",
        "panic = failure; unwinding not modelled; single-threaded (layers hold no shared mutable state)",
    ],
    # plain tests of the routing / filtering clauses against brute-force references, on the real crate: run when the named
    # obligation fails (replay), was demoted to undecided, or its function left the verified subset; a FAILING witness confirms
    "witnesses": [
        {"match": r"(Router :: fn route|fn route\b|c13_router)", "name": "impl Router :: fn route", "src": "witness_router.rs", "crate": "metrics-util", "file": "metrics-util/src/layers/router.rs"},
        {"match": r"(FilterLayer|fn should_filter|c13_filter)", "name": "impl Layer for FilterLayer :: fn layer", "src": "witness_filter.rs", "crate": "metrics-util", "file": "metrics-util/src/layers/filter.rs"},
    ],
    "verus": [
        # layer glue the Kani harnesses take as given: Router::route's use of the trie answer, FilterLayer::layer's automaton settings
        {"template": "glue.verus.rs", "tier": "quick", "rlimit": 30, "min_functions": 4},
    ],
    "kani": [{
        "crate": "metrics-util",
        "parallel": 4,
        "modules": [
            {"file": "metrics-util/src/kind.rs", "mod": "__verif_c13_kind", "src": "kind.kani.rs"},
            {"file": L + "prefix.rs", "mod": "__verif_c13_prefix", "src": "prefix.kani.rs"},
            {"file": L + "filter.rs", "mod": "__verif_c13_filter", "src": "filter.kani.rs"},
            {"file": L + "router.rs", "mod": "__verif_c13_router", "src": "router.kani.rs"},
            {"file": L + "fanout.rs", "mod": "__verif_c13_fanout", "src": "fanout.kani.rs"},
            {"file": L + "mod.rs", "mod": "__verif_c13_mod", "src": "mod.kani.rs"},
        ],
        "functions": [
            {"item": "MetricKindMask::matches, impl BitOr for MetricKindMask", "file": "metrics-util/src/kind.rs"},
            {"item": "Prefix::prefix_key, Prefix::prefix_key_name, impl Recorder for Prefix<R> (6 methods), PrefixLayer::{new, layer}", "file": L + "prefix.rs"},
            {"item": "impl Recorder for Filter<R> (6 methods)", "file": L + "filter.rs"},
            {"item": "Router::route, impl Recorder for Router (6 methods), RouterBuilder::{from_recorder, add_route, build}", "file": L + "router.rs"},
            {"item": "impl Recorder for Fanout (6 methods), FanoutCounter/FanoutGauge/FanoutHistogram update methods, FanoutBuilder::{add_recorder, build}", "file": L + "fanout.rs"},
            {"item": "Stack::{new, push}, impl Recorder for Stack<R>", "file": L + "mod.rs"},
        ],
        "harnesses": [
            H("c13_mask_matches", "matches(kind) <=> the kind's bit is set, all 256 masks x 3 kinds; NONE/ALL/COUNTER/GAUGE/HISTOGRAM are the empty/full/singleton sets", "__verif_c13_kind", covers=2),
            H("c13_mask_bitor", "(a|b).matches(k) <=> a.matches(k) || b.matches(k), commutative, NONE neutral, ALL == C|G|H", "__verif_c13_kind", covers=1),
            H("c13_filter_forward", "matcher stubbed by a symbolic verdict: asked once about the name; true => inner not called, inert handle; false => inner called once with identical args", "__verif_c13_filter",
              replay=False, covers=3, sub="stubbed"),
            H("c13_router_route", "route = default if !global_mask.matches(kind) else targets[get_ancestor(name)] or default; the kind's own trie decides; 8 masks x 3 kinds x per-kind answers {None, Some(0..3)} incl. mask/trie-inconsistent states", "__verif_c13_router",
              covers=4),
            H("c13_router_forward", "each of the 6 methods is routed by its own kind's trie and forwarded exactly once, identical args, to the routed recorder and to no other", "__verif_c13_router",
              covers=5, timeout=900),
            H("c13_router_add_route", "add_route stores len-before-push into exactly the tries the mask names (key == pattern), ORs global_mask, stored index < targets.len(); build() preserves", "__verif_c13_router",
              replay=False, covers=2, sub="stubbed"),
            H("c13_stack_new_transparent", "Stack::new(r) forwards each of the 6 operations exactly once with pointer-identical arguments", "__verif_c13_mod", covers=2),
            H("c13_stack_compose", "Stack::new(r).push(a).push(b) == b.layer(a.layer(r)) on describe_counter (4 unit options): same transformed call reaches the bottom recorder once; push order observable (a.b.<name>)", "__verif_c13_mod", covers=2, timeout=900),
            H("c13_prefix_describe", "describe_* x3: forwarded exactly once, name' == 'ap' ++ '.' ++ 'rq.t' byte for byte, unit/description untouched", "__verif_c13_prefix",
              kind="bounded", bound="1 concrete (prefix, name) pair x 3 ops x 4 units (strings not symbolic)", covers=3, timeout=900),
            H("c13_prefix_describe_edge", "edge strings: '' ++ '.' ++ '' == '.', and a 2-byte non-ASCII prefix: name' == prefix ++ '.' ++ name byte for byte", "__verif_c13_prefix",
              kind="bounded", bound="2 concrete (prefix, name) pairs (strings not symbolic)", covers=2, timeout=900),
            H("c13_prefix_register_counter", "register_counter: forwarded exactly once, name' == 'ap.rq.t', 2 labels equal in order, same metadata object, inner handle returned", "__verif_c13_prefix",
              kind="bounded", bound="1 concrete prefix/key (strings not symbolic)", tier="thorough", timeout=1800),
            H("c13_prefix_register_gauge", "register_gauge: forwarded exactly once, name' == 'ap.rq.t', 2 labels equal in order, same metadata object, inner handle returned", "__verif_c13_prefix",
              kind="bounded", bound="1 concrete prefix/key (strings not symbolic)", tier="thorough", timeout=1800),
            H("c13_prefix_register_histogram", "register_histogram: forwarded exactly once, name' == 'ap.rq.t', 2 labels equal in order, same metadata object, inner handle returned", "__verif_c13_prefix",
              kind="bounded", bound="1 concrete prefix/key (strings not symbolic)", tier="thorough", timeout=1800),
            H("c13_fanout_describe_register", "each describe/register reaches each of the w recorders exactly once with equal args, nobody else", "__verif_c13_fanout",
              kind="bounded", bound="w <= 3", covers=3, tier="thorough", timeout=1800),
            H("c13_fanout_describe_register_w2", "each describe/register reaches each of the w recorders exactly once with equal args, nobody else (quick stand-in)", "__verif_c13_fanout",
              kind="bounded", bound="w <= 2", covers=3),
            H("c13_fanout_updates", "each update through a fanned-out handle (6 update methods, 2 updates in a row) reaches each of the w inner handles once per update with the same value", "__verif_c13_fanout",
              kind="bounded", bound="w <= 3", covers=3),
        ],
    }],
}
