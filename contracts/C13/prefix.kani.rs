// C13 -- Prefix layer (metrics-util/src/layers/prefix.rs) on the real code with CONCRETE short strings
// (symbolic strings are unaffordable under CBMC): smoke check of "name' == prefix ++ '.' ++ name, everything
// else untouched, forwarded exactly once" over 3 prefixes ('ap', empty, non-ASCII e-acute) x 2 names ('rq.t', empty)
// x 6 operations x 4 unit options.
use super::*;
// ---- recording double (same text in every C13 harness module) -------------------------------------------
// One recorder type `Rec2 { id }` for every position (inner / default / target / fan-out member): all
// `dyn Recorder` objects in a harness then share one vtable, so CBMC resolves dynamic calls even when the
// data pointer is symbolic.  Every call that enters recorder `id` is logged per id: operation, name bytes
// (first NAME_CAP) + length, unit, description pointer/length, key labels (pointer/length of each part),
// metadata pointer.  Handles handed out by recorder `id` log their updates per id.
use metrics::{Label, Level};
pub const NR: usize = 4;
pub const NAME_CAP: usize = 8;
pub struct Log {
    pub calls: [u32; NR],
    pub op: [u8; NR],
    pub name: [[u8; NAME_CAP]; NR],
    pub name_len: [usize; NR],
    pub name_ptr: [usize; NR],
    pub unit: [u32; NR],
    pub desc_ptr: [usize; NR],
    pub desc_len: [usize; NR],
    pub key_ptr: [usize; NR],
    pub nlabels: [usize; NR],
    pub labels: [[usize; 8]; NR],
    pub meta_ptr: [usize; NR],
    pub upd_calls: [u32; NR],
    pub upd_op: [u8; NR],
    pub upd_val: [u64; NR],
    pub total: u32,
}
pub static mut LOG: Log = Log {
    calls: [0; NR], op: [0; NR], name: [[0; NAME_CAP]; NR], name_len: [0; NR], name_ptr: [0; NR], unit: [0; NR],
    desc_ptr: [0; NR], desc_len: [0; NR], key_ptr: [0; NR], nlabels: [0; NR], labels: [[0; 8]; NR], meta_ptr: [0; NR],
    upd_calls: [0; NR], upd_op: [0; NR], upd_val: [0; NR], total: 0,
};
pub fn unit_code(u: Option<Unit>) -> u32 {
    match u {
        None => 0,
        Some(u) => 1 + u as u32,
    }
}
pub struct Sink2 {
    id: usize,
}
impl Sink2 {
    fn hit(&self, op: u8, v: u64) {
        unsafe {
            LOG.upd_calls[self.id] += 1;
            LOG.upd_op[self.id] = op;
            LOG.upd_val[self.id] = v;
        }
    }
}
impl metrics::CounterFn for Sink2 {
    fn increment(&self, v: u64) { self.hit(1, v) }
    fn absolute(&self, v: u64) { self.hit(2, v) }
}
impl metrics::GaugeFn for Sink2 {
    fn increment(&self, v: f64) { self.hit(3, v.to_bits()) }
    fn decrement(&self, v: f64) { self.hit(4, v.to_bits()) }
    fn set(&self, v: f64) { self.hit(5, v.to_bits()) }
}
impl metrics::HistogramFn for Sink2 {
    fn record(&self, v: f64) { self.hit(6, v.to_bits()) }
}
pub struct Rec2 {
    pub id: usize,
}
impl Rec2 {
    fn name(&self, op: u8, name: &str) {
        unsafe {
            LOG.total += 1;
            LOG.calls[self.id] += 1;
            LOG.op[self.id] = op;
            LOG.name_len[self.id] = name.len();
            LOG.name_ptr[self.id] = name.as_ptr() as usize;
            let b = name.as_bytes();
            let mut i = 0;
            while i < NAME_CAP {
                LOG.name[self.id][i] = if i < b.len() { b[i] } else { 0 };
                i += 1;
            }
        }
    }
    fn describe(&self, op: u8, key: KeyName, unit: Option<Unit>, description: SharedString) {
        self.name(op, key.as_str());
        unsafe {
            LOG.unit[self.id] = unit_code(unit);
            LOG.desc_ptr[self.id] = description.as_ptr() as usize;
            LOG.desc_len[self.id] = description.len();
        }
    }
    fn register(&self, op: u8, key: &Key, metadata: &Metadata<'_>) {
        self.name(op, key.name());
        unsafe {
            LOG.key_ptr[self.id] = key as *const Key as usize;
            LOG.meta_ptr[self.id] = metadata as *const Metadata<'_> as usize;
            let mut n = 0;
            for l in key.labels() {
                if n < 2 {
                    LOG.labels[self.id][4 * n] = l.key().as_ptr() as usize;
                    LOG.labels[self.id][4 * n + 1] = l.key().len();
                    LOG.labels[self.id][4 * n + 2] = l.value().as_ptr() as usize;
                    LOG.labels[self.id][4 * n + 3] = l.value().len();
                }
                n += 1;
            }
            LOG.nlabels[self.id] = n;
        }
    }
}
impl Recorder for Rec2 {
    fn describe_counter(&self, key: KeyName, unit: Option<Unit>, description: SharedString) { self.describe(1, key, unit, description) }
    fn describe_gauge(&self, key: KeyName, unit: Option<Unit>, description: SharedString) { self.describe(2, key, unit, description) }
    fn describe_histogram(&self, key: KeyName, unit: Option<Unit>, description: SharedString) { self.describe(3, key, unit, description) }
    fn register_counter(&self, key: &Key, metadata: &Metadata<'_>) -> Counter {
        self.register(4, key, metadata);
        Counter::from_arc(std::sync::Arc::new(Sink2 { id: self.id }))
    }
    fn register_gauge(&self, key: &Key, metadata: &Metadata<'_>) -> Gauge {
        self.register(5, key, metadata);
        Gauge::from_arc(std::sync::Arc::new(Sink2 { id: self.id }))
    }
    fn register_histogram(&self, key: &Key, metadata: &Metadata<'_>) -> Histogram {
        self.register(6, key, metadata);
        Histogram::from_arc(std::sync::Arc::new(Sink2 { id: self.id }))
    }
}
pub static LABELS: [Label; 2] = [Label::from_static_parts("host", "a"), Label::from_static_parts("", "v2")];
pub static NO_LABELS_: [Label; 0] = [];
pub static NAME_A: &str = "rq.t";
pub static NAME_B: &str = "";
pub static DESC_A: &str = "requests";
pub static DESC_B: &str = "";
pub static KEY_A: Key = Key::from_static_parts("rq.t", &LABELS);
pub static KEY_B: Key = Key::from_static_name("");
pub static META: Metadata<'static> = Metadata::new("target", Level::INFO, Some("module"));
pub fn unit_of(sel: u8) -> Option<Unit> {
    match sel % 4 {
        0 => None,
        1 => Some(Unit::Count),
        2 => Some(Unit::Bytes),
        _ => Some(Unit::Seconds),
    }
}
pub fn name_of(which: bool) -> &'static str { if which { NAME_A } else { NAME_B } }
pub fn desc_of(which: bool) -> &'static str { if which { DESC_A } else { DESC_B } }
pub fn key_of(which: bool) -> &'static Key { if which { &KEY_A } else { &KEY_B } }
/// One operation `op` in 1..=6 through `r`; register ops use the returned handle once with `v`.
pub fn emit<R: Recorder + ?Sized>(r: &R, op: u8, which: bool, usel: u8, v: u64) {
    match op {
        1 => r.describe_counter(KeyName::from_const_str(name_of(which)), unit_of(usel), SharedString::const_str(desc_of(which))),
        2 => r.describe_gauge(KeyName::from_const_str(name_of(which)), unit_of(usel), SharedString::const_str(desc_of(which))),
        3 => r.describe_histogram(KeyName::from_const_str(name_of(which)), unit_of(usel), SharedString::const_str(desc_of(which))),
        4 => r.register_counter(key_of(which), &META).increment(v),
        5 => r.register_gauge(key_of(which), &META).set(f64::from_bits(v)),
        _ => r.register_histogram(key_of(which), &META).record(f64::from_bits(v)),
    }
}
/// Recorder `id` received, as its last call, `op` with exactly the arguments `emit` passed (name/key/labels
/// identical, unit equal, description and metadata pointer-identical) and, for register ops, its handle got `v`.
pub fn assert_same_args(id: usize, op: u8, which: bool, usel: u8, v: u64) {
    unsafe {
        assert!(LOG.op[id] == op);
        assert!(LOG.name_ptr[id] == name_of(which).as_ptr() as usize && LOG.name_len[id] == name_of(which).len());
        if op <= 3 {
            assert!(LOG.unit[id] == unit_code(unit_of(usel)));
            assert!(LOG.desc_ptr[id] == desc_of(which).as_ptr() as usize && LOG.desc_len[id] == desc_of(which).len());
            assert!(LOG.upd_calls[id] == 0);
        } else {
            assert!(LOG.key_ptr[id] == key_of(which) as *const Key as usize);
            assert!(LOG.meta_ptr[id] == &META as *const Metadata<'static> as usize);
            assert!(LOG.upd_calls[id] == 1 && LOG.upd_val[id] == v);
            assert!(LOG.upd_op[id] == if op == 4 { 1 } else if op == 5 { 5 } else { 6 });
        }
    }
}
pub fn op_of(op: u8) -> u8 { 1 + op % 6 }
// CBMC executes string copies / trie walks affordably only when pointers and lengths are concrete: every harness
// case-splits on the symbolic selectors that choose a string or a width, and runs the check with a LITERAL.
pub fn split2(which: bool, f: impl Fn(bool)) {
    if which { f(true) } else { f(false) }
}
pub fn split6(op: u8, f: impl Fn(u8)) {
    match op {
        1 => f(1),
        2 => f(2),
        3 => f(3),
        4 => f(4),
        5 => f(5),
        _ => f(6),
    }
}
pub fn split4(n: usize, f: impl Fn(usize)) {
    match n {
        0 => f(0),
        1 => f(1),
        2 => f(2),
        _ => f(3),
    }
}
// ---- end of double --------------------------------------------------------------------------------------

static PREFIXES: [&str; 3] = ["ap", "", "\u{e9}"];

fn prefix_case(p: usize, op: u8, which: bool, usel: u8, v: u64) {
    let prefix = PREFIXES[p];
    let p = PrefixLayer::new(prefix).layer(Rec2 { id: 0 });
    emit(&p, op, which, usel, v);
    unsafe {
        // exactly once, same operation
        assert!(LOG.total == 1 && LOG.calls[0] == 1 && LOG.op[0] == op);
        // name' == prefix ++ "." ++ name, byte for byte
        let name = name_of(which).as_bytes();
        let pb = prefix.as_bytes();
        assert!(LOG.name_len[0] == pb.len() + 1 + name.len());
        let mut i = 0;
        while i < NAME_CAP {
            if i < pb.len() {
                assert!(LOG.name[0][i] == pb[i]);
            } else if i == pb.len() {
                assert!(LOG.name[0][i] == b'.');
            } else if i < pb.len() + 1 + name.len() {
                assert!(LOG.name[0][i] == name[i - pb.len() - 1]);
            }
            i += 1;
        }
        if op <= 3 {
            // unit and description untouched
            assert!(LOG.unit[0] == unit_code(unit_of(usel)));
            assert!(LOG.desc_ptr[0] == desc_of(which).as_ptr() as usize && LOG.desc_len[0] == desc_of(which).len());
        } else {
            // labels equal, in order; metadata is the same object; the caller gets the inner recorder's handle
            let n = if which { 2 } else { 0 };
            assert!(LOG.nlabels[0] == n);
            let mut j = 0;
            while j < n {
                assert!(LOG.labels[0][4 * j] == LABELS[j].key().as_ptr() as usize && LOG.labels[0][4 * j + 1] == LABELS[j].key().len());
                assert!(LOG.labels[0][4 * j + 2] == LABELS[j].value().as_ptr() as usize && LOG.labels[0][4 * j + 3] == LABELS[j].value().len());
                j += 1;
            }
            assert!(LOG.meta_ptr[0] == &META as *const Metadata<'static> as usize);
            assert!(LOG.upd_calls[0] == 1 && LOG.upd_val[0] == v);
        }
    }
}
// describe_* : op in 1..=3 with ('ap', 'rq.t'), each run with literals
pub fn c13_prefix_describe_body(op: u8, usel: u8) {
    let op = 1 + op % 3;
    // (not split6: CBMC explores every syntactic arm, and a register arm through Prefix costs minutes)
    match op {
        1 => prefix_case(0, 1, true, usel, 0),
        2 => prefix_case(0, 2, true, usel, 0),
        _ => prefix_case(0, 3, true, usel, 0),
    }
    kani::cover!(op == 1);
    kani::cover!(op == 3 && usel % 4 == 2);
    kani::cover!(op == 2);
}
#[cfg(kani)]
#[kani::proof]
#[kani::unwind(10)]
fn c13_prefix_describe() {
    c13_prefix_describe_body(kani::any(), kani::any());
}
// edge strings: empty prefix with empty name (=> "."), and a 2-byte non-ASCII prefix
pub fn c13_prefix_describe_edge_body(edge: bool, usel: u8) {
    if edge {
        prefix_case(1, 1, false, usel, 0);
    } else {
        prefix_case(2, 2, true, usel, 0);
    }
    kani::cover!(edge);
    kani::cover!(!edge);
}
#[cfg(kani)]
#[kani::proof]
#[kani::unwind(10)]
fn c13_prefix_describe_edge() {
    c13_prefix_describe_edge_body(kani::any(), kani::any());
}
// register_counter with prefix 'ap', key 'rq.t' + 2 labels: labels, metadata, returned handle (one case: a single
// register through Prefix costs ~3 min of CBMC time, measured)
pub fn c13_prefix_register_counter_body(v: u64) {
    prefix_case(0, 4, true, 0, v);
}
#[cfg(kani)]
#[kani::proof]
#[kani::unwind(10)]
fn c13_prefix_register_counter() {
    c13_prefix_register_counter_body(kani::any());
}
// register_gauge / register_histogram, same single case each (three cases in ONE harness exceed 12 GB, measured)
pub fn c13_prefix_register_gauge_body(v: u64) {
    prefix_case(0, 5, true, 0, v);
}
#[cfg(kani)]
#[kani::proof]
#[kani::unwind(10)]
fn c13_prefix_register_gauge() {
    c13_prefix_register_gauge_body(kani::any());
}
pub fn c13_prefix_register_histogram_body(v: u64) {
    prefix_case(0, 6, true, 0, v);
}
#[cfg(kani)]
#[kani::proof]
#[kani::unwind(10)]
fn c13_prefix_register_histogram() {
    c13_prefix_register_histogram_body(kani::any());
}
