// C13 -- Router glue (metrics-util/src/layers/router.rs).
// ASSUMED (radix_trie's contract, not executed -- a 2-route lookup times out under CBMC, measured):
//   Trie::insert(k, v) stores v under k (a later insert of the same key overwrites), and
//   Trie::get_ancestor(name) returns the entry whose key is the LONGEST stored key that is a prefix of `name`
//   (None if there is none), whose value() is Some(the value stored).
// This file proves the glue around the trie:
//   route(kind, name, trie) = default                       if !global_mask.matches(kind)
//                           = targets[i]                    if trie.get_ancestor(name) = Some(i)
//                           = default                       if trie.get_ancestor(name) = None
//   each Recorder method consults the trie of ITS kind with the metric NAME, once, and forwards the operation
//   exactly once, arguments identical, to the recorder route() selected;
//   add_route stores targets.len()-before-push into exactly the tries its mask names, ORs the mask into
//   global_mask, and the stored index is < targets.len() afterwards (so `get_unchecked` in route() is in bounds:
//   invariant "every index stored in a trie is < targets.len()", targets only grows).
// (Trie::get_ancestor cannot be stubbed with Kani 0.68: its signature carries a named lifetime and no stub type-
//  matches.  Instead the REAL trie is executed, in the only states that are cheap under CBMC: empty, or a single
//  entry stored at the empty key "" -- the root -- which is a prefix of every name.  The glue depends on the trie
//  only through the Option<index> that get_ancestor yields; both shapes, with a symbolic index, are covered, each
//  kind's trie holding its own answer so that consulting the wrong trie is visible.  Lookups use the empty metric
//  name only (a non-empty name walks nibble vectors: 12 GB / timeout, measured); since the root entry answers for
//  every name, WHICH string is handed to get_ancestor is not observable here and is not claimed.)
use super::*;
// ---- recording double (same text in every C13 harness module) -------------------------------------------
// One recorder type `Rec2 { id }` for every position (inner / default / target / fan-out member): all
// `dyn Recorder` objects in a harness then share one vtable, so CBMC resolves dynamic calls even when the
// data pointer is symbolic.  Every call that enters recorder `id` is logged per id: operation, name bytes
// (first NAME_CAP) + length, unit, description pointer/length, key labels (pointer/length of each part),
// metadata pointer.  Handles handed out by recorder `id` log their updates per id.
use metrics::{Label, Level};
pub const NR: usize = 4;
pub const NAME_CAP: usize = 8;
pub struct Log {
    pub calls: [u32; NR],
    pub op: [u8; NR],
    pub name: [[u8; NAME_CAP]; NR],
    pub name_len: [usize; NR],
    pub name_ptr: [usize; NR],
    pub unit: [u32; NR],
    pub desc_ptr: [usize; NR],
    pub desc_len: [usize; NR],
    pub key_ptr: [usize; NR],
    pub nlabels: [usize; NR],
    pub labels: [[usize; 8]; NR],
    pub meta_ptr: [usize; NR],
    pub upd_calls: [u32; NR],
    pub upd_op: [u8; NR],
    pub upd_val: [u64; NR],
    pub total: u32,
}
pub static mut LOG: Log = Log {
    calls: [0; NR], op: [0; NR], name: [[0; NAME_CAP]; NR], name_len: [0; NR], name_ptr: [0; NR], unit: [0; NR],
    desc_ptr: [0; NR], desc_len: [0; NR], key_ptr: [0; NR], nlabels: [0; NR], labels: [[0; 8]; NR], meta_ptr: [0; NR],
    upd_calls: [0; NR], upd_op: [0; NR], upd_val: [0; NR], total: 0,
};
pub fn unit_code(u: Option<Unit>) -> u32 {
    match u {
        None => 0,
        Some(u) => 1 + u as u32,
    }
}
pub struct Sink2 {
    id: usize,
}
impl Sink2 {
    fn hit(&self, op: u8, v: u64) {
        unsafe {
            LOG.upd_calls[self.id] += 1;
            LOG.upd_op[self.id] = op;
            LOG.upd_val[self.id] = v;
        }
    }
}
impl metrics::CounterFn for Sink2 {
    fn increment(&self, v: u64) { self.hit(1, v) }
    fn absolute(&self, v: u64) { self.hit(2, v) }
}
impl metrics::GaugeFn for Sink2 {
    fn increment(&self, v: f64) { self.hit(3, v.to_bits()) }
    fn decrement(&self, v: f64) { self.hit(4, v.to_bits()) }
    fn set(&self, v: f64) { self.hit(5, v.to_bits()) }
}
impl metrics::HistogramFn for Sink2 {
    fn record(&self, v: f64) { self.hit(6, v.to_bits()) }
}
pub struct Rec2 {
    pub id: usize,
}
impl Rec2 {
    fn name(&self, op: u8, name: &str) {
        unsafe {
            LOG.total += 1;
            LOG.calls[self.id] += 1;
            LOG.op[self.id] = op;
            LOG.name_len[self.id] = name.len();
            LOG.name_ptr[self.id] = name.as_ptr() as usize;
            let b = name.as_bytes();
            let mut i = 0;
            while i < NAME_CAP {
                LOG.name[self.id][i] = if i < b.len() { b[i] } else { 0 };
                i += 1;
            }
        }
    }
    fn describe(&self, op: u8, key: KeyName, unit: Option<Unit>, description: SharedString) {
        self.name(op, key.as_str());
        unsafe {
            LOG.unit[self.id] = unit_code(unit);
            LOG.desc_ptr[self.id] = description.as_ptr() as usize;
            LOG.desc_len[self.id] = description.len();
        }
    }
    fn register(&self, op: u8, key: &Key, metadata: &Metadata<'_>) {
        self.name(op, key.name());
        unsafe {
            LOG.key_ptr[self.id] = key as *const Key as usize;
            LOG.meta_ptr[self.id] = metadata as *const Metadata<'_> as usize;
            let mut n = 0;
            for l in key.labels() {
                if n < 2 {
                    LOG.labels[self.id][4 * n] = l.key().as_ptr() as usize;
                    LOG.labels[self.id][4 * n + 1] = l.key().len();
                    LOG.labels[self.id][4 * n + 2] = l.value().as_ptr() as usize;
                    LOG.labels[self.id][4 * n + 3] = l.value().len();
                }
                n += 1;
            }
            LOG.nlabels[self.id] = n;
        }
    }
}
impl Recorder for Rec2 {
    fn describe_counter(&self, key: KeyName, unit: Option<Unit>, description: SharedString) { self.describe(1, key, unit, description) }
    fn describe_gauge(&self, key: KeyName, unit: Option<Unit>, description: SharedString) { self.describe(2, key, unit, description) }
    fn describe_histogram(&self, key: KeyName, unit: Option<Unit>, description: SharedString) { self.describe(3, key, unit, description) }
    fn register_counter(&self, key: &Key, metadata: &Metadata<'_>) -> Counter {
        self.register(4, key, metadata);
        Counter::from_arc(std::sync::Arc::new(Sink2 { id: self.id }))
    }
    fn register_gauge(&self, key: &Key, metadata: &Metadata<'_>) -> Gauge {
        self.register(5, key, metadata);
        Gauge::from_arc(std::sync::Arc::new(Sink2 { id: self.id }))
    }
    fn register_histogram(&self, key: &Key, metadata: &Metadata<'_>) -> Histogram {
        self.register(6, key, metadata);
        Histogram::from_arc(std::sync::Arc::new(Sink2 { id: self.id }))
    }
}
pub static LABELS: [Label; 2] = [Label::from_static_parts("host", "a"), Label::from_static_parts("", "v2")];
pub static NO_LABELS_: [Label; 0] = [];
pub static NAME_A: &str = "rq.t";
pub static NAME_B: &str = "";
pub static DESC_A: &str = "requests";
pub static DESC_B: &str = "";
pub static KEY_A: Key = Key::from_static_parts("rq.t", &LABELS);
pub static KEY_B: Key = Key::from_static_name("");
pub static META: Metadata<'static> = Metadata::new("target", Level::INFO, Some("module"));
pub fn unit_of(sel: u8) -> Option<Unit> {
    match sel % 4 {
        0 => None,
        1 => Some(Unit::Count),
        2 => Some(Unit::Bytes),
        _ => Some(Unit::Seconds),
    }
}
pub fn name_of(which: bool) -> &'static str { if which { NAME_A } else { NAME_B } }
pub fn desc_of(which: bool) -> &'static str { if which { DESC_A } else { DESC_B } }
pub fn key_of(which: bool) -> &'static Key { if which { &KEY_A } else { &KEY_B } }
/// One operation `op` in 1..=6 through `r`; register ops use the returned handle once with `v`.
pub fn emit<R: Recorder + ?Sized>(r: &R, op: u8, which: bool, usel: u8, v: u64) {
    match op {
        1 => r.describe_counter(KeyName::from_const_str(name_of(which)), unit_of(usel), SharedString::const_str(desc_of(which))),
        2 => r.describe_gauge(KeyName::from_const_str(name_of(which)), unit_of(usel), SharedString::const_str(desc_of(which))),
        3 => r.describe_histogram(KeyName::from_const_str(name_of(which)), unit_of(usel), SharedString::const_str(desc_of(which))),
        4 => r.register_counter(key_of(which), &META).increment(v),
        5 => r.register_gauge(key_of(which), &META).set(f64::from_bits(v)),
        _ => r.register_histogram(key_of(which), &META).record(f64::from_bits(v)),
    }
}
/// Recorder `id` received, as its last call, `op` with exactly the arguments `emit` passed (name/key/labels
/// identical, unit equal, description and metadata pointer-identical) and, for register ops, its handle got `v`.
pub fn assert_same_args(id: usize, op: u8, which: bool, usel: u8, v: u64) {
    unsafe {
        assert!(LOG.op[id] == op);
        assert!(LOG.name_ptr[id] == name_of(which).as_ptr() as usize && LOG.name_len[id] == name_of(which).len());
        if op <= 3 {
            assert!(LOG.unit[id] == unit_code(unit_of(usel)));
            assert!(LOG.desc_ptr[id] == desc_of(which).as_ptr() as usize && LOG.desc_len[id] == desc_of(which).len());
            assert!(LOG.upd_calls[id] == 0);
        } else {
            assert!(LOG.key_ptr[id] == key_of(which) as *const Key as usize);
            assert!(LOG.meta_ptr[id] == &META as *const Metadata<'static> as usize);
            assert!(LOG.upd_calls[id] == 1 && LOG.upd_val[id] == v);
            assert!(LOG.upd_op[id] == if op == 4 { 1 } else if op == 5 { 5 } else { 6 });
        }
    }
}
pub fn op_of(op: u8) -> u8 { 1 + op % 6 }
// CBMC executes string copies / trie walks affordably only when pointers and lengths are concrete: every harness
// case-splits on the symbolic selectors that choose a string or a width, and runs the check with a LITERAL.
pub fn split2(which: bool, f: impl Fn(bool)) {
    if which { f(true) } else { f(false) }
}
pub fn split6(op: u8, f: impl Fn(u8)) {
    match op {
        1 => f(1),
        2 => f(2),
        3 => f(3),
        4 => f(4),
        5 => f(5),
        _ => f(6),
    }
}
pub fn split4(n: usize, f: impl Fn(usize)) {
    match n {
        0 => f(0),
        1 => f(1),
        2 => f(2),
        _ => f(3),
    }
}
// ---- end of double --------------------------------------------------------------------------------------

fn mask_of(m: u8) -> MetricKindMask {
    let mut r = MetricKindMask::NONE;
    if m & 1 != 0 { r = r | MetricKindMask::COUNTER; }
    if m & 2 != 0 { r = r | MetricKindMask::GAUGE; }
    if m & 4 != 0 { r = r | MetricKindMask::HISTOGRAM; }
    r
}
/// trie answering `Some(i)` for every name (single root entry) if `present`, `None` otherwise
fn mk_trie(present: bool, i: usize) -> Trie<String, usize> {
    let mut t = Trie::new();
    if present {
        t.insert(String::new(), i);
    }
    t
}
fn mk_router(mask: u8, n_targets: usize, present: [bool; 3], idx: [usize; 3]) -> Router {
    let mut targets: Vec<Box<dyn Recorder + Sync>> = Vec::new();
    let mut i = 0;
    while i < n_targets {
        targets.push(Box::new(Rec2 { id: 1 + i }));
        i += 1;
    }
    Router {
        default: Box::new(Rec2 { id: 0 }),
        global_mask: mask_of(mask),
        targets,
        counter_routes: mk_trie(present[0], idx[0]),
        gauge_routes: mk_trie(present[1], idx[1]),
        histogram_routes: mk_trie(present[2], idx[2]),
    }
}
fn data_ptr(r: &dyn Recorder) -> usize {
    r as *const dyn Recorder as *const u8 as usize
}

// route(): all 8 masks x 3 kinds x per-kind trie answer in {None, Some(0..3)} over 3 targets, incl. states where
// a trie holds an entry although the mask does not name its kind (the mask gate decides).
pub fn c13_router_route_body(mask: u8, k: u8, which: bool, pc: bool, pg: bool, ph: bool, ic: usize, ig: usize, ih: usize) {
    kani::assume(mask < 8 && ic < 3 && ig < 3 && ih < 3);
    let _ = which; // only the empty name: any non-empty name makes the real trie walk unaffordable (measured: 12 GB)
    route_case(mask, k, false, pc, pg, ph, ic, ig, ih);
    let j = (k % 3) as usize;
    kani::cover!(mask == 2 && j == 1 && pg && ig == 2);
    kani::cover!(mask == 7 && j == 0 && !pc);
    kani::cover!(mask == 5 && j == 1 && pg);
    kani::cover!(mask == 4 && j == 2 && ph && ih == 0);
}
fn route_case(mask: u8, k: u8, which: bool, pc: bool, pg: bool, ph: bool, ic: usize, ig: usize, ih: usize) {
    let present = [pc, pg, ph];
    let idx = [ic, ig, ih];
    let router = mk_router(mask, 3, present, idx);
    let j = (k % 3) as usize;
    let (kind, trie) = match j {
        0 => (MetricKind::Counter, &router.counter_routes),
        1 => (MetricKind::Gauge, &router.gauge_routes),
        _ => (MetricKind::Histogram, &router.histogram_routes),
    };
    let got = data_ptr(router.route(kind, name_of(which), trie));
    let default = data_ptr(router.default.as_ref());
    if mask & (1 << j) == 0 {
        assert!(got == default);
    } else if present[j] {
        assert!(got == data_ptr(router.targets[idx[j]].as_ref()));
        assert!(got != default);
    } else {
        assert!(got == default);
    }
}
#[cfg(kani)]
#[kani::proof]
#[kani::unwind(18)]
fn c13_router_route() {
    c13_router_route_body(kani::any(), kani::any(), kani::any(), kani::any(), kani::any(), kani::any(), kani::any(), kani::any(), kani::any());
}

// the six Recorder methods: the trie of the operation's OWN kind decides (the two other tries answer with the
// other target), the operation is forwarded exactly once, arguments identical, to the selected recorder and to no
// other.  All 8 masks symbolic; (operation, own trie present/absent) case-split into literals, 12 cases.
pub fn c13_router_forward_body(mask: u8, op: u8, usel: u8, v: u64, present: bool) {
    kani::assume(mask < 8);
    let op = op_of(op);
    let idx = (op % 2) as usize; // own trie answers target 1 for ops 1,3,5 and target 0 for ops 2,4,6; the others the opposite
    split6(op, |o| split2(present, |p| forward_case(mask, o, usel, v, p, (o % 2) as usize)));
    let j = ((op - 1) % 3) as usize;
    let expect_id = if mask & (1 << j) == 0 || !present { 0 } else { 1 + idx };
    kani::cover!(expect_id == 2 && op == 5);
    kani::cover!(expect_id == 0 && mask & (1 << j) != 0 && op == 1);
    kani::cover!(expect_id == 1 && op == 6);
    kani::cover!(expect_id == 2 && op == 1);
    kani::cover!(expect_id == 0 && present && op == 3);
}
fn forward_case(mask: u8, op: u8, usel: u8, v: u64, present: bool, idx: usize) {
    let j = ((op - 1) % 3) as usize; // 1,4 counter; 2,5 gauge; 3,6 histogram
    let mut pr = [true; 3];
    let mut ix = [1 - idx; 3];
    pr[j] = present;
    ix[j] = idx;
    let router = mk_router(mask, 2, pr, ix);
    emit(&router, op, false, usel, v);
    let expect_id = if mask & (1 << j) == 0 || !present { 0 } else { 1 + idx };
    unsafe {
        assert!(LOG.total == 1 && LOG.calls[expect_id] == 1); // exactly one recorder, exactly once
    }
    assert_same_args(expect_id, op, false, usel, v);
}
#[cfg(kani)]
#[kani::proof]
#[kani::unwind(18)]
fn c13_router_forward() {
    c13_router_forward_body(kani::any(), kani::any(), kani::any(), kani::any(), kani::any());
}

#[cfg(kani)]
mod stubbed {
    use super::*;

    // ---------------- insert model: records (trie, key, value) ----------------
    static mut INS_CALLS: usize = 0;
    static mut INS_TRIE: [usize; 6] = [0; 6];
    static mut INS_VAL: [usize; 6] = [0; 6];
    static mut INS_KEY_OK: [bool; 6] = [false; 6];
    static PATTERN: &str = "rq.";

    fn insert_stub<K, V>(this: &mut Trie<K, V>, key: K, value: V) -> Option<V> {
        unsafe {
            assert!(core::mem::size_of::<V>() == core::mem::size_of::<usize>());
            assert!(core::mem::size_of::<K>() == core::mem::size_of::<String>());
            let n = INS_CALLS;
            if n < 6 {
                INS_TRIE[n] = this as *const Trie<K, V> as usize;
                INS_VAL[n] = *(&value as *const V as *const usize); // only instantiated with V = usize
                let s: &String = &*(&key as *const K as *const String); // only instantiated with K = String
                INS_KEY_OK[n] = s.as_str() == PATTERN;
            }
            INS_CALLS += 1;
        }
        None
    }

    // add_route: two successive routes with symbolic masks among {COUNTER, GAUGE, HISTOGRAM, ALL}
    #[kani::proof]
    #[kani::unwind(18)]
    #[kani::stub(radix_trie::Trie::insert, insert_stub)]
    fn c13_router_add_route() {
        let m1: u8 = kani::any();
        let m2: u8 = kani::any();
        kani::assume(m1 == 1 || m1 == 2 || m1 == 4 || m1 == 7);
        kani::assume(m2 == 1 || m2 == 2 || m2 == 4 || m2 == 7);
        let named = |m: u8| if m == 7 { MetricKindMask::ALL } else { mask_of(m) };
        let mut b = RouterBuilder::from_recorder(Rec2 { id: 0 });
        assert!(b.targets.len() == 0 && b.global_mask == MetricKindMask::NONE);
        b.add_route(named(m1), PATTERN, Rec2 { id: 1 });
        let n1 = unsafe { INS_CALLS };
        assert!(b.targets.len() == 1 && b.global_mask == mask_of(m1));
        b.add_route(named(m2), PATTERN, Rec2 { id: 2 });
        let n2 = unsafe { INS_CALLS };
        assert!(b.targets.len() == 2 && b.global_mask == mask_of(m1 | m2));
        let tries = [
            &b.counter_routes as *const Trie<String, usize> as usize,
            &b.gauge_routes as *const Trie<String, usize> as usize,
            &b.histogram_routes as *const Trie<String, usize> as usize,
        ];
        // exactly the tries the mask names, each once, with index == targets.len() before the push, key == pattern
        let pop = |m: u8| (m & 1) as usize + ((m >> 1) & 1) as usize + ((m >> 2) & 1) as usize;
        assert!(n1 == pop(m1) && n2 - n1 == pop(m2));
        unsafe {
            let mut j = 0;
            while j < 3 {
                let mut hits1 = 0;
                let mut hits2 = 0;
                let mut i = 0;
                while i < 6 {
                    if i < n2 && INS_TRIE[i] == tries[j] {
                        assert!(INS_KEY_OK[i]);
                        if i < n1 { hits1 += 1; assert!(INS_VAL[i] == 0); } else { hits2 += 1; assert!(INS_VAL[i] == 1); }
                        assert!(INS_VAL[i] < b.targets.len()); // in bounds for route()'s get_unchecked
                    }
                    i += 1;
                }
                assert!(hits1 == ((m1 >> j) & 1) as usize && hits2 == ((m2 >> j) & 1) as usize);
                j += 1;
            }
        }
        // build() moves every part unchanged
        let r = b.build();
        assert!(r.targets.len() == 2 && r.global_mask == mask_of(m1 | m2));
        unsafe { assert!(LOG.total == 0) };
        kani::cover!(m1 == 7 && m2 == 2);
        kani::cover!(m1 == 1 && m2 == 4);
    }
}
