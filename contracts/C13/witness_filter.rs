// Hand-derived from the contract of the filter layer ("drops an operation exactly when the name contains one of the patterns,
// case-insensitively if so configured"): the real layer against `str::contains` over pattern sets with repeated, nested and
// mixed-case patterns, for both automaton kinds.
use super::*;
use crate::layers::Layer as _;
use metrics::{Counter, Gauge, Histogram, Key, KeyName, Metadata, Recorder, SharedString, Unit};
use std::sync::atomic::{AtomicUsize, Ordering};
use std::sync::Arc;

struct Count(Arc<AtomicUsize>);
impl Recorder for Count {
    fn describe_counter(&self, _: KeyName, _: Option<Unit>, _: SharedString) { self.0.fetch_add(1, Ordering::SeqCst); }
    fn describe_gauge(&self, _: KeyName, _: Option<Unit>, _: SharedString) { self.0.fetch_add(1, Ordering::SeqCst); }
    fn describe_histogram(&self, _: KeyName, _: Option<Unit>, _: SharedString) { self.0.fetch_add(1, Ordering::SeqCst); }
    fn register_counter(&self, _: &Key, _: &Metadata<'_>) -> Counter { self.0.fetch_add(1, Ordering::SeqCst); Counter::noop() }
    fn register_gauge(&self, _: &Key, _: &Metadata<'_>) -> Gauge { self.0.fetch_add(1, Ordering::SeqCst); Gauge::noop() }
    fn register_histogram(&self, _: &Key, _: &Metadata<'_>) -> Histogram { self.0.fetch_add(1, Ordering::SeqCst); Histogram::noop() }
}

#[test]
fn dropped_exactly_when_the_name_contains_a_pattern() {
    static M: Metadata<'static> = Metadata::new("w", metrics::Level::INFO, None);
    let pattern_sets: Vec<Vec<&str>> = vec![
        vec!["tokio"], vec!["tokio", "tokio"], vec!["bb8", "tokio", "bb8"], vec!["io", "tokio"], vec!["tokio", "io"],
        vec!["Tok", "HYPER"], vec!["a", "ab", "abc", "ab"], vec![],
    ];
    let names = ["tokio", "tokio_tasks", "my_tokio", "bb8_pool", "io", "radio", "hyper_conn", "Hyper", "TOKIO", "abc", "xaby", "b", "plain"];
    for pats in &pattern_sets {
        for ci in [false, true] {
            for dfa in [false, true] {
                let hits = Arc::new(AtomicUsize::new(0));
                let mut layer = FilterLayer::from_patterns(pats.iter().copied());
                layer.case_insensitive(ci).use_dfa(dfa);
                let filtered = layer.layer(Count(hits.clone()));
                for name in names {
                    let contained = pats.iter().any(|p| if ci { name.to_lowercase().contains(&p.to_lowercase()) } else { name.contains(p) });
                    let before = hits.load(Ordering::SeqCst);
                    let _ = filtered.register_counter(&Key::from_name(name), &M);
                    filtered.describe_gauge(name.into(), None, "d".into());
                    let forwarded = hits.load(Ordering::SeqCst) - before;
                    assert_eq!(forwarded, if contained { 0 } else { 2 }, "patterns {pats:?} ci={ci} dfa={dfa} name {name:?}");
                }
            }
        }
    }
}
