// Hand-derived from the postcondition of `Router::route` ("forwards to exactly one recorder, the one whose route is the longest
// prefix of the name among routes for that metric kind, or the default"): the real router against a brute-force longest-prefix
// reference over a family of routes that share stems and a grid of names around them.
use super::*;
use metrics::{Counter, Gauge, Histogram, Key, KeyName, Metadata, Recorder, SharedString, Unit};
use std::sync::atomic::{AtomicUsize, Ordering};
use std::sync::Arc;

struct Tagged(usize, Arc<AtomicUsize>);
impl Recorder for Tagged {
    fn describe_counter(&self, _: KeyName, _: Option<Unit>, _: SharedString) { self.1.store(self.0, Ordering::SeqCst); }
    fn describe_gauge(&self, _: KeyName, _: Option<Unit>, _: SharedString) { self.1.store(self.0, Ordering::SeqCst); }
    fn describe_histogram(&self, _: KeyName, _: Option<Unit>, _: SharedString) { self.1.store(self.0, Ordering::SeqCst); }
    fn register_counter(&self, _: &Key, _: &Metadata<'_>) -> Counter { self.1.store(self.0, Ordering::SeqCst); Counter::noop() }
    fn register_gauge(&self, _: &Key, _: &Metadata<'_>) -> Gauge { self.1.store(self.0, Ordering::SeqCst); Gauge::noop() }
    fn register_histogram(&self, _: &Key, _: &Metadata<'_>) -> Histogram { self.1.store(self.0, Ordering::SeqCst); Histogram::noop() }
}

#[test]
fn longest_prefix_among_routes_of_the_kind_else_default() {
    static M: Metadata<'static> = Metadata::new("w", metrics::Level::INFO, None);
    let last = Arc::new(AtomicUsize::new(usize::MAX));
    // (mask, route): index + 1 is the recorder's tag, 0 is the default
    let routes: Vec<(MetricKindMask, &str)> = vec![
        (MetricKindMask::ALL, "svc"),
        (MetricKindMask::ALL, "svc.queue.pull"),
        (MetricKindMask::ALL, "svc.queue.push"),
        (MetricKindMask::COUNTER, "svc.queue.pu"),
        (MetricKindMask::GAUGE, "svc.q"),
        (MetricKindMask::ALL, "other"),
    ];
    let mut b = RouterBuilder::from_recorder(Tagged(0, last.clone()));
    for (i, (mask, r)) in routes.iter().enumerate() {
        b.add_route(*mask, *r, Tagged(i + 1, last.clone()));
    }
    let router = b.build();
    let names = ["svc", "sv", "svc.", "svc.queue", "svc.queue.p", "svc.queue.pu", "svc.queue.pul", "svc.queue.pull", "svc.queue.pull.x",
                 "svc.queue.purge", "svc.queue.push", "svc.queue.pushed", "svc.qx", "svc.q", "other", "others", "othe", "", "x"];
    for name in names {
        for (kind_mask, which) in [(MetricKindMask::COUNTER, 0), (MetricKindMask::GAUGE, 1), (MetricKindMask::HISTOGRAM, 2)] {
            // reference: longest route that is a prefix of the name among the routes registered for this kind
            let mut want = 0usize;
            let mut best = 0usize;
            for (i, (mask, r)) in routes.iter().enumerate() {
                if mask.matches(match which { 0 => MetricKind::Counter, 1 => MetricKind::Gauge, _ => MetricKind::Histogram })
                    && name.starts_with(r) && (want == 0 || r.len() > best) { want = i + 1; best = r.len(); }
            }
            last.store(usize::MAX, Ordering::SeqCst);
            let key = Key::from_name(name.to_string());
            match which {
                0 => { let _ = router.register_counter(&key, &M); }
                1 => { let _ = router.register_gauge(&key, &M); }
                _ => { let _ = router.register_histogram(&key, &M); }
            }
            assert_eq!(last.load(Ordering::SeqCst), want, "name {name:?}, kind #{which}: routed to recorder {} instead of {want}", last.load(Ordering::SeqCst));
            let _ = kind_mask;
        }
    }
}
