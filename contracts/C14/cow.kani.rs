// C14 — copy-on-write strings / slices own their memory correctly on every path (metrics/src/cow.rs).
//
// * Metadata::kind and Cow::from_owned's capacity guard: COMPLETE over all (usize, usize).
// * generic Cow<T> plumbing (from_owned / from_shared / from_borrowed / clone / into_owned / into std Cow / drop) against a
//   call-counting Cowable double: COMPLETE over all metadata (loop-free): every Cow releases its parts exactly once.
// * the real `Cowable for str` and `Cowable for [T]` (T with a drop-recording destructor): BOUNDED operation sequences.
// CBMC's pointer checks (dereference of freed / out-of-bounds memory, double free) are active in every harness.
use super::*;

fn is_shared(k: Kind) -> bool { matches!(k, Kind::Shared) }
fn is_borrowed(k: Kind) -> bool { matches!(k, Kind::Borrowed) }
fn is_owned(k: Kind) -> bool { matches!(k, Kind::Owned) }

// ------------------------------------------------------------------------------------------------ Metadata (complete)
pub fn c14_metadata_kind_body(len: usize, cap: usize) {
    let m = Metadata(len, cap);
    let k = m.kind();
    assert!(is_shared(k) == (cap == usize::MAX));
    assert!(is_borrowed(k) == (cap == 0));
    assert!(is_owned(k) == (cap != 0 && cap != usize::MAX));
    assert!(m.len() == len && m.capacity() == cap);
    // constructors
    let b = Metadata::borrowed(len);
    assert!(is_borrowed(b.kind()) && b.len() == len);
    let s = Metadata::shared(len);
    assert!(is_shared(s.kind()) && s.len() == len);
    let o = Metadata::owned(len, cap);
    assert!(o.len() == len && o.capacity() == cap);
    assert!(is_owned(o.kind()) == (cap != 0 && cap != usize::MAX));
    kani::cover!(is_owned(k) && len > cap); // kind never looks at len
    kani::cover!(is_shared(k));
    kani::cover!(is_borrowed(k) && len == usize::MAX);
}
#[cfg(kani)]
#[kani::proof]
fn c14_metadata_kind() {
    c14_metadata_kind_body(kani::any(), kani::any());
}

/// same with a non-empty zero-sized vector (len 5): the guard must not depend on len
#[cfg(kani)]
#[kani::proof]
#[kani::should_panic]
fn c14_from_owned_rejects_zst_vec5() {
    let v: Vec<()> = vec![(); 5];
    assert!(v.capacity() == usize::MAX && v.len() == 5);
    let _c = Cow::<[()]>::from_owned(v);
}

// ------------------------------------------------------------------------------------------------ generic plumbing
// A Sized Cowable double whose parts are arbitrary metadata and which counts what the generic `Cow` code asks of it.
pub static mut F_OWNED_FROM: u32 = 0; // owned_from_parts calls  (consumes the parts)
pub static mut F_DROP: u32 = 0; // drop_from_parts calls   (consumes the parts)
pub static mut F_CLONE: u32 = 0; // clone_from_parts calls  (creates new parts)
pub static mut F_INTO: u32 = 0; // *_into_parts calls      (creates new parts)
pub static mut F_LAST: (usize, usize) = (0, 0);

#[derive(Clone)]
pub struct Fake(usize, usize);
static FAKE_CELL: u8 = 7;
fn fake_ptr() -> NonNull<u8> {
    unsafe { NonNull::new_unchecked(&FAKE_CELL as *const u8 as *mut u8) }
}
static FAKE_BORROW: Fake = Fake(1, 0);
impl Cowable for Fake {
    type Pointer = u8;
    fn borrowed_into_parts(&self) -> (NonNull<u8>, Metadata) {
        unsafe { F_INTO += 1 };
        (fake_ptr(), Metadata::borrowed(self.0))
    }
    fn owned_into_parts(owned: Fake) -> (NonNull<u8>, Metadata) {
        unsafe { F_INTO += 1 };
        (fake_ptr(), Metadata::owned(owned.0, owned.1))
    }
    fn shared_into_parts(arc: Arc<Fake>) -> (NonNull<u8>, Metadata) {
        unsafe { F_INTO += 1 };
        (fake_ptr(), Metadata::shared(arc.0))
    }
    fn borrowed_from_parts(_ptr: NonNull<u8>, _metadata: &Metadata) -> *const Fake {
        &FAKE_BORROW as *const Fake
    }
    fn owned_from_parts(_ptr: NonNull<u8>, metadata: &Metadata) -> Fake {
        unsafe {
            F_OWNED_FROM += 1;
            F_LAST = (metadata.0, metadata.1);
        }
        Fake(metadata.0, metadata.1)
    }
    fn clone_from_parts(ptr: NonNull<u8>, metadata: &Metadata) -> (NonNull<u8>, Metadata) {
        unsafe { F_CLONE += 1 };
        (ptr, *metadata)
    }
    fn drop_from_parts(_ptr: NonNull<u8>, metadata: &Metadata) {
        unsafe {
            F_DROP += 1;
            F_LAST = (metadata.0, metadata.1);
        }
    }
}
fn fake_reset() {
    unsafe {
        F_OWNED_FROM = 0;
        F_DROP = 0;
        F_CLONE = 0;
        F_INTO = 0;
        F_LAST = (0, 0);
    }
}
fn created() -> u32 {
    unsafe { F_INTO + F_CLONE }
}
fn released() -> u32 {
    unsafe { F_OWNED_FROM + F_DROP }
}

/// from_owned accepts every capacity except usize::MAX and stores the parts unchanged
pub fn c14_from_owned_accepts_body(len: usize, cap: usize) {
    kani::assume(cap != usize::MAX);
    fake_reset();
    let c = Cow::<Fake>::from_owned(Fake(len, cap));
    assert!(c.metadata == Metadata(len, cap));
    assert!(created() == 1 && released() == 0);
    drop(c);
    assert!(created() == 1 && released() == 1 && unsafe { F_DROP } == 1);
    assert!(unsafe { F_LAST } == (len, cap));
    kani::cover!(cap == usize::MAX - 1);
    kani::cover!(cap == 0 && len > 0);
}
#[cfg(kani)]
#[kani::proof]
fn c14_from_owned_accepts() {
    c14_from_owned_accepts_body(kani::any(), kani::any());
}

/// from_owned panics when capacity == usize::MAX (any len) -- `should_panic`: the harness passes only if a panic is reached
#[cfg(kani)]
#[kani::proof]
#[kani::should_panic]
fn c14_from_owned_rejects_max() {
    let len: usize = kani::any();
    let _c = Cow::<Fake>::from_owned(Fake(len, usize::MAX));
}
/// ... including through the real `Cowable for [T]` with a zero-sized T, whose Vec really has capacity usize::MAX
#[cfg(kani)]
#[kani::proof]
#[kani::should_panic]
fn c14_from_owned_rejects_zst_vec() {
    let v: Vec<()> = Vec::new();
    assert!(v.capacity() == usize::MAX);
    let _c = Cow::<[()]>::from_owned(v);
}

/// Every generic path hands each set of parts to exactly one of {owned_from_parts, drop_from_parts}, never both, never none.
pub fn c14_generic_release_once_body(len: usize, cap: usize, ctor: u8, op1: u8, op2: u8) {
    kani::assume(ctor < 3 && op1 < 5 && op2 < 5);
    kani::assume(cap != usize::MAX);
    fake_reset();
    let arc = Arc::new(Fake(len, 0));
    {
        let c: Cow<'static, Fake> = match ctor {
            0 => Cow::from_borrowed(&FAKE_BORROW),
            1 => Cow::from_owned(Fake(len, cap)),
            _ => Cow::from_shared(arc.clone()),
        };
        let meta0 = c.metadata;
        assert!(created() == 1);
        if ctor == 0 {
            assert!(is_borrowed(meta0.kind()) && meta0.len() == 1);
        }
        if ctor == 2 {
            assert!(is_shared(meta0.kind()) && meta0.len() == len);
        }
        let mut cur = Some(c);
        let mut other: Option<Cow<'static, Fake>> = None;
        let mut step = 0;
        while step < 2 {
            let op = if step == 0 { op1 } else { op2 };
            match op {
                0 => {
                    // clone: one more live set of parts with the same metadata
                    if let Some(c) = &cur {
                        let before = created();
                        let d = c.clone();
                        assert!(created() == before + 1 && d.metadata == c.metadata && d.ptr == c.ptr);
                        other = Some(d);
                    }
                }
                1 => {
                    // into_owned: parts consumed by owned_from_parts, Drop must NOT run on them again
                    if let Some(c) = cur.take() {
                        let m = c.metadata;
                        let (r0, o0) = (released(), unsafe { F_OWNED_FROM });
                        let f = c.into_owned();
                        assert!(released() == r0 + 1 && unsafe { F_OWNED_FROM } == o0 + 1);
                        assert!(f.0 == m.0 && f.1 == m.1);
                    }
                }
                2 => {
                    // into std Cow: Borrowed stays a borrow (nothing consumed, nothing to release later),
                    // Owned/Shared are consumed through owned_from_parts exactly once
                    if let Some(c) = cur.take() {
                        let m = c.metadata;
                        let (r0, o0) = (released(), unsafe { F_OWNED_FROM });
                        let s: std::borrow::Cow<'static, Fake> = c.into();
                        match s {
                            std::borrow::Cow::Borrowed(b) => {
                                assert!(is_borrowed(m.kind()));
                                assert!(core::ptr::eq(b, &FAKE_BORROW));
                                // the borrowed Cow itself is dropped by the conversion: a no-op kind, but it is
                                // still handed to drop_from_parts exactly once
                                assert!(released() == r0 + 1 && unsafe { F_OWNED_FROM } == o0);
                            }
                            std::borrow::Cow::Owned(f) => {
                                assert!(!is_borrowed(m.kind()));
                                assert!(released() == r0 + 1 && unsafe { F_OWNED_FROM } == o0 + 1);
                                assert!(f.0 == m.0 && f.1 == m.1);
                            }
                        }
                    }
                }
                3 => {
                    if let Some(c) = cur.take() {
                        let r0 = released();
                        drop(c);
                        assert!(released() == r0 + 1);
                    }
                }
                _ => {
                    // deref / as_ref / borrow never create or release anything
                    if let Some(c) = &cur {
                        let (c0, r0) = (created(), released());
                        let f: &Fake = &**c;
                        assert!(core::ptr::eq(f, &FAKE_BORROW));
                        let g: &Fake = c.as_ref();
                        let h: &Fake = c.borrow();
                        assert!(core::ptr::eq(g, h));
                        assert!(created() == c0 && released() == r0);
                    }
                }
            }
            if cur.is_none() {
                cur = other.take();
            }
            step += 1;
        }
        kani::cover!(cur.is_some() && other.is_some());
        kani::cover!(cur.is_none());
    }
    // all Cows are gone: every created set of parts was released exactly once
    assert!(created() == released());
    assert!(Arc::strong_count(&arc) == 1); // the double's shared_into_parts consumed the Arc clone by value
}
#[cfg(kani)]
#[kani::proof]
#[kani::unwind(4)]
fn c14_generic_release_once() {
    c14_generic_release_once_body(kani::any(), kani::any(), kani::any(), kani::any(), kani::any());
}

// ------------------------------------------------------------------------------------------------ str (bounded)
/// order-sensitive byte digest (cheap for the solver) used to compare `Hash` output with the model's
pub struct Dig(u64, u64);
impl Hasher for Dig {
    fn finish(&self) -> u64 {
        self.0 ^ (self.1 << 48)
    }
    fn write(&mut self, bytes: &[u8]) {
        let mut i = 0;
        while i < bytes.len() {
            self.0 = self.0.rotate_left(7) ^ (bytes[i] as u64);
            i += 1;
        }
        self.1 += 1;
    }
    fn write_u8(&mut self, i: u8) {
        self.0 = self.0.rotate_left(7) ^ (i as u64);
        self.1 += 1;
    }
    fn write_usize(&mut self, i: usize) {
        self.0 = self.0.rotate_left(7) ^ (i as u64) ^ 0x5555;
        self.1 += 1;
    }
}
fn dig<T: Hash + ?Sized>(t: &T) -> u64 {
    let mut d = Dig(0, 0);
    t.hash(&mut d);
    d.finish()
}

fn mk_str(ctor: u8, m: &'static str, arc: &Arc<str>) -> Cow<'static, str> {
    match ctor {
        0 => Cow::from_borrowed(m),
        1 => Cow::const_str(m),
        2 => Cow::from(std::borrow::Cow::Borrowed(m)),
        3 => Cow::from(String::from(m)), // From<String>, capacity == len (empty => capacity 0 => borrowed-kind empty)
        4 => {
            // len < capacity
            let mut s = String::with_capacity(m.len() + 1);
            s.push_str(m);
            Cow::from_owned(s)
        }
        5 => {
            // grown buffer (capacity chosen by String's amortised growth)
            let mut s = String::new();
            s.push_str(m);
            s.push('x');
            s.pop();
            Cow::from(std::borrow::Cow::Owned(s))
        }
        6 => Cow::from_shared(arc.clone()),
        _ => Cow::from(arc.clone()), // From<Arc<T>>
    }
}

/// everything a reader can observe: deref, as_ref, borrow, ==, cmp, Hash -- all must agree with the model `m`
fn check_str(c: &Cow<'static, str>, m: &'static str) {
    let s: &str = &**c;
    assert!(s.len() == m.len());
    assert!(s.as_bytes() == m.as_bytes(), "content reads back exactly");
    assert!(c.as_ref().as_ptr() == s.as_ptr());
    let b: &str = c.borrow();
    assert!(b.as_ptr() == s.as_ptr() && b.len() == s.len());
    let mc: Cow<'static, str> = Cow::const_str(m);
    assert!(*c == mc && mc == *c);
    assert!(c.cmp(&mc) == Ordering::Equal);
    assert!(c.partial_cmp(&mc) == Some(Ordering::Equal));
    assert!(dig(c) == dig(m), "Hash of the Cow is the Hash of its content");
}

/// the cheap read-back used between steps (the full set of observers is exercised by c14_str_read)
fn check_light(c: &Cow<'static, str>, m: &'static str) {
    let s: &str = &**c;
    assert!(s.len() == m.len() && s.as_bytes() == m.as_bytes(), "content reads back exactly");
}

/// one step on (cur, other): 0 clone cur into other, 1 into_owned + wrap again, 2 drop cur, 3 swap
fn str_step(op: u8, cur: &mut Option<Cow<'static, str>>, other: &mut Option<Cow<'static, str>>, m: &'static str, arc: &Arc<str>) {
    match op {
        0 => {
            if let Some(c) = &*cur {
                let before = Arc::strong_count(arc);
                let d = c.clone();
                match c.metadata.kind() {
                    Kind::Shared => {
                        assert!(Arc::strong_count(arc) == before + 1, "clone of a shared value takes one reference");
                        assert!(d.ptr == c.ptr && d.metadata == c.metadata);
                    }
                    Kind::Owned => {
                        assert!(Arc::strong_count(arc) == before);
                        assert!(d.ptr != c.ptr, "clone of an owned value is a fresh allocation");
                    }
                    Kind::Borrowed => {
                        assert!(Arc::strong_count(arc) == before);
                        assert!(d.ptr == c.ptr && d.metadata == c.metadata);
                    }
                }
                check_light(&d, m);
                *other = Some(d); // a previous clone (if any) is dropped here
            }
        }
        1 => {
            if let Some(c) = cur.take() {
                let before = Arc::strong_count(arc);
                let (k, p, cp) = (c.metadata.kind(), c.ptr.as_ptr() as *const u8, c.metadata.capacity());
                let s: String = c.into_owned();
                assert!(s.as_bytes() == m.as_bytes(), "into_owned returns the content");
                match k {
                    Kind::Owned => {
                        // same allocation handed back: no copy, nothing left behind to leak or free twice
                        assert!(s.as_ptr() == p && s.capacity() == cp);
                        assert!(Arc::strong_count(arc) == before);
                    }
                    Kind::Shared => assert!(Arc::strong_count(arc) == before - 1, "into_owned gives the reference back"),
                    Kind::Borrowed => assert!(Arc::strong_count(arc) == before),
                }
                *cur = Some(Cow::from_owned(s)); // owned value -> Cow again keeps working
            }
        }
        2 => {
            if let Some(c) = cur.take() {
                let before = Arc::strong_count(arc);
                let k = c.metadata.kind();
                drop(c);
                assert!(Arc::strong_count(arc) == if is_shared(k) { before - 1 } else { before });
            }
        }
        _ => core::mem::swap(cur, other),
    }
    if cur.is_none() {
        *cur = other.take();
    }
    if let Some(c) = &*cur {
        check_light(c, m);
    }
}
pub const NOPS: u8 = 4;

/// Runs ops[depth..nops] and then the final accounting.  The dispatch on the operation is OUTSIDE the step and the rest of
/// the run is continued INSIDE each arm, so CBMC executes every operation sequence as its own straight-line path with
/// concrete heap state (merging the heap states of different sequences exceeded 12 GB).
fn str_run(depth: usize, nops: usize, ops: [u8; 3], mut cur: Option<Cow<'static, str>>, mut other: Option<Cow<'static, str>>, m: &'static str, arc: &Arc<str>) {
    if depth >= nops {
        if let Some(c) = &cur {
            check_light(c, m);
        }
        if let Some(c) = &other {
            check_light(c, m);
        }
        kani::cover!(nops == 0 || (cur.is_some() && other.is_some()));
        kani::cover!(nops == 0 || cur.is_none());
        drop(cur);
        drop(other);
        // every Cow is gone: all Arc references taken were given back, the Arc's content was never touched
        assert!(Arc::strong_count(arc) == 1, "every Arc reference taken is given back exactly once");
        assert!(arc.as_bytes() == m.as_bytes());
        return;
    }
    match ops[depth] {
        0 => {
            str_step(0, &mut cur, &mut other, m, arc);
            str_run(depth + 1, nops, ops, cur, other, m, arc)
        }
        1 => {
            str_step(1, &mut cur, &mut other, m, arc);
            str_run(depth + 1, nops, ops, cur, other, m, arc)
        }
        2 => {
            str_step(2, &mut cur, &mut other, m, arc);
            str_run(depth + 1, nops, ops, cur, other, m, arc)
        }
        _ => {
            str_step(3, &mut cur, &mut other, m, arc);
            str_run(depth + 1, nops, ops, cur, other, m, arc)
        }
    }
}

/// `ctor` and `m` are literals at every call site
fn str_ops(ctor: u8, m: &'static str, ops: [u8; 3], nops: usize) {
    let arc: Arc<str> = Arc::from(m);
    assert!(Arc::strong_count(&arc) == 1);
    let c = mk_str(ctor, m, &arc);
    let shared0 = ctor >= 6;
    assert!(is_shared(c.metadata.kind()) == shared0);
    assert!(ctor > 2 || is_borrowed(c.metadata.kind()));
    assert!(!(ctor == 4 || ctor == 5) || (is_owned(c.metadata.kind()) && c.metadata.capacity() > c.metadata.len()));
    assert!(Arc::strong_count(&arc) == if shared0 { 2 } else { 1 });
    check_str(&c, m);
    str_run(0, nops, ops, Some(c), None, m, &arc);
}
// content: "" / "a" / "aé" (3 bytes, non-ASCII)
/// `set` is a literal per harness (0: only "aé", 1: only "" / "a", 2: all): contents outside the set are not even
/// symbolically executed (an `assume` alone would still make CBMC encode them)
fn str_content(ctor: u8, t: u8, set: u8, ops: [u8; 3], nops: usize) {
    match t {
        0 if set != 0 => str_ops(ctor, "", ops, nops),
        1 if set != 0 => str_ops(ctor, "a", ops, nops),
        2 if set != 1 => str_ops(ctor, "a\u{e9}", ops, nops),
        _ => kani::assume(false),
    }
}
// construction class is fixed per harness (0 = borrowed ctors 0..2, 1 = owned ctors 3..5, 2 = shared ctors 6..7)
fn str_class(class: u8, which: u8, t: u8, set: u8, ops: [u8; 3], nops: usize) {
    kani::assume(t < 3 && ops[0] < NOPS && ops[1] < NOPS && ops[2] < NOPS);
    kani::assume(which < if class == 2 { 2 } else { 3 });
    match (class, which) {
        (0, 0) => str_content(0, t, set, ops, nops),
        (0, 1) => str_content(1, t, set, ops, nops),
        (0, _) => str_content(2, t, set, ops, nops),
        (1, 0) => str_content(3, t, set, ops, nops),
        (1, 1) => str_content(4, t, set, ops, nops),
        (1, _) => str_content(5, t, set, ops, nops),
        (_, 0) => str_content(6, t, set, ops, nops),
        (_, _) => str_content(7, t, set, ops, nops),
    }
}

/// all observers (deref, as_ref, borrow, ==, cmp, partial_cmp, Hash) agree with the model for every constructor / content
pub fn c14_str_read_body(ctor: u8, t: u8) {
    kani::assume(ctor < 8 && t < 3);
    let (class, which) = (ctor / 3, ctor % 3);
    str_class(class, which, t, 2, [0, 0, 0], 0);
    kani::cover!(ctor == 7 && t == 2);
}
#[cfg(kani)]
#[kani::proof]
#[kani::unwind(5)]
fn c14_str_read() {
    c14_str_read_body(kani::any(), kani::any());
}

// quick: non-empty non-ASCII content, all 16 two-step sequences; thorough (`_all`): also "" and "a"
pub fn c14_str_borrowed_body(which: u8, op1: u8, op2: u8) {
    str_class(0, which, 2, 0, [op1, op2, 0], 2);
}
#[cfg(kani)]
#[kani::proof]
#[kani::unwind(5)]
fn c14_str_borrowed() {
    c14_str_borrowed_body(kani::any(), kani::any(), kani::any());
}
pub fn c14_str_borrowed_3ops_body(which: u8, op1: u8, op2: u8, op3: u8) {
    str_class(0, which, 2, 0, [op1, op2, op3], 3);
}
#[cfg(kani)]
#[kani::proof]
#[kani::unwind(5)]
fn c14_str_borrowed_3ops() {
    c14_str_borrowed_3ops_body(kani::any(), kani::any(), kani::any(), kani::any());
}

pub fn c14_str_borrowed_all_body(which: u8, t: u8, op1: u8, op2: u8) {
    kani::assume(t < 2);
    str_class(0, which, t, 1, [op1, op2, 0], 2);
}
#[cfg(kani)]
#[kani::proof]
#[kani::unwind(5)]
fn c14_str_borrowed_all() {
    c14_str_borrowed_all_body(kani::any(), kani::any(), kani::any(), kani::any());
}

// quick: non-empty non-ASCII content, all 16 two-step sequences; thorough (`_all`): also "" and "a"
pub fn c14_str_owned_body(which: u8, op1: u8, op2: u8) {
    str_class(1, which, 2, 0, [op1, op2, 0], 2);
}
#[cfg(kani)]
#[kani::proof]
#[kani::unwind(5)]
fn c14_str_owned() {
    c14_str_owned_body(kani::any(), kani::any(), kani::any());
}
pub fn c14_str_owned_3ops_body(which: u8, op1: u8, op2: u8, op3: u8) {
    str_class(1, which, 2, 0, [op1, op2, op3], 3);
}
#[cfg(kani)]
#[kani::proof]
#[kani::unwind(5)]
fn c14_str_owned_3ops() {
    c14_str_owned_3ops_body(kani::any(), kani::any(), kani::any(), kani::any());
}

pub fn c14_str_owned_all_body(which: u8, t: u8, op1: u8, op2: u8) {
    kani::assume(t < 2);
    str_class(1, which, t, 1, [op1, op2, 0], 2);
}
#[cfg(kani)]
#[kani::proof]
#[kani::unwind(5)]
fn c14_str_owned_all() {
    c14_str_owned_all_body(kani::any(), kani::any(), kani::any(), kani::any());
}

// quick: non-empty non-ASCII content, all 16 two-step sequences; thorough (`_all`): also "" and "a"
pub fn c14_str_shared_body(which: u8, op1: u8, op2: u8) {
    str_class(2, which, 2, 0, [op1, op2, 0], 2);
}
#[cfg(kani)]
#[kani::proof]
#[kani::unwind(5)]
fn c14_str_shared() {
    c14_str_shared_body(kani::any(), kani::any(), kani::any());
}
pub fn c14_str_shared_3ops_body(which: u8, op1: u8, op2: u8, op3: u8) {
    str_class(2, which, 2, 0, [op1, op2, op3], 3);
}
#[cfg(kani)]
#[kani::proof]
#[kani::unwind(5)]
fn c14_str_shared_3ops() {
    c14_str_shared_3ops_body(kani::any(), kani::any(), kani::any(), kani::any());
}

pub fn c14_str_shared_all_body(which: u8, t: u8, op1: u8, op2: u8) {
    kani::assume(t < 2);
    str_class(2, which, t, 1, [op1, op2, 0], 2);
}
#[cfg(kani)]
#[kani::proof]
#[kani::unwind(5)]
fn c14_str_shared_all() {
    c14_str_shared_all_body(kani::any(), kani::any(), kani::any(), kani::any());
}

// ------------------------------------------------------------------------------------------------ [T], T with a destructor (bounded)
pub const MAXD: usize = 32;
pub static mut D_NEXT: usize = 0;
pub static mut D_DROPS: usize = 0;
pub static mut D_DROPPED: [u8; MAXD] = [0; MAXD];
/// element with identity: every instance (new or cloned) gets a fresh serial; Drop records it and rejects a second drop
pub struct D {
    id: u8,
    serial: usize,
}
impl D {
    fn new(id: u8) -> D {
        let s = unsafe {
            let s = D_NEXT;
            D_NEXT += 1;
            s
        };
        assert!(s < MAXD, "drop recorder capacity");
        D { id, serial: s }
    }
}
impl Clone for D {
    fn clone(&self) -> D {
        assert!(unsafe { D_DROPPED[self.serial] } == 0, "clone reads a dropped element");
        D::new(self.id)
    }
}
impl Drop for D {
    fn drop(&mut self) {
        unsafe {
            assert!(D_DROPPED[self.serial] == 0, "element dropped twice");
            D_DROPPED[self.serial] = 1;
            D_DROPS += 1;
        }
    }
}
impl PartialEq for D {
    fn eq(&self, o: &D) -> bool {
        assert!(unsafe { D_DROPPED[self.serial] == 0 && D_DROPPED[o.serial] == 0 }, "compare reads a dropped element");
        self.id == o.id
    }
}
impl Eq for D {}
impl PartialOrd for D {
    fn partial_cmp(&self, o: &D) -> Option<Ordering> {
        Some(self.cmp(o))
    }
}
impl Ord for D {
    fn cmp(&self, o: &D) -> Ordering {
        self.id.cmp(&o.id)
    }
}
impl Hash for D {
    fn hash<H: Hasher>(&self, h: &mut H) {
        h.write_u8(self.id)
    }
}
fn d_reset() {
    unsafe {
        D_NEXT = 0;
        D_DROPS = 0;
        D_DROPPED = [0; MAXD];
    }
}
fn d_made() -> usize {
    unsafe { D_NEXT }
}
fn d_dropped_total() -> usize {
    unsafe { D_DROPS }
}

fn check_slice(c: &Cow<'_, [D]>, len: usize) {
    let s: &[D] = &**c;
    assert!(s.len() == len, "length reads back");
    let mut i = 0;
    while i < len {
        assert!(s[i].id == 10 + i as u8, "content reads back exactly");
        assert!(unsafe { D_DROPPED[s[i].serial] } == 0, "a live Cow never exposes a dropped element");
        i += 1;
    }
    assert!(c.as_ref().len() == len);
}

fn mk_slice<'a>(ctor: u8, src: &'a [D; 3], arc: &Arc<[D]>, len: usize) -> Cow<'a, [D]> {
    match ctor {
        0 => Cow::from_borrowed(&src[..len]),
        1 => Cow::const_slice(&src[..len]),
        2 => {
            // len < capacity
            let mut v = Vec::with_capacity(len + 1);
            let mut i = 0;
            while i < len {
                v.push(D::new(10 + i as u8));
                i += 1;
            }
            Cow::from_owned(v)
        }
        3 => Cow::from(src[..len].to_vec()), // From<Vec<T>>, capacity == len (empty => capacity 0 => borrowed-kind empty)
        4 => Cow::from_shared(arc.clone()),
        _ => Cow::from(arc.clone()), // From<Arc<[T]>>
    }
}

/// one step on (cur, other): 0 clone cur into other, 1 into_owned + wrap again, 2 drop cur, 3 swap
fn slice_step<'a>(op: u8, cur: &mut Option<Cow<'a, [D]>>, other: &mut Option<Cow<'a, [D]>>, len: usize, arc: &Arc<[D]>) {
    match op {
        0 => {
            if let Some(c) = &*cur {
                let (before, made) = (Arc::strong_count(arc), d_made());
                let d = c.clone();
                match c.metadata.kind() {
                    Kind::Shared => {
                        assert!(Arc::strong_count(arc) == before + 1, "clone of a shared value takes one reference");
                        assert!(d.ptr == c.ptr && d.metadata == c.metadata && d_made() == made);
                    }
                    Kind::Owned => {
                        assert!(Arc::strong_count(arc) == before);
                        assert!(d.ptr != c.ptr && d_made() == made + len, "deep copy: one clone per element");
                    }
                    Kind::Borrowed => {
                        assert!(Arc::strong_count(arc) == before);
                        assert!(d.ptr == c.ptr && d.metadata == c.metadata && d_made() == made);
                    }
                }
                check_slice(&d, len);
                assert!(*c == d);
                *other = Some(d); // a previous clone (if any) is dropped here
            }
        }
        1 => {
            if let Some(c) = cur.take() {
                let (before, made, dropped) = (Arc::strong_count(arc), d_made(), d_dropped_total());
                let (k, p, cp) = (c.metadata.kind(), c.ptr.as_ptr() as *const D, c.metadata.capacity());
                let v: Vec<D> = c.into_owned();
                assert!(v.len() == len);
                assert!(d_dropped_total() == dropped, "into_owned drops no element (we still hold `arc`)");
                match k {
                    Kind::Owned => {
                        assert!(v.as_ptr() == p && v.capacity() == cp && d_made() == made, "same allocation, no copy");
                        assert!(Arc::strong_count(arc) == before);
                    }
                    Kind::Shared => {
                        assert!(Arc::strong_count(arc) == before - 1, "into_owned gives the reference back");
                        assert!(d_made() == made + len);
                    }
                    Kind::Borrowed => {
                        assert!(Arc::strong_count(arc) == before);
                        assert!(d_made() == made + len);
                    }
                }
                *cur = Some(Cow::from_owned(v));
            }
        }
        2 => {
            if let Some(c) = cur.take() {
                let (before, dropped) = (Arc::strong_count(arc), d_dropped_total());
                let k = c.metadata.kind();
                drop(c);
                match k {
                    Kind::Owned => assert!(Arc::strong_count(arc) == before && d_dropped_total() == dropped + len),
                    Kind::Shared => assert!(Arc::strong_count(arc) == before - 1 && d_dropped_total() == dropped),
                    Kind::Borrowed => assert!(Arc::strong_count(arc) == before && d_dropped_total() == dropped),
                }
            }
        }
        _ => core::mem::swap(cur, other),
    }
    if cur.is_none() {
        *cur = other.take();
    }
    if let Some(c) = &*cur {
        check_slice(c, len);
    }
}

/// same continuation-passing exploration as `str_run`
fn slice_run<'a>(depth: usize, nops: usize, ops: [u8; 3], mut cur: Option<Cow<'a, [D]>>, mut other: Option<Cow<'a, [D]>>, src: &'a [D; 3], len: usize, arc: &Arc<[D]>) {
    if depth >= nops {
        if let Some(c) = &cur {
            check_slice(c, len);
            // all observers agree with the model
            let mc: Cow<'a, [D]> = Cow::const_slice(&src[..len]);
            assert!(*c == mc && c.cmp(&mc) == Ordering::Equal && c.partial_cmp(&mc) == Some(Ordering::Equal));
            assert!(dig(c) == dig(&src[..len]), "Hash of the Cow is the Hash of its content");
        }
        if let Some(c) = &other {
            check_slice(c, len);
        }
        kani::cover!(nops == 0 || (cur.is_some() && other.is_some()));
        kani::cover!(nops == 0 || cur.is_none());
        drop(cur);
        drop(other);
        // every Cow is gone: references given back; borrowed source and Arc content untouched and not dropped
        assert!(Arc::strong_count(arc) == 1, "every Arc reference taken is given back exactly once");
        let mut s = 0;
        while s < 3 + len {
            assert!(unsafe { D_DROPPED[s] } == 0, "dropping a Cow never drops borrowed or still-shared elements");
            s += 1;
        }
        // everything the Cows owned themselves (serials >= 3 + len) has been dropped exactly once
        assert!(d_dropped_total() == d_made() - (3 + len), "every owned element is dropped exactly once");
        return;
    }
    match ops[depth] {
        0 => {
            slice_step(0, &mut cur, &mut other, len, arc);
            slice_run(depth + 1, nops, ops, cur, other, src, len, arc)
        }
        1 => {
            slice_step(1, &mut cur, &mut other, len, arc);
            slice_run(depth + 1, nops, ops, cur, other, src, len, arc)
        }
        2 => {
            slice_step(2, &mut cur, &mut other, len, arc);
            slice_run(depth + 1, nops, ops, cur, other, src, len, arc)
        }
        _ => {
            slice_step(3, &mut cur, &mut other, len, arc);
            slice_run(depth + 1, nops, ops, cur, other, src, len, arc)
        }
    }
}

/// `ctor` and `len` are literals at every call site
fn slice_ops(ctor: u8, len: usize, ops: [u8; 3], nops: usize) {
    d_reset();
    {
        let src: [D; 3] = [D::new(10), D::new(11), D::new(12)]; // serials 0..2
        let arc: Arc<[D]> = {
            let mut v = Vec::new();
            let mut i = 0;
            while i < len {
                v.push(D::new(10 + i as u8)); // serials 3..3+len
                i += 1;
            }
            Arc::from(v)
        };
        assert!(d_dropped_total() == 0 && Arc::strong_count(&arc) == 1);
        let c = mk_slice(ctor, &src, &arc, len);
        let shared0 = ctor >= 4;
        assert!(is_shared(c.metadata.kind()) == shared0);
        assert!(ctor > 1 || is_borrowed(c.metadata.kind()));
        assert!(ctor != 2 || (is_owned(c.metadata.kind()) && c.metadata.capacity() > len));
        assert!(Arc::strong_count(&arc) == if shared0 { 2 } else { 1 });
        check_slice(&c, len);
        slice_run(0, nops, ops, Some(c), None, &src, len, &arc);
    }
    // the borrowed source and the Arc are gone as well: every element ever made has been dropped exactly once
    assert!(d_dropped_total() == d_made(), "every element is dropped exactly once");
}
/// `set` is a literal per harness (0: only 3 elements, 1: 0 or 1 element, 2: all, 3: only 0, 4: only 1), see str_content
fn slice_len(ctor: u8, len: usize, set: u8, ops: [u8; 3], nops: usize) {
    match len {
        0 if set == 1 || set == 2 || set == 3 => slice_ops(ctor, 0, ops, nops),
        1 if set == 1 || set == 2 || set == 4 => slice_ops(ctor, 1, ops, nops),
        3 if set == 0 || set == 2 => slice_ops(ctor, 3, ops, nops),
        _ => kani::assume(false),
    }
}
// construction class is fixed per harness (0 = borrowed ctors 0..1, 1 = owned ctors 2..3, 2 = shared ctors 4..5)
fn slice_class(class: u8, which: u8, len: usize, set: u8, ops: [u8; 3], nops: usize) {
    kani::assume((len <= 1 || len == 3) && which < 2 && ops[0] < NOPS && ops[1] < NOPS && ops[2] < NOPS);
    match (class, which) {
        (0, 0) => slice_len(0, len, set, ops, nops),
        (0, _) => slice_len(1, len, set, ops, nops),
        (1, 0) => slice_len(2, len, set, ops, nops),
        (1, _) => slice_len(3, len, set, ops, nops),
        (_, 0) => slice_len(4, len, set, ops, nops),
        (_, _) => slice_len(5, len, set, ops, nops),
    }
}

/// construct + read through every observer + drop, for every constructor and length (no intermediate operations)
pub fn c14_slice_read_body(ctor: u8, len: usize) {
    kani::assume(ctor < 6);
    slice_class(ctor / 2, ctor % 2, len, 2, [0, 0, 0], 0);
    kani::cover!(ctor == 5 && len == 3);
    kani::cover!(ctor == 3 && len == 0); // empty owned Vec: capacity 0, stored with the borrowed kind
}
#[cfg(kani)]
#[kani::proof]
#[kani::unwind(8)]
fn c14_slice_read() {
    c14_slice_read_body(kani::any(), kani::any());
}

// quick: 3 elements, all 16 two-step sequences; thorough (`_all`): also 0 and 1 element
pub fn c14_slice_borrowed_body(which: u8, op1: u8, op2: u8) {
    slice_class(0, which, 3, 0, [op1, op2, 0], 2);
}
#[cfg(kani)]
#[kani::proof]
#[kani::unwind(8)]
fn c14_slice_borrowed() {
    c14_slice_borrowed_body(kani::any(), kani::any(), kani::any());
}
pub fn c14_slice_borrowed_3ops_body(which: u8, op1: u8, op2: u8, op3: u8) {
    slice_class(0, which, 3, 0, [op1, op2, op3], 3);
}
#[cfg(kani)]
#[kani::proof]
#[kani::unwind(8)]
fn c14_slice_borrowed_3ops() {
    c14_slice_borrowed_3ops_body(kani::any(), kani::any(), kani::any(), kani::any());
}

pub fn c14_slice_borrowed_all_body(which: u8, len: usize, op1: u8, op2: u8) {
    kani::assume(len < 2);
    slice_class(0, which, len, 1, [op1, op2, 0], 2);
}
#[cfg(kani)]
#[kani::proof]
#[kani::unwind(8)]
fn c14_slice_borrowed_all() {
    c14_slice_borrowed_all_body(kani::any(), kani::any(), kani::any(), kani::any());
}

// quick: 3 elements, all 16 two-step sequences; thorough (`_all`): also 0 and 1 element
pub fn c14_slice_owned_body(which: u8, op1: u8, op2: u8) {
    slice_class(1, which, 3, 0, [op1, op2, 0], 2);
}
#[cfg(kani)]
#[kani::proof]
#[kani::unwind(8)]
fn c14_slice_owned() {
    c14_slice_owned_body(kani::any(), kani::any(), kani::any());
}
pub fn c14_slice_owned_3ops_body(which: u8, op1: u8, op2: u8, op3: u8) {
    slice_class(1, which, 3, 0, [op1, op2, op3], 3);
}
#[cfg(kani)]
#[kani::proof]
#[kani::unwind(8)]
fn c14_slice_owned_3ops() {
    c14_slice_owned_3ops_body(kani::any(), kani::any(), kani::any(), kani::any());
}

pub fn c14_slice_owned_all_body(which: u8, len: usize, op1: u8, op2: u8) {
    kani::assume(len < 2);
    slice_class(1, which, len, 1, [op1, op2, 0], 2);
}
#[cfg(kani)]
#[kani::proof]
#[kani::unwind(8)]
fn c14_slice_owned_all() {
    c14_slice_owned_all_body(kani::any(), kani::any(), kani::any(), kani::any());
}

// quick stand-in for the 0-element case of `c14_slice_owned_all`: an EMPTY owned vector that still owns a buffer
// (`Vec::with_capacity(1)`, nothing pushed: kind Owned, len 0, capacity 1) through all 16 two-step sequences -- a clone must get
// its own buffer (or none), never alias the original's.
pub fn c14_slice_owned_empty_body(which: u8, op1: u8, op2: u8) {
    slice_class(1, which, 0, 1, [op1, op2, 0], 2);
}
#[cfg(kani)]
#[kani::proof]
#[kani::unwind(8)]
fn c14_slice_owned_empty() {
    c14_slice_owned_empty_body(kani::any(), kani::any(), kani::any());
}

// Shared slices of an OVER-ALIGNED element type: the reference counts of an `Arc<[T]>` sit at an offset from the data that depends on
// `align_of::<T>()`, so count handling must go through the real `Arc<[T]>` type, whatever T is. (The drop-recording element `D`
// above has alignment 8; this one has 32.)
#[repr(align(32))]
#[derive(Clone, PartialEq, Eq, PartialOrd, Ord, Hash)]
pub struct A32(pub u8);
pub fn c14_slice_shared_overaligned_body(steps: u8) {
    kani::assume(steps < 4);
    let arc: Arc<[A32]> = Arc::from(vec![A32(7)]);
    assert!(Arc::strong_count(&arc) == 1);
    let c: Cow<'static, [A32]> = Cow::from_shared(arc.clone());
    assert!(Arc::strong_count(&arc) == 2, "from_shared keeps the reference it was given");
    if steps >= 1 {
        let d = c.clone();
        assert!(Arc::strong_count(&arc) == 3, "clone of a shared value takes exactly one more reference");
        assert!(d[0].0 == 7 && d.len() == 1);
        if steps >= 2 {
            let e = d.clone();
            assert!(Arc::strong_count(&arc) == 4);
            drop(e);
            assert!(Arc::strong_count(&arc) == 3);
        }
        drop(d);
        assert!(Arc::strong_count(&arc) == 2, "dropping the clone gives its reference back");
    }
    if steps == 3 {
        let v = c.into_owned();
        assert!(v.len() == 1 && v[0].0 == 7);
        assert!(Arc::strong_count(&arc) == 1, "into_owned of a shared value releases its reference");
    } else {
        drop(c);
        assert!(Arc::strong_count(&arc) == 1, "all references returned: the caller's Arc is the only owner again");
    }
    kani::cover!(steps == 2);
}
#[cfg(kani)]
#[kani::proof]
#[kani::unwind(4)]
fn c14_slice_shared_overaligned() {
    c14_slice_shared_overaligned_body(kani::any());
}

// Two values that START at the same address are not the same value: `==`, `cmp`, `partial_cmp` of two Cow<str> borrowed from one
// buffer with different lengths must follow the CONTENT (C03 relies on this for SharedString / KeyName / Label).
pub fn c14_str_alias_eq_body(la: usize, lb: usize, ka: bool, kb: bool) {
    kani::assume(la <= 3 && lb <= 3);
    static S: &str = "abc";
    let a: Cow<'static, str> = if ka { Cow::from_borrowed(&S[..la]) } else { Cow::const_str(&S[..la]) };
    let b: Cow<'static, str> = if kb { Cow::from_borrowed(&S[..lb]) } else { Cow::const_str(&S[..lb]) };
    let same = la == lb;
    assert!((a == b) == same, "== compares content, not the start address");
    assert!((a.cmp(&b) == Ordering::Equal) == same, "cmp == Equal exactly on equal content");
    assert!(a.partial_cmp(&b) == Some(a.cmp(&b)));
    assert!((a == b) == (*a == *b), "== agrees with the dereferenced strings");
    kani::cover!(la == 0 && lb == 3);
    kani::cover!(la == 2 && lb == 2);
}
#[cfg(kani)]
#[kani::proof]
#[kani::unwind(6)]
fn c14_str_alias_eq() {
    c14_str_alias_eq_body(kani::any(), kani::any(), kani::any(), kani::any());
}

// quick: 3 elements, all 16 two-step sequences; thorough (`_all`): also 0 and 1 element
pub fn c14_slice_shared_body(which: u8, op1: u8, op2: u8) {
    slice_class(2, which, 3, 0, [op1, op2, 0], 2);
}
#[cfg(kani)]
#[kani::proof]
#[kani::unwind(8)]
fn c14_slice_shared() {
    c14_slice_shared_body(kani::any(), kani::any(), kani::any());
}
pub fn c14_slice_shared_3ops_body(which: u8, op1: u8, op2: u8, op3: u8) {
    slice_class(2, which, 3, 0, [op1, op2, op3], 3);
}
#[cfg(kani)]
#[kani::proof]
#[kani::unwind(8)]
fn c14_slice_shared_3ops() {
    c14_slice_shared_3ops_body(kani::any(), kani::any(), kani::any(), kani::any());
}

// 1 element only: two-step sequences on an EMPTY Arc<[T]> exceed 12 GB in CBMC (measured twice); the empty shared slice
// is covered by c14_slice_read (construct / read / drop) only.
pub fn c14_slice_shared_all_body(which: u8, op1: u8, op2: u8) {
    slice_class(2, which, 1, 4, [op1, op2, 0], 2);
}
#[cfg(kani)]
#[kani::proof]
#[kani::unwind(8)]
fn c14_slice_shared_all() {
    c14_slice_shared_all_body(kani::any(), kani::any(), kani::any());
}
// Send / Sync: the `unsafe impl`s are bounded by T: Send / T: Sync; this only pins down that the two instantiations the
// crate uses are Send + Sync (compile-time); dropping on another thread is not modelled by Kani (no threads).
fn _assert_send_sync<T: Send + Sync>() {}
fn _static_send_sync() {
    _assert_send_sync::<Cow<'static, str>>();
    _assert_send_sync::<Cow<'static, [crate::Label]>>();
}

