LEAK = ["-Z", "unstable-options", "--cbmc-args", "--memory-leak-check"]   # must stay last: --cbmc-args takes the rest


def H(name, clause, kind="complete", tier="quick", timeout=600, replay=True, covers=0, module=None, **kw):
    d = dict(name=name, obligation=f"C14/kani/{name}", clause=clause, kind=kind, tier=tier, timeout=timeout, replay=replay, covers=covers)
    if module: d["module"] = module
    d.update(kw)
    return d


STEPS = "steps drawn from {clone, into_owned + from_owned again, drop, swap}; after every step the live values are read back"
SEQ_STR = ("content reads back after every step; clone: shared => same pointer and strong count + 1, owned => fresh allocation, borrowed => bit copy; "
           "into_owned: owned => the SAME allocation (pointer, capacity) comes back, shared => reference given back; drop: shared => count - 1; "
           "at the end the Arc strong count is back to 1; no leak (CBMC memory-leak check), no use-after-free / double free / out-of-bounds (CBMC pointer checks)")
SEQ_SLICE = SEQ_STR + "; element accounting: clones made exactly when a deep copy is due, every owned element dropped exactly once, borrowed / still-shared elements never dropped"


def seq(ty, cls, what, bound, tier="quick", suffix="", timeout=600):
    return H(f"c14_{ty}_{cls}{suffix}", f"{ty} built {what}: " + (SEQ_STR if ty == "str" else SEQ_SLICE), kind="bounded",
             bound=bound + "; " + STEPS, covers=2, tier=tier, timeout=timeout, args=LEAK)


PLAN = {
    "property": "C14",
    "level": "model_checking",
    "manifest": {
        "technique": "Kani/CBMC: complete (full-domain, loop-free) contracts for Metadata::kind, Cow::from_owned's capacity guard and the generic Cow<T> plumbing against a call-counting Cowable double; bounded model checking of every operation sequence of length <= 2 (quick) / 3 (thorough) on the real Cowable for str and Cowable for [T] (T with a drop-recording destructor), with CBMC's pointer checks and --memory-leak-check as obligations",
        "text": "Complete: Metadata::kind is Shared <=> cap == usize::MAX, Borrowed <=> cap == 0, else Owned, for all (len, cap); Cow::from_owned panics exactly when capacity == usize::MAX (also through a real Vec<()>); the generic Cow<T> code (from_borrowed / from_owned / from_shared, clone, deref, into_owned, into std::borrow::Cow, drop) hands every set of raw parts to exactly one of {owned_from_parts, drop_from_parts} -- never none (leak) and never both (double free) -- for all metadata and all 2-step sequences.  Bounded: on the real str and [T] implementations every sequence of <= 2 (thorough: 3) steps from {clone, into_owned + re-wrap, drop, swap} after each of the 8 (str) / 6 (slice) constructors reads back exactly the model content through every observer (deref, as_ref, borrow, ==, cmp, partial_cmp, Hash), returns Arc strong counts to their initial value, drops each owned element exactly once and never a borrowed / shared one, hands back the same allocation from into_owned of an owned value, passes CBMC's dereference / bounds / double-free checks and ends with no dynamically allocated memory left (memory-leak check).  The decisive ownership obligations on the real impls are bounded => model_checking.",
        "note": "Bounds: str content in {'', 'a', 'a\\u00e9'}, slices of 0 / 1 / 3 elements, capacity == len, len + 1 or grown, sequences of <= 2 steps (quick) / 3 steps (thorough, non-empty content); empty Arc<[T]>: construct / read / drop only (two-step sequences exceed CBMC's 12 GB limit).  Send / Sync: only the compile-time fact that Cow<'static, str> and Cow<'static, [Label]> are Send + Sync is pinned; dropping on another thread is not modelled (Kani has no threads) -- the `unsafe impl`s are bounded by T: Send / T: Sync, checked by inspection.  `From<Cow<'a, T>> for std::borrow::Cow<'a, T>` requires T: Sized, so it cannot be instantiated with str or [T] (the only Cowable impls); it is exercised through a Sized test double.  Arc::increment_strong_count overflow (> isize::MAX clones) aborts in std, not modelled.",
    },
    "min_obligations": {"quick": 6, "thorough": 6},
    "assumptions": [
        "std's Vec / String / Arc raw-parts APIs behave as documented (from_raw_parts, into_raw, from_raw, increment_strong_count); they are executed by CBMC from the real std source, not stubbed",
        "bounded part: str content in {'', 'a', 'a\\u00e9'}; slice lengths 0, 1, 3; capacity == len, len + 1 or grown; operation sequences of <= 2 steps (quick), 3 steps (thorough); longer sequences follow informally because each step re-establishes the same representation invariant (kind / pointer / len / capacity describe a live allocation or Arc reference owned by exactly one Cow)",
        "the generic-plumbing harnesses use a Sized Cowable test double (`Fake`) whose *_into_parts / *_from_parts only count calls: they check Cow<T>'s own code, which is generic in T",
        "threads: sending to / dropping on another thread is not modelled; Send/Sync impls are conditional on T: Send/Sync (inspection); Cow<'static, str> and Cow<'static, [Label]> are asserted Send + Sync at compile time",
        "panic = failure; unwinding (a panic in T::clone during a deep copy) is not modelled",
        "the memory-leak obligation is CBMC's --memory-leak-check (passed through `-Z unstable-options --cbmc-args`)",
    ],
    "kani": [{
        "crate": "metrics",
        "parallel": 4,
        "modules": [
            {"file": "metrics/src/cow.rs", "mod": "__verif_c14", "src": "cow.kani.rs"},
        ],
        "functions": [
            {"item": "Metadata::{kind, len, capacity, borrowed, owned, shared}", "file": "metrics/src/cow.rs"},
            {"item": "Cow::{from_parts, from_owned, from_shared, from_borrowed, const_str, const_slice, into_owned}", "file": "metrics/src/cow.rs"},
            {"item": "<Cow as Deref>::deref, <Cow as Clone>::clone, <Cow as Drop>::drop, Hash / PartialEq / PartialOrd / Ord / AsRef / Borrow for Cow", "file": "metrics/src/cow.rs"},
            {"item": "From<&T>, From<Arc<T>>, From<String>, From<Vec<T>>, From<std::borrow::Cow<str>> for Cow; From<Cow<T>> for std::borrow::Cow<T>", "file": "metrics/src/cow.rs"},
            {"item": "<str as Cowable>::{borrowed_into_parts, owned_into_parts, shared_into_parts, borrowed_from_parts, owned_from_parts, clone_from_parts, drop_from_parts}", "file": "metrics/src/cow.rs"},
            {"item": "<[T] as Cowable>::{borrowed_into_parts, owned_into_parts, shared_into_parts, borrowed_from_parts, owned_from_parts, clone_from_parts, drop_from_parts}, clone_shared", "file": "metrics/src/cow.rs"},
        ],
        "harnesses": [
            # ---- complete
            H("c14_metadata_kind", "Shared <=> cap == MAX, Borrowed <=> cap == 0, else Owned, for all (len, cap); constructors produce the advertised kind/len", covers=3),
            H("c14_from_owned_accepts", "from_owned keeps any parts with cap != MAX unchanged, creates one set of parts and releases it exactly once on drop, for all (len, cap)", covers=2),
            H("c14_from_owned_rejects_max", "from_owned panics when capacity == usize::MAX (symbolic len: should_panic is existential, the two Vec<()> harnesses pin len 0 and 5)", replay=False, should_panic=True),
            H("c14_from_owned_rejects_zst_vec", "from_owned(Vec<()>) (real capacity usize::MAX) panics", replay=False, should_panic=True),
            H("c14_from_owned_rejects_zst_vec5", "from_owned(vec![(); 5]) panics (guard independent of len)", replay=False, should_panic=True),
            H("c14_generic_release_once", "for every constructor and every 2-step sequence of {clone, into_owned, into std Cow, drop, deref} the generic code passes each set of parts to exactly one of owned_from_parts / drop_from_parts; created == released at the end, for all metadata", covers=2, args=LEAK),
            # ---- bounded, real str / [T]
            H("c14_str_read", "every str constructor (from_borrowed, const_str, From<std Cow> x2, From<String>, with_capacity, grown, from_shared, From<Arc>) x content: deref / as_ref / borrow / == / cmp / partial_cmp / Hash agree with the model; drop restores the Arc count",
              kind="bounded", bound="content in {'', 'a', 'a\\u00e9'}; no intermediate steps", covers=3, args=LEAK),
            H("c14_slice_read", "every slice constructor (from_borrowed, const_slice, with_capacity, From<Vec>, from_shared, From<Arc>) x len: reads back, observers agree, element accounting exact",
              kind="bounded", bound="len in {0, 1, 3}; no intermediate steps", covers=4, args=LEAK),
            seq("str", "borrowed", "from a borrow (3 ctors)", "content 'a\\u00e9'; all 16 two-step sequences"),
            seq("str", "owned", "from an owned String (capacity == len, len + 1, grown)", "content 'a\\u00e9'; all 16 two-step sequences"),
            seq("str", "shared", "from an Arc<str> (2 ctors)", "content 'a\\u00e9'; all 16 two-step sequences"),
            seq("slice", "borrowed", "from a borrowed slice (2 ctors)", "3 elements; all 16 two-step sequences"),
            seq("slice", "owned", "from an owned Vec (capacity == len, len + 1)", "3 elements; all 16 two-step sequences"),
            seq("slice", "shared", "from an Arc<[T]> (2 ctors)", "3 elements; all 16 two-step sequences"),
            seq("slice", "owned", "from an EMPTY owned Vec that still owns a buffer (len 0, capacity 1)", "0 elements; all 16 two-step sequences", "quick", "_empty", 900),
            H("c14_slice_shared_overaligned", "Arc<[T]> with align_of::<T>() == 32 (counts at a different offset from the data): from_shared / clone / drop / into_owned keep the strong count exact", kind="bounded", bound="one element, <= 2 clones", covers=1, timeout=900, args=LEAK),
            H("c14_str_alias_eq", "two Cow<str> borrowed from one buffer with lengths la, lb <= 3: ==, cmp == Equal, partial_cmp follow the content (equal iff la == lb), not the start address", kind="bounded", bound="prefixes of \"abc\", both borrowed constructors", covers=2),
            # ---- thorough
            seq("str", "borrowed", "from a borrow", "content in {'', 'a'}; all 16 two-step sequences", "thorough", "_all", 900),
            seq("str", "owned", "from an owned String", "content in {'', 'a'}; all 16 two-step sequences", "thorough", "_all", 900),
            seq("str", "shared", "from an Arc<str>", "content in {'', 'a'}; all 16 two-step sequences", "thorough", "_all", 900),
            seq("slice", "borrowed", "from a borrowed slice", "0 or 1 element; all 16 two-step sequences", "thorough", "_all", 900),
            seq("slice", "owned", "from an owned Vec", "0 or 1 element; all 16 two-step sequences", "thorough", "_all", 900),
            seq("slice", "shared", "from an Arc<[T]>", "1 element; all 16 two-step sequences", "thorough", "_all", 900),
            seq("str", "borrowed", "from a borrow", "content 'a\\u00e9'; all 64 three-step sequences", "thorough", "_3ops", 900),
            seq("str", "owned", "from an owned String", "content 'a\\u00e9'; all 64 three-step sequences", "thorough", "_3ops", 900),
            seq("str", "shared", "from an Arc<str>", "content 'a\\u00e9'; all 64 three-step sequences", "thorough", "_3ops", 900),
            seq("slice", "borrowed", "from a borrowed slice", "3 elements; all 64 three-step sequences", "thorough", "_3ops", 900),
            seq("slice", "owned", "from an owned Vec", "3 elements; all 64 three-step sequences", "thorough", "_3ops", 900),
            seq("slice", "shared", "from an Arc<[T]>", "3 elements; all 64 three-step sequences", "thorough", "_3ops", 900),
        ],
    }],
}
