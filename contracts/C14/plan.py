def H(name, clause, kind="complete", tier="quick", timeout=600, replay=True, covers=0, module=None, **kw):
    d = dict(name=name, obligation=f"C14/kani/{name}", clause=clause, kind=kind, tier=tier, timeout=timeout, replay=replay, covers=covers)
    if module: d["module"] = module
    d.update(kw)
    return d

PLAN = {
    "property": "C14",
    "level": "model_checking",
    "manifest": {"technique": "draft", "text": "draft", "note": "draft"},
    "min_obligations": {"quick": 0, "thorough": 0},
    "assumptions": [],
    "kani": [{
        "crate": "metrics",
        "parallel": 4,
        "modules": [
            {"file": "metrics/src/cow.rs", "mod": "__verif_c14", "src": "cow.kani.rs"},
        ],
        "functions": [],
        "harnesses": [
            H("c14_metadata_kind", "Shared <=> cap == MAX, Borrowed <=> cap == 0, else Owned, for all (len, cap)", covers=3),
            H("c14_from_owned_accepts", "from_owned keeps any parts with cap != MAX unchanged and releases them once", covers=2),
            H("c14_from_owned_rejects_max", "from_owned panics when cap == MAX", replay=False),
            H("c14_from_owned_rejects_zst_vec", "from_owned(Vec<()>) panics", replay=False),
            H("c14_generic_release_once", "generic paths release each set of parts exactly once", covers=2),
            H("c14_str_borrowed", "str borrowed", kind="bounded", bound="len<=3, 3 ops", covers=2),
            H("c14_str_owned", "str owned", kind="bounded", bound="len<=3, cap<=4, 2 ops", covers=2),
            H("c14_str_shared", "str shared", kind="bounded", bound="len<=3, 2 ops", covers=2),
        ],
    }],
}
