// C15 -- Verus contracts for the override precedence of metrics-exporter-prometheus: Matcher::matches (common.rs) and
// DistributionBuilder::{new (the collect+sort closure, lifted), get_distribution, get_distribution_type} (distribution.rs).
// Unbounded in the number of overrides and in every string.  //@ITEM blocks are replaced on every run by the item's text taken
// verbatim from /repo's working tree.
//
// Property clause: "A histogram name is exposed as a Prometheus histogram exactly when buckets apply to it, chosen as
// full-name override first, then prefix, then suffix override, then global buckets, and otherwise as a summary".
#![feature(allocator_api)]
#![allow(unused_imports, dead_code, unused_variables, unused_mut, unused_assignments)]
use vstd::prelude::*;
use std::collections::HashMap;
use std::sync::Arc;
use core::cmp::Ordering;

verus! {

global size_of usize == 8;

//@INCLUDE prelude/std_extra.rs

// ------------------------------------------------------------------ dependency stubs (ASSUMED specs)
#[derive(Clone, Copy)]
pub struct Duration { pub n: u64 }
/// std::num::NonZeroU32 (only passed through here)
#[derive(Clone, Copy)]
pub struct NonZeroU32 { pub v: u32 }
#[verifier::external_body] pub struct Quantile { _p: [u8; 0] }

pub open spec fn default_count() -> NonZeroU32 { NonZeroU32 { v: 3 } }
pub const DEFAULT_SUMMARY_BUCKET_COUNT: NonZeroU32 = NonZeroU32 { v: 3 };
pub const DEFAULT_SUMMARY_BUCKET_DURATION: Duration = Duration { n: 20_000_000_000 };

/// metrics_util::storage::Histogram: only its constructor matters here (None iff no bounds; the bounds are kept).
/// Checked on the real code by the Kani harness c15_new_contract.
#[verifier::external_body] pub struct Histogram { _p: [u8; 0] }
impl Histogram {
    pub uninterp spec fn bounds(&self) -> Seq<f64>;
    #[verifier::external_body]
    pub fn new(buckets: &[f64]) -> (r: Option<Histogram>)
        ensures (r is None) == (buckets@.len() == 0), r is Some ==> r->Some_0.bounds() == buckets@,
    { unimplemented!() }
}
/// RollingSummary::new is under its own contract in rolling.verus.rs; here only its arguments are observed
#[verifier::external_body] pub struct RollingSummary { _p: [u8; 0] }
impl RollingSummary {
    pub uninterp spec fn cfg(&self) -> (NonZeroU32, Duration);
    #[verifier::external_body]
    pub fn new(buckets: NonZeroU32, bucket_duration: Duration) -> (r: RollingSummary)
        requires bucket_duration.n > 0,
        ensures r.cfg() == (buckets, bucket_duration),
    { unimplemented!() }
}

// str predicates over the character sequences (std semantics ASSUMED for the three shims; the real Matcher::matches is also
// run on literal strings by the Kani harness c15_matcher_matches)
pub open spec fn starts_with(s: Seq<char>, p: Seq<char>) -> bool { p.is_prefix_of(s) }
pub open spec fn ends_with(s: Seq<char>, p: Seq<char>) -> bool { p.is_suffix_of(s) }
#[verifier::external_body]
pub fn shim_starts_with(s: &str, p: &String) -> (r: bool) ensures r == starts_with(s@, p@) { s.starts_with(p.as_str()) }
#[verifier::external_body]
pub fn shim_ends_with(s: &str, p: &String) -> (r: bool) ensures r == ends_with(s@, p@) { s.ends_with(p.as_str()) }
#[verifier::external_body]
pub fn shim_str_eq(s: &str, p: &String) -> (r: bool) ensures r == (s@ == p@) { s == p }

// ------------------------------------------------------------------ the real items
//@ITEM file=metrics-exporter-prometheus/src/common.rs sel=enum Matcher
//@END

/// the property's precedence: full-name override first, then prefix, then suffix
pub open spec fn rank(m: Matcher) -> int {
    match m { Matcher::Full(_) => 0, Matcher::Prefix(_) => 1, Matcher::Suffix(_) => 2 }
}
pub open spec fn matches_spec(m: Matcher, name: Seq<char>) -> bool {
    match m {
        Matcher::Full(f) => name == f@,
        Matcher::Prefix(p) => starts_with(name, p@),
        Matcher::Suffix(x) => ends_with(name, x@),
    }
}
/// derived `Ord` on Matcher (variant order, then the pattern): ASSUMED here, checked on the real derive by Kani c15_matcher_order
pub uninterp spec fn pattern_cmp(a: Seq<char>, b: Seq<char>) -> Ordering;
pub open spec fn pattern_of(m: Matcher) -> Seq<char> {
    match m { Matcher::Full(f) => f@, Matcher::Prefix(p) => p@, Matcher::Suffix(x) => x@ }
}
pub open spec fn matcher_cmp(a: Matcher, b: Matcher) -> Ordering {
    if rank(a) < rank(b) { Ordering::Less } else if rank(a) > rank(b) { Ordering::Greater } else { pattern_cmp(pattern_of(a), pattern_of(b)) }
}
impl Matcher {
    #[verifier::external_body]
    pub fn cmp(&self, other: &Matcher) -> (r: Ordering) ensures r == matcher_cmp(*self, *other) { unimplemented!() }

//@ITEM file=metrics-exporter-prometheus/src/common.rs sel=impl Matcher :: fn matches ret=r
//@REWRITE R36 re:key\.starts_with\((\w+)\) ==> shim_starts_with(key, \1)
//@REWRITE R36 re:key\.ends_with\((\w+)\) ==> shim_ends_with(key, \1)
//@REWRITE R36 re:key == (\w+)\b ==> shim_str_eq(key, \1)
//@SPEC
    ensures r == matches_spec(*self, key@),
//@END
}

//@ITEM file=metrics-exporter-prometheus/src/distribution.rs sel=enum Distribution
//@END

impl Distribution {
//@ITEM file=metrics-exporter-prometheus/src/distribution.rs sel=impl Distribution :: fn new_histogram ret=r
//@SPEC
    requires buckets@.len() > 0,
    ensures r matches Distribution::Histogram(h) && h.bounds() == buckets@,
//@END
//@ITEM file=metrics-exporter-prometheus/src/distribution.rs sel=impl Distribution :: fn new_summary ret=r
//@SPEC
    requires bucket_duration.n > 0,
    ensures r matches Distribution::Summary(s, q, sum) && s.cfg() == (bucket_count, bucket_duration) && q == quantiles,
//@END
}

//@ITEM file=metrics-exporter-prometheus/src/distribution.rs sel=struct DistributionBuilder
//@END

type Override = (Matcher, Vec<f64>);

/// index of the first override in list order that matches `name` (len if none)
spec fn first_match(ov: Seq<Override>, name: Seq<char>, from: int) -> int
    decreases ov.len() - from
{
    if from >= ov.len() { ov.len() as int } else if matches_spec(ov[from].0, name) { from } else { first_match(ov, name, from + 1) }
}
/// the list is ordered by the property's precedence
spec fn by_rank(ov: Seq<Override>) -> bool {
    forall|i: int, j: int| 0 <= i < j < ov.len() ==> rank(#[trigger] ov[i].0) <= rank(#[trigger] ov[j].0)
}
proof fn lemma_first_match(ov: Seq<Override>, name: Seq<char>, from: int)
    requires 0 <= from <= ov.len(),
    ensures
        from <= first_match(ov, name, from) <= ov.len(),
        first_match(ov, name, from) < ov.len() ==> matches_spec(ov[first_match(ov, name, from)].0, name),
        forall|k: int| from <= k < first_match(ov, name, from) ==> !matches_spec(#[trigger] ov[k].0, name),
    decreases ov.len() - from
{
    if from < ov.len() && !matches_spec(ov[from].0, name) { lemma_first_match(ov, name, from + 1); }
}
/// "full-name override first, then prefix, then suffix": in a list ordered by rank the first match has the least rank among
/// all matching overrides
proof fn lemma_precedence(ov: Seq<Override>, name: Seq<char>)
    requires by_rank(ov),
    ensures forall|k: int| 0 <= k < ov.len() && matches_spec(#[trigger] ov[k].0, name)
                ==> first_match(ov, name, 0) <= k && rank(ov[first_match(ov, name, 0)].0) <= rank(ov[k].0),
{
    lemma_first_match(ov, name, 0);
}

impl DistributionBuilder {
    /// configuration invariant kept by PrometheusBuilder (EmptyBucketsOrQuantiles / ZeroBucketDuration are rejected there)
    spec fn wf(&self) -> bool {
        &&& (self.buckets matches Some(b) ==> b@.len() > 0)
        &&& (self.bucket_overrides matches Some(ov) ==> by_rank(ov@) && forall|i: int| 0 <= i < ov@.len() ==> (#[trigger] ov@[i]).1@.len() > 0)
        &&& (self.bucket_duration matches Some(d) ==> d.n > 0)
    }
    spec fn chosen(&self, name: Seq<char>) -> Option<Seq<f64>> {
        if self.bucket_overrides is Some && first_match(self.bucket_overrides->Some_0@, name, 0) < self.bucket_overrides->Some_0@.len() {
            Some(self.bucket_overrides->Some_0@[first_match(self.bucket_overrides->Some_0@, name, 0)].1@)
        } else if self.buckets is Some { Some(self.buckets->Some_0@) } else { None }
    }

//@ITEM file=metrics-exporter-prometheus/src/distribution.rs sel=impl DistributionBuilder :: fn get_distribution ret=r
//@REWRITE SPEC-closure self.bucket_duration.map_or(DEFAULT_SUMMARY_BUCKET_DURATION, |d| d) ==> self.bucket_duration.map_or(DEFAULT_SUMMARY_BUCKET_DURATION, |d: Duration| -> (o: Duration) ensures o == d { d })
//@REWRITE SPEC-closure self.bucket_count.map_or(DEFAULT_SUMMARY_BUCKET_COUNT, |c| c) ==> self.bucket_count.map_or(DEFAULT_SUMMARY_BUCKET_COUNT, |c: NonZeroU32| -> (o: NonZeroU32) ensures o == c { c })
//@SPEC
    requires self.wf(),
    ensures
        // exposed as a histogram exactly when buckets apply: first matching override in precedence order, else the global buckets
        self.chosen(name@) matches Some(b) ==> (r matches Distribution::Histogram(h) && h.bounds() == b),
        self.chosen(name@) is None ==> (r matches Distribution::Summary(s, q, sum) && s.cfg() == (
            (if self.bucket_count is Some { self.bucket_count->Some_0 } else { default_count() }),
            (if self.bucket_duration is Some { self.bucket_duration->Some_0 } else { Duration { n: 20_000_000_000 } }))),
//@FORLOOP 1 it1 shim_slice_into shim_slice_next
//@LOOP 1
    invariant
        self.wf(), self.bucket_overrides == Some(*overrides),
        0 <= k <= overrides@.len(), sl_remaining(&it1) == overrides@.skip(k), first_match(overrides@, name@, 0) == first_match(overrides@, name@, k),
    ensures sl_remaining(&it1).len() == 0,
    decreases sl_remaining(&it1).len()
//@BEFORE 1 for (matcher,
        let ghost mut k: int = 0;
//@BEFORE 1 if matcher.matches(name)
        proof { assert(overrides@.skip(k)[0] == overrides@[k]); }
//@LOOPEND 1
        proof { assert(overrides@.skip(k).skip(1) =~= overrides@.skip(k + 1)); k = k + 1; }
//@AFTERLOOP 1
        proof { assert(k == overrides@.len()); }
//@END

//@ITEM file=metrics-exporter-prometheus/src/distribution.rs sel=impl DistributionBuilder :: fn get_distribution_type ret=r
//@SPEC
    ensures
        (self.buckets is Some || (self.bucket_overrides is Some && first_match(self.bucket_overrides->Some_0@, name@, 0) < self.bucket_overrides->Some_0@.len()))
            ==> r == "histogram",
        !(self.buckets is Some || (self.bucket_overrides is Some && first_match(self.bucket_overrides->Some_0@, name@, 0) < self.bucket_overrides->Some_0@.len()))
            ==> r == "summary",
//@FORLOOP 1 it1 shim_slice_into shim_slice_next
//@LOOP 1
    invariant
        self.bucket_overrides == Some(*overrides), self.buckets is None,
        0 <= k <= overrides@.len(), sl_remaining(&it1) == overrides@.skip(k), first_match(overrides@, name@, 0) == first_match(overrides@, name@, k),
    ensures sl_remaining(&it1).len() == 0,
    decreases sl_remaining(&it1).len()
//@BEFORE 1 for (matcher,
        let ghost mut k: int = 0;
//@BEFORE 1 if matcher.matches(name)
        proof { assert(overrides@.skip(k)[0] == overrides@[k]); }
//@LOOPEND 1
        proof { assert(overrides@.skip(k).skip(1) =~= overrides@.skip(k + 1)); k = k + 1; }
//@AFTERLOOP 1
        proof { assert(k == overrides@.len()); }
//@END
}

// DistributionBuilder::new: the closure handed to `bucket_overrides.map(..)` (collect the map's entries, sort them) is lifted
// (R29) and verified as a function.  std contracts ASSUMED: collecting a map yields each entry once (map_entries), sort_by
// returns a permutation in which no earlier element compares Greater than a later one.
pub mod ent_axioms {
    use vstd::prelude::*;
    pub uninterp spec fn map_entries<K, V>(m: &std::collections::HashMap<K, V>) -> Seq<(K, V)>;
}
pub use ent_axioms::map_entries;
#[verifier::external_body]
fn shim_collect_entries(m: HashMap<Matcher, Vec<f64>>) -> (r: Vec<Override>)
    ensures r@ == map_entries(&m),
{ unimplemented!() }
/// some run of the comparator on (a, b) does not answer Greater
spec fn not_greater<F: FnMut(&Override, &Override) -> Ordering>(f: F, a: Override, b: Override) -> bool {
    exists|o: Ordering| #[trigger] f.ensures((&a, &b), o) && o != Ordering::Greater
}
#[verifier::external_body]
fn shim_sort_by<F: FnMut(&Override, &Override) -> Ordering>(v: &mut Vec<Override>, f: F)
    requires forall|a: &Override, b: &Override| #[trigger] f.requires((a, b)),
    ensures
        final(v)@.to_multiset() == old(v)@.to_multiset(),
        forall|i: int, j: int| #![trigger final(v)@[i], final(v)@[j]] 0 <= i < j < final(v)@.len() ==> not_greater(f, final(v)@[i], final(v)@[j]),
{ unimplemented!() }

//@ITEM file=metrics-exporter-prometheus/src/distribution.rs sel=impl DistributionBuilder :: fn new lift_after=bucket_overrides.map(|entries| as=fn sort_overrides(entries: HashMap<Matcher, Vec<f64>>) -> Vec<(Matcher, Vec<f64>)> ret=r
//@REWRITE R37 entries.into_iter().collect::<Vec<_>>() ==> shim_collect_entries(entries)
//@REWRITE R38? re:\.then_with\(\|\| ((?:[^()]|\([^()]*\))+?)\) ==> .then(\1)
//@REWRITE SPEC-closure re:(?s)matchers\.sort_by\(\|a, b\| (.+?)\); ==> shim_sort_by(&mut matchers, |a: &Override, b: &Override| -> (o: Ordering) ensures (rank(a.0) < rank(b.0) ==> o == Ordering::Less) && (rank(a.0) > rank(b.0) ==> o == Ordering::Greater) { \1 });
//@SPEC
    ensures
        // the list get_distribution walks is ordered by the property's precedence (full, then prefix, then suffix) ...
        by_rank(r@),
        // ... and holds exactly the configured overrides
        r@.to_multiset() == map_entries(&entries).to_multiset(),
//@END

/// type string and distribution agree: "exposed as a Prometheus histogram exactly when buckets apply to it"
proof fn lemma_type_agrees(b: DistributionBuilder, name: Seq<char>)
    ensures (b.chosen(name) is Some) <==> (b.buckets is Some || (b.bucket_overrides is Some && first_match(b.bucket_overrides->Some_0@, name, 0) < b.bucket_overrides->Some_0@.len())),
{}

// typed iteration over `&Vec<(Matcher, Vec<f64>)>` (R2): yields references to the elements in order, each once (std contract, ASSUMED)
pub mod sl_axioms {
    use vstd::prelude::*;
    pub uninterp spec fn sl_remaining<T>(it: &core::slice::Iter<'_, T>) -> Seq<T>;
}
pub use sl_axioms::sl_remaining;
#[verifier::external_body]
pub fn shim_slice_into<'a, T>(v: &'a Vec<T>) -> (r: core::slice::Iter<'a, T>)
    ensures sl_remaining(&r) == v@,
{ v.iter() }
#[verifier::external_body]
pub fn shim_slice_next<'a, T>(it: &mut core::slice::Iter<'a, T>) -> (r: Option<&'a T>)
    ensures match r {
        Some(x) => sl_remaining(old(it)).len() > 0 && *x == sl_remaining(old(it))[0] && sl_remaining(final(it)) == sl_remaining(old(it)).skip(1),
        None => sl_remaining(old(it)).len() == 0 && sl_remaining(final(it)) == sl_remaining(old(it)),
    },
{ it.next() }

} // verus!
fn main() {}
