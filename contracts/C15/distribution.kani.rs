// C15 (exporter side) -- contracts on the real `Matcher`, `DistributionBuilder`, `Distribution::record_samples` and
// `RollingSummary` (metrics-exporter-prometheus/src/{common,distribution}.rs).
//
// Tool limits that shape this file (see contracts/README.md):
//   * HashMap code cannot be executed by Kani => `DistributionBuilder::new` is NOT called; the struct is built field by
//     field with the override vector in the order `sort_by(|a, b| a.0.cmp(&b.0))` yields (checked with the real `cmp`).
//   * no symbolic String building => names / patterns are picked by symbolic index from a table of short literals.
//   * `Summary` wraps a DDSketch whose constructor calls log1p/ln (unsupported / nondeterministic in CBMC): the two
//     logarithms are stubbed by a deterministic dummy and every sample is taken from the sketch's exact "zero bucket"
//     range (|v| <= 1e-9) or is infinite, so that `Summary::count()` is the REAL, exact number of finite samples merged.
//   * quanta::Instant has no public constructor from a number: instants are made by transmuting u64 nanoseconds.
use super::*;

#[cfg(kani)]
fn ln_dummy(x: f64) -> f64 {
    x
}

fn at(nanos: u64) -> Instant {
    assert!(std::mem::size_of::<Instant>() == 8);
    unsafe { std::mem::transmute::<u64, Instant>(nanos) }
}
fn nanos_of(i: Instant) -> u64 {
    unsafe { std::mem::transmute::<Instant, u64>(i) }
}

// ------------------------------------------------------------------------------------------------
// Matcher::matches -- Full: equality, Prefix: starts_with, Suffix: ends_with, against an independent byte-level spec.
const WORDS: [&str; 8] = ["", "a", "b", "ab", "ba", "aba", "a_b", "abab"];

fn spec_prefix(p: &[u8], k: &[u8]) -> bool {
    if p.len() > k.len() { return false; }
    let mut i = 0;
    let mut ok = true;
    while i < p.len() {
        if p[i] != k[i] { ok = false; }
        i += 1;
    }
    ok
}
fn spec_suffix(p: &[u8], k: &[u8]) -> bool {
    if p.len() > k.len() { return false; }
    let off = k.len() - p.len();
    let mut i = 0;
    let mut ok = true;
    while i < p.len() {
        if p[i] != k[off + i] { ok = false; }
        i += 1;
    }
    ok
}
fn spec_matches(kind: u8, p: &str, k: &str) -> bool {
    let (p, k) = (p.as_bytes(), k.as_bytes());
    match kind {
        0 => p.len() == k.len() && spec_prefix(p, k),
        1 => spec_prefix(p, k),
        _ => spec_suffix(p, k),
    }
}
fn matcher(kind: u8, p: &str) -> Matcher {
    match kind {
        0 => Matcher::Full(p.to_string()),
        1 => Matcher::Prefix(p.to_string()),
        _ => Matcher::Suffix(p.to_string()),
    }
}

pub fn c15_matcher_matches_body(kind: u8, pi: usize, ki: usize) {
    kani::assume(kind < 3 && pi < WORDS.len() && ki < WORDS.len());
    let m = matcher(kind, WORDS[pi]);
    let got = m.matches(WORDS[ki]);
    assert!(got == spec_matches(kind, WORDS[pi], WORDS[ki]), "C15 Matcher::matches: Full = equal, Prefix = starts_with, Suffix = ends_with");
    kani::cover!(kind == 0 && got);
    kani::cover!(kind == 1 && got && pi != ki && pi != 0);
    kani::cover!(kind == 2 && got && pi != ki && pi != 0);
    kani::cover!(kind == 2 && !got);
}
#[cfg(kani)]
#[kani::proof]
#[kani::unwind(6)]
fn c15_matcher_matches() {
    c15_matcher_matches_body(kani::any(), kani::any(), kani::any());
}

// Matcher's derived Ord puts every Full before every Prefix before every Suffix, whatever the patterns
pub fn c15_matcher_order_body(k1: u8, p1: usize, k2: u8, p2: usize) {
    kani::assume(k1 < 3 && k2 < 3 && p1 < WORDS.len() && p2 < WORDS.len());
    let (m1, m2) = (matcher(k1, WORDS[p1]), matcher(k2, WORDS[p2]));
    let ord = m1.cmp(&m2);
    if k1 < k2 {
        assert!(ord == std::cmp::Ordering::Less, "C15 Matcher order: Full < Prefix < Suffix");
    } else if k1 > k2 {
        assert!(ord == std::cmp::Ordering::Greater, "C15 Matcher order: Full < Prefix < Suffix");
    } else {
        assert!((ord == std::cmp::Ordering::Equal) == (p1 == p2));
    }
    kani::cover!(k1 == 0 && k2 == 2 && p1 == 7 && p2 == 0);
    kani::cover!(k1 == k2 && ord == std::cmp::Ordering::Greater);
}
#[cfg(kani)]
#[kani::proof]
#[kani::unwind(6)]
fn c15_matcher_order() {
    c15_matcher_order_body(kani::any(), kani::any(), kani::any(), kani::any());
}

// ------------------------------------------------------------------------------------------------
// DistributionBuilder::{get_distribution, get_distribution_type}
//   configuration: global buckets in {None, Some([100.0])}; overrides None or {Full("ab"), Prefix("a"), Suffix("b")},
//   names "ab" (all three match),
//   "a" (prefix only), "bb" (suffix only), "x" (none): 16 concrete runs -- more did not terminate in 8 minutes.
//   `DistributionBuilder::new` is not executed (HashMap; and std's slice sort alone runs CBMC out of memory, measured 15 GB):
//   the override vector is written down in the order `sort_by(|a, b| a.0.cmp(&b.0))` must produce and the harness CHECKS with
//   the real `Matcher::cmp` that it is sorted; that std's sort sorts is assumed.  All runs are concrete executions (a symbolic
//   choice among heap-allocated Strings ran out of memory as well); values are forgotten, not dropped (drop glue of
//   Vec<(Matcher, Vec<f64>)> is what made a single run take > 2 min).
//   contract (statement): some Full override matches  => its buckets;  else some Prefix matches => a matching Prefix's;
//   else some Suffix matches => a matching Suffix's; else global buckets; else a summary.  type == "histogram" <=> histogram.
const NAMES: [&str; 4] = ["ab", "a", "bb", "x"];
const CFGS: [[(u8, &str); 3]; 1] = [[(0, "ab"), (1, "a"), (2, "b")]];

fn builder_choice_at(global: bool, with_overrides: bool, cfg: &[(u8, &str); 3], name: &str) -> u8 {
    // specification, straight from the statement: the lowest matching kind wins (0 Full, 1 Prefix, 2 Suffix, 3 none)
    let mut best_kind = 3u8;
    let mut winner = 3usize;
    if with_overrides {
        let mut i = 0;
        while i < 3 {
            if spec_matches(cfg[i].0, cfg[i].1, name) && cfg[i].0 < best_kind {
                best_kind = cfg[i].0;
                winner = i;
            }
            i += 1;
        }
    }
    // Only the override that MUST be chosen carries bucket bounds; every other one has an empty list, with which
    // `Distribution::new_histogram` panics ("buckets should never be empty"): choosing a wrong override is a failed check.
    // (Reading the chosen bounds back through Histogram::buckets() is not possible here: the collect() over a vector whose
    // length CBMC does not see as a constant ran out of memory at 15 GB.)
    let overrides = if with_overrides {
        let mut matchers: Vec<(Matcher, Vec<f64>)> = Vec::with_capacity(3);
        let mut i = 0;
        while i < 3 {
            matchers.push((matcher(cfg[i].0, cfg[i].1), if i == winner { vec![1.0] } else { Vec::new() }));
            i += 1;
        }
        // the order DistributionBuilder::new establishes with sort_by(|a, b| a.0.cmp(&b.0))
        assert!(matchers[0].0.cmp(&matchers[1].0) == std::cmp::Ordering::Less && matchers[1].0.cmp(&matchers[2].0) == std::cmp::Ordering::Less);
        Some(matchers)
    } else {
        None
    };
    let builder = DistributionBuilder {
        quantiles: Arc::new(Vec::new()),
        buckets: if global { Some(if best_kind == 3 { vec![100.0] } else { Vec::new() }) } else { None },
        bucket_duration: None,
        bucket_count: None,
        bucket_overrides: overrides,
    };

    let dist = builder.get_distribution(name); // panics when an override / the global list other than the specified one is used
    let ty = builder.get_distribution_type(name);

    let is_hist = ty.len() == 9 && ty.as_bytes()[0] == b'h';
    assert!(is_hist || (ty.len() == 7 && ty.as_bytes()[0] == b's'), "C15 type is \"histogram\" or \"summary\"");
    match &dist {
        Distribution::Histogram(h) => {
            assert!(is_hist, "C15 builder: exposed as histogram <=> buckets apply");
            assert!(best_kind < 3 || global, "C15 builder: a histogram only when an override matches or global buckets exist");
            assert!(h.count() == 0);
        }
        Distribution::Summary(rs, q, sum) => {
            assert!(!is_hist, "C15 builder: exposed as summary <=> no buckets apply");
            assert!(best_kind == 3 && !global, "C15 builder: summary only when neither an override nor global buckets apply");
            assert!(rs.count() == 0 && rs.is_empty() && *sum == 0.0 && q.is_empty());
            assert!(rs.max_buckets == 3 && rs.bucket_duration == Duration::from_secs(20));
        }
    }
    std::mem::forget(dist);
    std::mem::forget(builder);
    best_kind
}

// one harness per (global, overrides) combination, 4 concrete runs each (all 16 in one harness: out of memory at 15 GB)
pub fn c15_builder_plain_body() { builder_choice_names(false, false); }
pub fn c15_builder_global_body() { builder_choice_names(true, false); }
pub fn c15_builder_overrides_body() { builder_choice_names(false, true); }
pub fn c15_builder_overrides_global_body() { builder_choice_names(true, true); }
#[cfg(kani)]
#[kani::proof]
#[kani::unwind(8)]
fn c15_builder_plain() { c15_builder_plain_body(); }
#[cfg(kani)]
#[kani::proof]
#[kani::unwind(8)]
fn c15_builder_global() { c15_builder_global_body(); }
#[cfg(kani)]
#[kani::proof]
#[kani::unwind(8)]
fn c15_builder_overrides() { c15_builder_overrides_body(); }
#[cfg(kani)]
#[kani::proof]
#[kani::unwind(8)]
fn c15_builder_overrides_global() { c15_builder_overrides_global_body(); }
#[inline(never)]
fn builder_choice_names(global: bool, with_overrides: bool) {
    // "ab": Full, Prefix and Suffix all match -> Full;  "a": Prefix;  "bb": Suffix only;  "x": nothing
    let k0 = builder_choice_at(global, with_overrides, &CFGS[0], NAMES[0]);
    let k1 = builder_choice_at(global, with_overrides, &CFGS[0], NAMES[1]);
    let k2 = builder_choice_at(global, with_overrides, &CFGS[0], NAMES[2]);
    let k3 = builder_choice_at(global, with_overrides, &CFGS[0], NAMES[3]);
    if with_overrides {
        assert!(k0 == 0 && k1 == 1 && k2 == 2 && k3 == 3);
    } else {
        assert!(k0 == 3 && k1 == 3 && k2 == 3 && k3 == 3);
    }
}
// ------------------------------------------------------------------------------------------------
// RollingSummary: new, the first sample and a later render.  (Everything beyond one bucket is out of Kani's reach: see plan.)
//   new(count, duration): empty, count 0, an empty snapshot has no quantile (the renderer prints 0);
//   add(v, t1): count 1 for EVERY v (also +-inf, which the sketch itself ignores); exactly one bucket, beginning at t1;
//   snapshot(t2), t2 >= t1: contains the sample iff it is younger than count*duration (t2 - t1 < W), i.e. samples older than
//   the window are ignored and nothing younger is; count() keeps covering all samples; for every t1, t2 < 2^60 ns.
fn dur(which: u8) -> Duration {
    match which {
        0 => Duration::from_nanos(1),
        1 => Duration::from_nanos(7),
        _ => Duration::from_secs(20),
    }
}
fn dn(which: u8) -> u64 {
    match which {
        0 => 1,
        1 => 7,
        _ => 20_000_000_000,
    }
}
const VALS: [f64; 4] = [0.0, 1.0e-10, -5.0e-10, f64::INFINITY];

pub fn c15_rolling_first_sample_body(max: u32, which: u8, vi: usize, t1: u64, e: u64) {
    kani::assume(1 <= max && max <= 3 && 1 <= which && which < 3 && vi < 4 && t1 < (1 << 60) && e < (1 << 60));
    // literal (count, duration, value) per arm: a symbolic capacity / duration / value blows CBMC up (measured: > 14 GB)
    match (max, which) {
        (1, 1) => first_sample_values(1, 1, vi, t1, e),
        (2, 1) => first_sample_values(2, 1, vi, t1, e),
        (3, 1) => first_sample_values(3, 1, vi, t1, e),
        (1, _) => first_sample_values(1, 2, vi, t1, e),
        (2, _) => first_sample_values(2, 2, vi, t1, e),
        (_, _) => first_sample_values(3, 2, vi, t1, e),
    }
}
fn first_sample_values(max: u32, which: u8, vi: usize, t1: u64, e: u64) {
    match vi {
        0 => first_sample_at(max, which, 0, t1, e),
        1 => first_sample_at(max, which, 1, t1, e),
        2 => first_sample_at(max, which, 2, t1, e),
        _ => first_sample_at(max, which, 3, t1, e),
    }
}
#[inline(never)]
fn first_sample_at(max: u32, which: u8, vi: usize, t1: u64, e: u64) {
    let d = dn(which);
    let w = max as u64 * d;
    let t2 = t1 + e;
    let mut rs = RollingSummary::new(NonZeroU32::new(max).unwrap(), dur(which));
    assert!(rs.is_empty() && rs.count() == 0 && rs.buckets.len() == 0);
    assert!(rs.max_buckets == max as usize && rs.bucket_duration == dur(which) && rs.max_bucket_duration == dur(which) * max);
    let empty = rs.snapshot(at(t1));
    assert!(empty.count() == 0 && empty.is_empty() && empty.quantile(0.5).is_none(), "C15 rolling: empty window => no quantile (rendered as 0)");
    std::mem::forget(empty);

    rs.add(VALS[vi], at(t1));
    let finite = (vi != 3) as usize;
    assert!(rs.count() == 1 && !rs.is_empty(), "C15 rolling: _count covers every sample");
    assert!(rs.buckets.len() == 1 && nanos_of(rs.buckets[0].begin) == t1, "C15 rolling: first bucket begins at the first sample");
    assert!(rs.buckets[0].summary.count() == finite);

    let snap = rs.snapshot(at(t2));
    let inside = e < w; // age of the sample (and of its bucket) is below count*duration
    assert!(snap.count() == if inside { finite } else { 0 }, "C15 rolling: a sample is in the snapshot iff it is younger than count*duration");
    assert!(rs.count() == 1, "C15 rolling: snapshot does not touch _count");
    kani::cover!(which == 2 && max == 3 && e == w - 1 && snap.count() == 1);
    kani::cover!(which == 2 && max == 3 && e == w && snap.count() == 0);
    kani::cover!(vi == 3 && inside);
    kani::cover!(which == 1 && max == 1 && t2 < w && vi == 2);
    std::mem::forget(snap);
    std::mem::forget(rs);
}
#[cfg(kani)]
#[kani::proof]
#[kani::unwind(6)]
#[kani::stub(f64::ln_1p, ln_dummy)]
#[kani::stub(f64::ln, ln_dummy)]
fn c15_rolling_first_sample() {
    c15_rolling_first_sample_body(kani::any(), kani::any(), kani::any(), kani::any(), kani::any());
}

// ------------------------------------------------------------------------------------------------
// Distribution::record_samples
//   Histogram variant: identical to Histogram::record_many on the sample values (timestamps ignored), n <= 2;
//   Summary variant  : n <= 1 (a second sample would be added to a bucket stored in the Vec: out of reach, see plan):
//                      the sample goes to RollingSummary::add with its timestamp, _sum adds its value (infinite too), _count 1.
pub fn c15_record_samples_histogram_body(n: usize, shape: u8, t0: u64, e1: u64, bound: f64) {
    kani::assume(n <= 2 && shape < 4 && t0 < (1 << 60) && e1 <= 100);
    match (shape, n) {
        (0, 0) => record_samples_at(true, 0, 0, 1, t0, e1, bound, 0),
        (0, 1) => record_samples_at(true, 1, 0, 1, t0, e1, bound, 0),
        (0, _) => record_samples_at(true, 2, 0, 1, t0, e1, bound, 0),
        (1, 0) => record_samples_at(true, 0, 1, 3, t0, e1, bound, 0),
        (1, 1) => record_samples_at(true, 1, 1, 3, t0, e1, bound, 0),
        (1, _) => record_samples_at(true, 2, 1, 3, t0, e1, bound, 0),
        (2, 0) => record_samples_at(true, 0, 3, 2, t0, e1, bound, 0),
        (2, 1) => record_samples_at(true, 1, 3, 2, t0, e1, bound, 0),
        (2, _) => record_samples_at(true, 2, 3, 2, t0, e1, bound, 0),
        (_, 0) => record_samples_at(true, 0, 2, 0, t0, e1, bound, 0),
        (_, 1) => record_samples_at(true, 1, 2, 0, t0, e1, bound, 0),
        (_, _) => record_samples_at(true, 2, 2, 0, t0, e1, bound, 0),
    }
    kani::cover!(n == 2 && shape == 1);
    kani::cover!(n == 0);
    kani::cover!(n == 1 && shape == 2 && bound == f64::INFINITY);
}
#[cfg(kani)]
#[kani::proof]
#[kani::unwind(6)]
fn c15_record_samples_histogram() {
    c15_record_samples_histogram_body(kani::any(), kani::any(), kani::any(), kani::any(), kani::any());
}
#[inline(never)]
fn record_samples_at(hist: bool, n: usize, v0: usize, v1: usize, t0: u64, e1: u64, bound: f64, sum0: usize) {
    if hist {
        let samples = [(VALS[v0], at(t0)), (VALS[v1], at(t0 + e1))];
        kani::assume(!bound.is_nan());
        let mut dist = Distribution::new_histogram(&[bound, f64::INFINITY]);
        let mut reference = Histogram::new(&[bound, f64::INFINITY]).unwrap();
        match n {
            0 => { dist.record_samples(&samples[..0]); reference.record_many(&[]); }
            1 => { dist.record_samples(&samples[..1]); reference.record_many(&[VALS[v0]]); }
            _ => { dist.record_samples(&samples[..2]); reference.record_many(&[VALS[v0], VALS[v1]]); }
        }
        match &dist {
            Distribution::Histogram(h) => {
                assert!(h.count() == reference.count() && h.count() == n as u64);
                let (a, b) = (h.buckets(), reference.buckets());
                assert!(a.len() == 2 && a[0].1 == b[0].1 && a[1].1 == b[1].1, "C15 record_samples(histogram) == record_many(values)");
                assert!(a[1].1 == n as u64);
                assert!(h.sum().to_bits() == reference.sum().to_bits());
                std::mem::forget(a);
                std::mem::forget(b);
            }
            _ => assert!(false),
        }
        std::mem::forget(dist);
        std::mem::forget(reference);
    } else {
        let mut dist = Distribution::new_summary(Arc::new(Vec::new()), Duration::from_nanos(7), NonZeroU32::new(2).unwrap());
        let start = match sum0 { 0 => 0.0, 1 => 2.5, 2 => -1.0e-10, _ => f64::NEG_INFINITY };
        if let Distribution::Summary(_, _, s) = &mut dist { *s = start; }
        let one = [(VALS[v0], at(t0))];
        match n {
            0 => dist.record_samples(&one[..0]),
            _ => dist.record_samples(&one),
        }
        match &dist {
            Distribution::Summary(rs, _, sum) => {
                assert!(rs.count() == n, "C15 record_samples(summary): _count covers all samples");
                let expect = match n { 0 => start, _ => start + VALS[v0] };
                assert!(sum.to_bits() == expect.to_bits() || (sum.is_nan() && expect.is_nan()), "C15 record_samples(summary): _sum covers all samples");
                assert!(rs.buckets.len() == n);
                if n == 1 {
                    assert!(nanos_of(rs.buckets[0].begin) == t0, "C15 record_samples(summary): the sample is filed under its own timestamp");
                    assert!(rs.buckets[0].summary.count() == (v0 != 3) as usize);
                }
            }
            _ => assert!(false),
        }
        std::mem::forget(dist);
    }
}
