// C15 -- contracts on the real `metrics_util::storage::Histogram` (metrics-util/src/storage/histogram.rs).
//
// The pre-state of every contract is ARBITRARY: symbolic bounds, symbolic per-bound counts, symbolic count and sum
// (the struct is built field by field, not through a recorded history), so that "after any sequence of samples
// buckets[i] == #{samples <= bounds[i]}" follows by induction over the sequence from the per-call contracts:
//     record(s)        : buckets'[i] == buckets[i] + [s <= bounds[i]]                     count' == count + 1
//     record_many(S)   : buckets'[i] == buckets[i] + #{s in S : s <= bounds[i]}           count' == count + |S|
//                        (needs ascending bounds: first-fit + prefix sums == per-bound counting)
// The number of bounds k only sizes the two vectors; it is a literal in each match arm (k <= 4, bounded).
use super::*;

pub const K: usize = 4;

fn same_f64(a: f64, b: f64) -> bool {
    (a.is_nan() && b.is_nan()) || a.to_bits() == b.to_bits()
}

fn mk(k: usize, b: [f64; K], c: [u64; K], count: u64, sum: f64) -> Histogram {
    let (bounds, buckets) = match k {
        1 => (vec![b[0]], vec![c[0]]),
        2 => (vec![b[0], b[1]], vec![c[0], c[1]]),
        3 => (vec![b[0], b[1], b[2]], vec![c[0], c[1], c[2]]),
        _ => (vec![b[0], b[1], b[2], b[3]], vec![c[0], c[1], c[2], c[3]]),
    };
    Histogram { count, bounds, buckets, sum }
}

/// ascending per IEEE `<=` (this also excludes NaN bounds)
fn ascending(k: usize, b: &[f64; K]) -> bool {
    let mut ok = true;
    let mut i = 0;
    while i + 1 < k {
        if !(b[i] <= b[i + 1]) { ok = false; }
        i += 1;
    }
    ok && !b[0].is_nan()
}

fn non_decreasing(k: usize, c: &[u64]) -> bool {
    let mut ok = true;
    let mut i = 0;
    while i + 1 < k {
        if c[i] > c[i + 1] { ok = false; }
        i += 1;
    }
    ok
}

fn le(s: f64, b: f64) -> u64 {
    if s <= b { 1 } else { 0 }
}

// ------------------------------------------------------------------------------------------------
// Histogram::new: None iff no bounds; otherwise all counts zero, bounds copied in order.
pub fn c15_new_contract_body(k: usize, b0: f64, b1: f64, b2: f64, b3: f64) {
    kani::assume(k <= K);
    let b = [b0, b1, b2, b3];
    let h = match k {
        0 => Histogram::new(&b[..0]),
        1 => Histogram::new(&b[..1]),
        2 => Histogram::new(&b[..2]),
        3 => Histogram::new(&b[..3]),
        _ => Histogram::new(&b[..4]),
    };
    assert!(h.is_none() == (k == 0), "C15 new: None iff bounds empty");
    if let Some(h) = h {
        assert!(h.count() == 0 && h.sum().to_bits() == 0f64.to_bits());
        let out = h.buckets();
        assert!(out.len() == k && h.bounds.len() == k && h.buckets.len() == k);
        let mut i = 0;
        while i < k {
            assert!(out[i].1 == 0, "C15 new: every bucket starts at 0");
            assert!(same_f64(out[i].0, b[i]), "C15 new: bounds kept in the given order");
            i += 1;
        }
    }
    kani::cover!(k == 0);
    kani::cover!(k == K);
}
#[cfg(kani)]
#[kani::proof]
#[kani::unwind(6)]
fn c15_new_contract() {
    c15_new_contract_body(kani::any(), kani::any(), kani::any(), kani::any(), kani::any());
}

// ------------------------------------------------------------------------------------------------
// Histogram::record -- arbitrary pre-state, every f64 sample (NaN, +-inf, -0.0 included), ANY bounds:
//   buckets'[i] == buckets[i] + [sample <= bounds[i]]   (so buckets never decrease from one render to the next)
//   count' == count + 1; sum' == sum + sample; bounds unchanged;
//   with ascending bounds, "non-decreasing from one bound to the next" and "last bucket <= count" are preserved.
pub fn c15_record_contract_body(
    k: usize, b0: f64, b1: f64, b2: f64, b3: f64, c0: u64, c1: u64, c2: u64, c3: u64, count: u64, sum: f64, s: f64,
) {
    kani::assume(1 <= k && k <= K);
    let b = [b0, b1, b2, b3];
    let c = [c0, c1, c2, c3];
    // no u64 overflow (2^64 samples)
    kani::assume(count < u64::MAX && c0 < u64::MAX && c1 < u64::MAX && c2 < u64::MAX && c3 < u64::MAX);
    // the number of bounds is a literal in each arm (it only sizes the vectors); all arms are explored
    match k {
        1 => record_at(1, b, c, count, sum, s),
        2 => record_at(2, b, c, count, sum, s),
        3 => record_at(3, b, c, count, sum, s),
        _ => record_at(4, b, c, count, sum, s),
    }
}
#[inline(never)]
fn record_at(k: usize, b: [f64; K], c: [u64; K], count: u64, sum: f64, s: f64) {
    let mut h = mk(k, b, c, count, sum);
    let inv_pre = ascending(k, &b) && non_decreasing(k, &c) && c[k - 1] <= count;

    h.record(s);

    assert!(h.count() == count + 1, "C15 record: count' == count + 1");
    assert!(h.buckets.len() == k && h.bounds.len() == k);
    let mut i = 0;
    while i < k {
        assert!(h.buckets[i] == c[i] + le(s, b[i]), "C15 record: buckets'[i] == buckets[i] + [sample <= bounds[i]]");
        assert!(h.buckets[i] >= c[i], "C15 record: a bucket never decreases");
        assert!(same_f64(h.bounds[i], b[i]), "C15 record: bounds unchanged");
        i += 1;
    }
    if inv_pre {
        assert!(non_decreasing(k, &h.buckets), "C15 record: cumulative (non-decreasing over bounds) preserved");
        assert!(h.buckets[k - 1] <= h.count(), "C15 record: +Inf bucket (= count) >= last finite bucket");
    }
    kani::cover!(k == K && s == b[1] && !(s <= b[0]));   // a value equal to a bound counts for that bound
    kani::cover!(s.is_nan());
    kani::cover!(k == K && inv_pre && s == f64::NEG_INFINITY);
    kani::cover!(k == 3 && inv_pre && s == f64::INFINITY && b[2] == f64::INFINITY);
    kani::cover!(k == 1 && inv_pre && s > b[0]);
}
#[cfg(kani)]
#[kani::proof]
#[kani::unwind(6)]
fn c15_record_contract() {
    c15_record_contract_body(
        kani::any(), kani::any(), kani::any(), kani::any(), kani::any(), kani::any(), kani::any(), kani::any(),
        kani::any(), kani::any(), kani::any(), kani::any(),
    );
}

// ------------------------------------------------------------------------------------------------
// Histogram::record_many -- arbitrary pre-state with ASCENDING bounds, a batch of n <= 3 arbitrary samples:
//   buckets'[i] == buckets[i] + #{s in S : s <= bounds[i]};  count' == count + n;
//   sum' == sum + (((0 + s1) + s2) + s3)   (the batch is summed first, left to right -- see plan assumptions);
//   cumulative invariant preserved.
pub fn c15_record_many_contract_body(
    k: usize, b0: f64, b1: f64, b2: f64, b3: f64, c0: u64, c1: u64, c2: u64, c3: u64, count: u64, sum: f64,
    n: usize, s0: f64, s1: f64, s2: f64,
) {
    kani::assume(1 <= k && k <= 3 && n <= 3);
    record_many_dispatch(k, [b0, b1, b2, b3], [c0, c1, c2, c3], count, sum, n, [s0, s1, s2]);
}
// the same contract for exactly 4 bounds (thorough tier: the four-bound instance alone costs as much as k <= 3 together)
pub fn c15_record_many_contract_k4_body(
    b0: f64, b1: f64, b2: f64, b3: f64, c0: u64, c1: u64, c2: u64, c3: u64, count: u64, sum: f64,
    n: usize, s0: f64, s1: f64, s2: f64,
) {
    kani::assume(n <= 3);
    record_many_dispatch(4, [b0, b1, b2, b3], [c0, c1, c2, c3], count, sum, n, [s0, s1, s2]);
}
#[cfg(kani)]
#[kani::proof]
#[kani::unwind(6)]
fn c15_record_many_contract_k4() {
    c15_record_many_contract_k4_body(
        kani::any(), kani::any(), kani::any(), kani::any(), kani::any(), kani::any(), kani::any(),
        kani::any(), kani::any(), kani::any(), kani::any(), kani::any(), kani::any(), kani::any(),
    );
}
fn record_many_dispatch(k: usize, b: [f64; K], c: [u64; K], count: u64, sum: f64, n: usize, s: [f64; 3]) {
    let (c0, c1, c2, c3) = (c[0], c[1], c[2], c[3]);
    let lim = u64::MAX - 3;
    kani::assume(count < lim && c0 < lim && c1 < lim && c2 < lim && c3 < lim);
    match k {
        1 => record_many_at(1, b, c, count, sum, n, s),
        2 => record_many_at(2, b, c, count, sum, n, s),
        3 => record_many_at(3, b, c, count, sum, n, s),
        _ => record_many_at(4, b, c, count, sum, n, s),
    }
}
#[inline(never)]
fn record_many_at(k: usize, b: [f64; K], c: [u64; K], count: u64, sum: f64, n: usize, s: [f64; 3]) {
    kani::assume(ascending(k, &b));
    let mut h = mk(k, b, c, count, sum);
    let inv_pre = non_decreasing(k, &c) && c[k - 1] <= count;
    let (s0, s1, s2) = (s[0], s[1], s[2]);

    match n {
        0 => h.record_many(&s[..0]),
        1 => h.record_many(&s[..1]),
        2 => h.record_many(&s[..2]),
        _ => h.record_many(&s[..3]),
    }

    assert!(h.count() == count + n as u64, "C15 record_many: count' == count + |S|");
    assert!(h.buckets.len() == k && h.bounds.len() == k);
    let mut i = 0;
    while i < k {
        let mut m = 0u64;
        let mut j = 0;
        while j < n {
            m += le(s[j], b[i]);
            j += 1;
        }
        assert!(h.buckets[i] == c[i] + m, "C15 record_many: buckets'[i] == buckets[i] + #{s in S : s <= bounds[i]}");
        assert!(same_f64(h.bounds[i], b[i]));
        i += 1;
    }
    if inv_pre {
        assert!(non_decreasing(k, &h.buckets));
        assert!(h.buckets[k - 1] <= h.count());
    }
    kani::cover!(k >= 3 && n == 3 && s0 == b[1] && s1 > b[k - 1] && s2 < b[0]);
    kani::cover!(n == 0);
    kani::cover!(k >= 3 && n == 2 && s0.is_nan() && s1 == f64::NEG_INFINITY);
    kani::cover!(k >= 2 && n == 3 && b[0] == b[1]);
}
#[cfg(kani)]
#[kani::proof]
#[kani::unwind(6)]
fn c15_record_many_contract() {
    c15_record_many_contract_body(
        kani::any(), kani::any(), kani::any(), kani::any(), kani::any(), kani::any(), kani::any(), kani::any(),
        kani::any(), kani::any(), kani::any(), kani::any(), kani::any(), kani::any(), kani::any(),
    );
}

// ------------------------------------------------------------------------------------------------
// sum(): record adds the sample; record_many adds the batch total ((0 + s0) + s1 ..) -- the sum update does not depend
// on the bounds, so one bound suffices.  Kept apart from the bucket contracts and split by batch size because proving
// two chains of f64 adders equivalent is what costs CBMC time (n = 2 in one harness with the others: 820 s).
pub fn c15_sum_record_body(b0: f64, count: u64, sum: f64, s0: f64) {
    kani::assume(count < u64::MAX);
    let mut h = mk(1, [b0, 0.0, 0.0, 0.0], [0; K], count, sum);
    h.record(s0);
    assert!(same_f64(h.sum(), sum + s0), "C15 record: sum' == sum + sample");
    kani::cover!(h.sum() == 3.5);
    kani::cover!(h.sum().is_nan() && !sum.is_nan() && !s0.is_nan());
}
#[cfg(kani)]
#[kani::proof]
#[kani::unwind(3)]
fn c15_sum_record() {
    c15_sum_record_body(kani::any(), kani::any(), kani::any(), kani::any());
}

pub fn c15_sum_record_many_1_body(b0: f64, count: u64, sum: f64, n: usize, s0: f64) {
    kani::assume(n <= 1 && count < u64::MAX - 1);
    let mut h = mk(1, [b0, 0.0, 0.0, 0.0], [0; K], count, sum);
    let s = [s0];
    let batch = match n {
        0 => { h.record_many(&s[..0]); 0.0 }
        _ => { h.record_many(&s[..1]); 0.0 + s0 }
    };
    assert!(same_f64(h.sum(), sum + batch), "C15 record_many: sum' == sum + (0 + s1)");
    assert!(h.count() == count + n as u64);
    kani::cover!(n == 1 && h.sum() == 3.5);
    kani::cover!(n == 0);
}
#[cfg(kani)]
#[kani::proof]
#[kani::unwind(4)]
fn c15_sum_record_many_1() {
    c15_sum_record_many_1_body(kani::any(), kani::any(), kani::any(), kani::any(), kani::any());
}

pub fn c15_sum_record_many_2_body(b0: f64, count: u64, sum: f64, s0: f64, s1: f64) {
    kani::assume(count < u64::MAX - 2);
    let mut h = mk(1, [b0, 0.0, 0.0, 0.0], [0; K], count, sum);
    let s = [s0, s1];
    h.record_many(&s[..2]);
    assert!(same_f64(h.sum(), sum + ((0.0 + s0) + s1)), "C15 record_many: sum' == sum + ((0 + s1) + s2)");
    assert!(h.count() == count + 2);
    kani::cover!(h.sum() == 3.5);
}
#[cfg(kani)]
#[kani::proof]
#[kani::unwind(5)]
fn c15_sum_record_many_2() {
    c15_sum_record_many_2_body(kani::any(), kani::any(), kani::any(), kani::any(), kani::any());
}

// ------------------------------------------------------------------------------------------------
// "recording samples singly or in batches gives identical results": the same n <= 3 samples fed to three copies of an
// arbitrary pre-state (ascending bounds): (A) one by one, (B) as one batch, (C) as two batches split at p.
// Bucket counts and count must be identical in all three (the f64 sum only up to the order of additions, see plan).
pub fn c15_batching_equivalence_body(
    k: usize, b0: f64, b1: f64, b2: f64, c0: u64, c1: u64, c2: u64, count: u64, n: usize, p: usize, s0: f64, s1: f64, s2: f64,
) {
    kani::assume(1 <= k && k <= 2);
    batching_dispatch(k, [b0, b1, b2, f64::INFINITY], [c0, c1, c2, 0], count, n, p, [s0, s1, s2]);
}
// the same with exactly 3 bounds (thorough tier)
pub fn c15_batching_equivalence_k3_body(
    b0: f64, b1: f64, b2: f64, c0: u64, c1: u64, c2: u64, count: u64, n: usize, p: usize, s0: f64, s1: f64, s2: f64,
) {
    batching_dispatch(3, [b0, b1, b2, f64::INFINITY], [c0, c1, c2, 0], count, n, p, [s0, s1, s2]);
}
#[cfg(kani)]
#[kani::proof]
#[kani::unwind(6)]
fn c15_batching_equivalence_k3() {
    c15_batching_equivalence_k3_body(
        kani::any(), kani::any(), kani::any(), kani::any(), kani::any(), kani::any(), kani::any(), kani::any(),
        kani::any(), kani::any(), kani::any(), kani::any(),
    );
}
fn batching_dispatch(k: usize, b: [f64; K], c: [u64; K], count: u64, n: usize, p: usize, s: [f64; 3]) {
    kani::assume(n <= 3 && p <= n);
    let lim = u64::MAX - 3;
    kani::assume(count < lim && c[0] < lim && c[1] < lim && c[2] < lim);
    match k {
        1 => batching_at(1, b, c, count, n, p, s),
        2 => batching_at(2, b, c, count, n, p, s),
        _ => batching_at(3, b, c, count, n, p, s),
    }
}
#[inline(never)]
fn batching_at(k: usize, b: [f64; K], c: [u64; K], count: u64, n: usize, p: usize, s: [f64; 3]) {
    kani::assume(ascending(k, &b));
    let (c0, c2) = (c[0], c[2]);
    let mut ha = mk(k, b, c, count, 0.0);
    let mut hb = ha.clone();
    let mut hc = ha.clone();

    let mut j = 0;
    while j < n {
        ha.record(s[j]);
        j += 1;
    }
    hb.record_many(&s[..n]);
    hc.record_many(&s[..p]);
    hc.record_many(&s[p..n]);

    assert!(ha.count() == hb.count() && hb.count() == hc.count(), "C15 batching: identical count");
    let (oa, ob, oc) = (&ha.buckets, &hb.buckets, &hc.buckets);
    let mut i = 0;
    while i < k {
        assert!(oa[i] == ob[i], "C15 batching: one batch == single records, per bucket");
        assert!(ob[i] == oc[i], "C15 batching: any split into two batches == one batch, per bucket");
        i += 1;
    }
    kani::cover!(n == 3 && p == 1 && oa[0] == c0 + 1 && oa[k - 1] == c[k - 1] + 2);
    kani::cover!(n == 2 && p == 2);
}
#[cfg(kani)]
#[kani::proof]
#[kani::unwind(6)]
fn c15_batching_equivalence() {
    c15_batching_equivalence_body(
        kani::any(), kani::any(), kani::any(), kani::any(), kani::any(), kani::any(), kani::any(), kani::any(),
        kani::any(), kani::any(), kani::any(), kani::any(), kani::any(),
    );
}

// ------------------------------------------------------------------------------------------------
// The statement end to end on a fresh histogram: new(ascending bounds), then 3 operations (each a single record or a
// batch of two), then the rendered view: bucket i == #{all samples <= bound i}, non-decreasing over i, count == #samples
// (the exporter prints the +Inf bucket from count()).
pub fn c15_sequence_from_new_body(
    k: usize, b0: f64, b1: f64, b2: f64, ops: u8, s0: f64, s1: f64, s2: f64, s3: f64, s4: f64, s5: f64,
) {
    kani::assume(1 <= k && k <= 3);
    let b = [b0, b1, b2, f64::INFINITY];
    let s = [s0, s1, s2, s3, s4, s5];
    match k {
        1 => sequence_at(1, 3, Histogram::new(&b[..1]).unwrap(), b, ops, s),
        2 => sequence_at(2, 3, Histogram::new(&b[..2]).unwrap(), b, ops, s),
        _ => sequence_at(3, 3, Histogram::new(&b[..3]).unwrap(), b, ops, s),
    }
}
// quick-tier instance: 2 operations (<= 4 samples)
pub fn c15_sequence_from_new_2ops_body(k: usize, b0: f64, b1: f64, b2: f64, ops: u8, s0: f64, s1: f64, s2: f64, s3: f64) {
    kani::assume(1 <= k && k <= 3);
    let b = [b0, b1, b2, f64::INFINITY];
    let s = [s0, s1, s2, s3, 0.0, 0.0];
    match k {
        1 => sequence_at(1, 2, Histogram::new(&b[..1]).unwrap(), b, ops, s),
        2 => sequence_at(2, 2, Histogram::new(&b[..2]).unwrap(), b, ops, s),
        _ => sequence_at(3, 2, Histogram::new(&b[..3]).unwrap(), b, ops, s),
    }
}
#[cfg(kani)]
#[kani::proof]
#[kani::unwind(8)]
fn c15_sequence_from_new_2ops() {
    c15_sequence_from_new_2ops_body(
        kani::any(), kani::any(), kani::any(), kani::any(), kani::any(), kani::any(), kani::any(), kani::any(), kani::any(),
    );
}
#[inline(never)]
fn sequence_at(k: usize, nops: usize, mut h: Histogram, b: [f64; K], ops: u8, s: [f64; 6]) {
    kani::assume(ascending(k, &b));
    // operation t uses samples s[2t], s[2t+1]; bit t of `ops` chooses record(s[2t]) or record_many([s[2t], s[2t+1]])
    let mut used = [false; 6];
    let mut prev = [0u64; 3];
    let mut t = 0;
    while t < nops {
        if ops & (1 << t) == 0 {
            h.record(s[2 * t]);
            used[2 * t] = true;
        } else {
            h.record_many(&s[2 * t..2 * t + 2]);
            used[2 * t] = true;
            used[2 * t + 1] = true;
        }
        // from one render to the next nothing decreases
        let mut i = 0;
        while i < k {
            assert!(h.buckets[i] >= prev[i], "C15 sequence: a bucket never decreases between renders");
            prev[i] = h.buckets[i];
            i += 1;
        }
        t += 1;
    }
    let out = h.buckets();   // the rendered view: (bound, cumulative count) pairs
    assert!(out.len() == k);
    let mut total = 0u64;
    let mut j = 0;
    while j < 6 {
        if used[j] { total += 1; }
        j += 1;
    }
    assert!(h.count() == total, "C15 sequence: count (the +Inf bucket) == number of samples");
    let mut i = 0;
    while i < k {
        let mut m = 0u64;
        let mut j = 0;
        while j < 6 {
            if used[j] { m += le(s[j], b[i]); }
            j += 1;
        }
        assert!(out[i].1 == m, "C15 sequence: bucket i == #{samples <= bound i}");
        assert!(out[i].1 <= total);
        if i > 0 {
            assert!(out[i - 1].1 <= out[i].1, "C15 sequence: counts never decrease from one bound to the next");
        }
        i += 1;
    }
    kani::cover!(k == 3 && ops & 3 == 3 && out[0].1 == 1 && out[1].1 == 2 && out[2].1 == 4);
    kani::cover!(k == 2 && ops & 3 == 2 && total >= 3 && total <= 4);
}
#[cfg(kani)]
#[kani::proof]
#[kani::unwind(8)]
fn c15_sequence_from_new() {
    c15_sequence_from_new_body(
        kani::any(), kani::any(), kani::any(), kani::any(), kani::any(), kani::any(), kani::any(), kani::any(),
        kani::any(), kani::any(), kani::any(),
    );
}
