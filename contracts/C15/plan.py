def H(name, clause, kind="complete", tier="quick", timeout=600, replay=True, covers=0, **kw):
    d = dict(name=name, obligation=f"C15/kani/{name}", clause=clause, kind=kind, tier=tier, timeout=timeout, replay=replay, covers=covers)
    d.update(kw)
    return d

HIST = "metrics-util/src/storage/histogram.rs"
DIST = "metrics-exporter-prometheus/src/distribution.rs"

PLAN = {
    "property": "C15",
    "level": "proof",
    "manifest": {
        "technique": "Kani/CBMC function contracts on the real Histogram (arbitrary symbolic pre-state), Matcher, DistributionBuilder, "
                     "RollingSummary (first sample, snapshot) and Distribution::record_samples; Verus (unbounded) on the extracted real text of RollingSummary::{new,add}, "
                     "Matcher::matches, DistributionBuilder::{new (sort closure), get_distribution, get_distribution_type}; Verus spec-level lemma for first-fit + prefix-sum == per-bound counting",
        "text": "Histogram::record and record_many are checked against per-call contracts over an ARBITRARY pre-state (symbolic bounds, per-bound counts, "
                "count) and every f64 sample incl. NaN/inf/-0: buckets'[i] == buckets[i] + #{s <= bounds[i]}, count' == count + |S|, cumulative order and "
                "last <= count (+Inf) preserved for ascending bounds; 'after any sequence / any batching' follows by induction over calls, and is also "
                "checked directly on bounded sequences and splits. The Verus lemma proves, for any number of bounds and samples, that record_many's "
                "algorithm (first matching bound, then prefix sums) equals per-bound counting exactly when bounds ascend. On the exporter side: Matcher "
                "semantics and order Full < Prefix < Suffix, DistributionBuilder's choice (full, prefix, suffix, global, else summary) and type string, "
                "RollingSummary new/first add/snapshot window cut for every pair of instants, record_samples(histogram) == record_many. Verus proves, for any "
                "number of buckets / overrides and all instants, durations and strings: RollingSummary::add files every sample with a non-decreasing timestamp into exactly one "
                "bucket whose interval contains it, keeps buckets newest-first, disjoint and <= max_buckets, removes only buckets older than the window (or beyond the cap), "
                "count counts every sample; DistributionBuilder::new orders the overrides full < prefix < suffix, get_distribution returns the first match in that order, else "
                "the global buckets, else a summary with the configured / default window, and get_distribution_type says \"histogram\" exactly then.",
        "note": "All Kani harnesses that touch a vector are bounded in its length (<= 4 bounds, batches <= 3). Assumed in the Verus templates: std's "
                "Vec::retain / sort_by / HashMap collect contracts, quanta Instant = u64 ns, Duration < 2^64 ns, derived Ord on Matcher (Kani-checked on literals), "
                "str starts_with/ends_with/== as sequence prefix/suffix/equality. snapshot's merge is proved over an assumed filter/map/fold + Summary::merge shim (R45) with the real window predicate checked; not machine-checked: "
                "grid alignment of bucket starts, record_samples' summary arm, sanitisation of names/matchers, DDSketch quantile accuracy.",
    },
    "min_obligations": {"quick": 20, "thorough": 20},
    "assumptions": [
        "vector lengths are bounded in every Kani harness (<= 4 bucket bounds, batches <= 3, sequences <= 3 operations); bounds, counts, count, sum and "
        "samples are unrestricted f64/u64 (no u64 counter overflow: < 2^64 - 3 samples)",
        "ascending bounds = bounds[i] <= bounds[i+1] in IEEE order (no NaN bound); record's per-bucket clause is proved for ANY bounds, record_many's needs ascending",
        "sum(): record adds the sample, record_many adds the batch total computed first ((0 + s1) + s2 ...); recording singly vs. in batches therefore "
        "gives bit-identical buckets and count but the f64 sum may differ in the last bits (floating-point addition is not associative) -- the "
        "'identical results' clause is checked for buckets and count only; noted, not reported as a violation",
        "+Inf bucket: the renderer prints it from Histogram::count(); checked here as count == number of samples and last finite bucket <= count",
        "DistributionBuilder::new is not executed under Kani (HashMap cannot run; std's slice sort ran CBMC out of memory); its collect+sort closure is instead "
        "lifted (R29) and proved in builder.verus.rs against assumed std contracts for collect (each entry once) and sort_by (a permutation in which no earlier "
        "element compares Greater than a later one) and the assumed derived Ord on Matcher (variant order first; Kani c15_matcher_order checks the real derive)",
        "builder harnesses run 16 concrete configurations ({global} x {overrides} x 4 names against Full(ab), Prefix(a), Suffix(b)); the chosen override is "
        "identified by giving every other candidate an empty bucket list (new_histogram then panics); several matching overrides of the same kind (the "
        "lexicographically first wins) are not exercised",
        "Matcher semantics are checked on 8 literal strings of <= 4 bytes (no symbolic String under Kani); sanitisation (Matcher::sanitized, "
        "sanitize_metric_name: 'names before/after sanitisation') is NOT checked here",
        "RollingSummary under Kani: only new(), the first add and a later snapshot (for every pair of instants < 2^60 ns, durations 7 ns / 20 s, 1..3 buckets, "
        "values 0, 1e-10, -5e-10, +inf); any Summary::add on a stored bucket makes CBMC explore DDSketch's store (> 15 min / > 15 GB). The general add (in-bucket "
        "add, expiry, stepping to the new bucket, truncate, insert) is proved by Verus in rolling.verus.rs with Summary as a ghost sequence of samples, under the "
        "precondition 'non-decreasing sample timestamps' (no stored bucket begins after `now`) and now + 2*duration < 2^64 ns; rewrites R33 (for over &mut Vec -> "
        "index loop), R35 (a += d -> a = a + d), SPEC-closure on the retain predicate. snapshot (R45: the filter/map/fold chain becomes a shim, the real predicate stays and is checked against 'began less than count*duration ago') returns exactly the samples of the buckets inside the window",
        "window granularity: snapshot keeps a bucket iff its begin is younger than count*duration; a sample younger than the window but filed in a bucket "
        "that began earlier is dropped with its bucket (up to one duration early). The statement's 'within the rolling window' is read with that "
        "bucket granularity; with a single expired bucket the rendered quantile is 0 although a sample younger than count*duration exists",
        "Summary wraps sketches-ddsketch: its constructor's log1p/ln calls are stubbed by a deterministic dummy (unsupported / nondeterministic in CBMC) and "
        "samples are taken from the sketch's exact zero bucket (|v| <= 1e-9) or infinite, so Summary::count() is the real exact count; quantile values "
        "'up to the sketch's relative error' and min/max are the dependency's contract and are NOT decided",
        "quanta::Instant values are fabricated by transmuting u64 nanoseconds (newtype over u64, no public constructor); times < 2^60 ns so Instant + Duration cannot overflow",
        "record_samples: histogram arm checked against Histogram::record_many for <= 2 samples; the summary arm (3-line loop: add, sum +=) is not machine-checked",
        "values are forgotten (mem::forget) instead of dropped in the exporter harnesses (drop glue of nested vectors dominates CBMC time); panic = failure",
    ],
    "verus": [
        # spec-level, unbounded in the number of bounds and samples: prefix sums of first-fit counts == per-bound counts for ascending bounds
        {"template": "prefix.verus.rs", "tier": "quick", "rlimit": 40, "min_functions": 3},
        # unbounded, on the extracted real text: RollingSummary::{new, add} against the bucket-list contract (every sample with a
        # non-decreasing timestamp is filed into exactly one bucket whose interval contains it; newest first, disjoint, <= max_buckets;
        # only expired buckets are removed, up to the cap; count counts all)
        {"template": "rolling.verus.rs", "tier": "quick", "rlimit": 60, "min_functions": 4},
        # unbounded: Matcher::matches, DistributionBuilder::new's collect+sort closure (lifted), get_distribution,
        # get_distribution_type against "full-name override first, then prefix, then suffix, then global buckets, else summary"
        {"template": "builder.verus.rs", "tier": "quick", "rlimit": 40, "min_functions": 6},
    ],
    "kani": [{
        "crate": "metrics-util",
        "parallel": 4,
        "modules": [{"file": HIST, "mod": "__verif_c15", "src": "histogram.kani.rs"}],
        "functions": [
            {"item": "Histogram::{new,record,record_many,buckets,count,sum}", "file": HIST},
        ],
        "harnesses": [
            H("c15_new_contract", "new(bounds) is None iff bounds empty; else count 0, sum 0, every bucket 0, bounds kept in order (via buckets())",
              kind="bounded", bound="<= 4 bounds", covers=2),
            H("c15_record_contract", "arbitrary pre-state, any f64 sample, ANY bounds: buckets'[i] == buckets[i] + [s <= bounds[i]] (never decreases), count' == count+1, "
              "bounds unchanged; with ascending bounds the cumulative order and last <= count (+Inf) are preserved",
              kind="bounded", bound="<= 4 bounds (bounds, counts, count, sum, sample unrestricted)", covers=5),
            H("c15_record_many_contract", "arbitrary pre-state, ascending bounds, batch S of <= 3 arbitrary f64: buckets'[i] == buckets[i] + #{s in S: s <= bounds[i]}, "
              "count' == count+|S|, cumulative order preserved",
              kind="bounded", bound="<= 3 bounds, batch <= 3", covers=4),
            H("c15_record_many_contract_k4", "the same record_many contract with exactly 4 bounds",
              kind="bounded", bound="4 bounds, batch <= 3", covers=4, tier="thorough"),
            H("c15_sum_record", "record: sum' == sum + sample for all f64 (sum, sample)", kind="complete", covers=2),
            H("c15_sum_record_many_1", "record_many of <= 1 sample: sum' == sum + (0 + s), count' == count + n", kind="bounded", bound="batch <= 1", covers=2),
            H("c15_sum_record_many_2", "record_many of 2 samples: sum' == sum + ((0 + s1) + s2)", kind="bounded", bound="batch == 2", covers=1,
              tier="thorough", timeout=1500),
            H("c15_batching_equivalence_k3", "same <= 3 samples recorded singly, as one batch, or as two batches split anywhere: identical buckets and count",
              kind="bounded", bound="3 bounds, <= 3 samples", covers=2),
            H("c15_batching_equivalence", "the same batching equivalence for 1 and 2 bounds",
              kind="bounded", bound="<= 2 bounds, <= 3 samples", covers=2, tier="thorough", timeout=900),
            H("c15_sequence_from_new_2ops", "new + 2 operations (record or batch of 2): bucket i == #{samples <= bound i}, non-decreasing over bounds and over renders, "
              "count (+Inf) == #samples",
              kind="bounded", bound="<= 3 bounds, 2 operations, <= 4 samples", covers=2),
            H("c15_sequence_from_new", "the same from-new sequence contract with 3 operations",
              kind="bounded", bound="<= 3 bounds, 3 operations, <= 6 samples", covers=2, tier="thorough", timeout=900),
        ],
    }, {
        "crate": "metrics-exporter-prometheus", "cargo_args": ["--no-default-features"],
        "parallel": 4,
        "build_timeout": 2400,
        "modules": [{"file": DIST, "mod": "__verif_c15p", "src": "distribution.kani.rs"}],
        "functions": [
            {"item": "Matcher::matches, derived Ord for Matcher", "file": "metrics-exporter-prometheus/src/common.rs"},
            {"item": "DistributionBuilder::{get_distribution,get_distribution_type}", "file": DIST},
            {"item": "Distribution::{new_histogram,new_summary,record_samples}", "file": DIST},
            {"item": "RollingSummary::{new,add,snapshot,count,is_empty}", "file": DIST},
        ],
        "harnesses": [
            H("c15_matcher_order", "derived Ord: every Full < every Prefix < every Suffix; equal kind => ordered by pattern, equal iff same pattern",
              kind="bounded", bound="patterns from 8 literals of <= 4 bytes", covers=2),
            H("c15_matcher_matches", "Full = equality, Prefix = starts_with, Suffix = ends_with against a byte-level spec",
              kind="bounded", bound="pattern and name from 8 literals of <= 4 bytes", covers=4, tier="thorough"),
            H("c15_builder_plain", "no overrides, no global buckets: every name is a summary (default 3 x 20 s), type \"summary\"",
              kind="bounded", bound="4 concrete names", replay=True),
            H("c15_builder_global", "global buckets only: every name is a histogram with the global buckets, type \"histogram\"",
              kind="bounded", bound="4 concrete names", replay=True),
            H("c15_builder_overrides", "overrides {Full ab, Prefix a, Suffix b}, no global: ab -> Full's buckets, a -> Prefix's, bb -> Suffix's, x -> summary; type matches",
              kind="bounded", bound="1 override set x 4 concrete names", replay=True, timeout=900),
            H("c15_builder_overrides_global", "same overrides with global buckets: an applicable override beats the global buckets; x -> global buckets; type \"histogram\"",
              kind="bounded", bound="1 override set x 4 concrete names", replay=True, timeout=900),
            H("c15_rolling_first_sample", "new: empty, snapshot has no quantile; first add: count 1 for every value, one bucket at t1; snapshot(t2) holds the sample iff "
              "t2 - t1 < count*duration; count untouched -- for all instants t1 <= t2",
              kind="bounded", bound="1 sample; count in 1..3, duration in {7 ns, 20 s}, 4 sample values; instants unrestricted (< 2^60 ns)", covers=4, timeout=900),
            H("c15_record_samples_histogram", "record_samples on a histogram distribution == Histogram::record_many of the values (timestamps ignored)",
              kind="bounded", bound="<= 2 samples, 2 bounds", covers=3, tier="thorough", timeout=900),
        ],
    }],
}
