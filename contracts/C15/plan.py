def H(name, clause, kind="complete", tier="quick", timeout=600, replay=True, covers=0, **kw):
    d = dict(name=name, obligation=f"C15/kani/{name}", clause=clause, kind=kind, tier=tier, timeout=timeout, replay=replay, covers=covers)
    d.update(kw)
    return d

HIST = "metrics-util/src/storage/histogram.rs"
DIST = "metrics-exporter-prometheus/src/distribution.rs"

PLAN = {
    "property": "C15",
    "level": "proof",
    "manifest": {"technique": "TBD", "text": "TBD", "note": "TBD"},
    "min_obligations": {"quick": 1, "thorough": 1},
    "assumptions": [],
    "kani": [{
        "crate": "metrics-util",
        "parallel": 4,
        "modules": [{"file": HIST, "mod": "__verif_c15", "src": "histogram.kani.rs"}],
        "functions": [
            {"item": "Histogram::{new,record,record_many,buckets,count,sum}", "file": HIST},
        ],
        "harnesses": [
            H("c15_new_contract", "new(bounds) is None iff bounds empty; else count 0, sum 0, every bucket 0, bounds kept in order (via buckets())",
              kind="bounded", bound="<= 4 bounds", covers=2),
            H("c15_record_contract", "arbitrary pre-state, any f64 sample, ANY bounds: buckets'[i] == buckets[i] + [s <= bounds[i]] (never decreases), count' == count+1, "
              "bounds unchanged; with ascending bounds the cumulative order and last <= count (+Inf) are preserved",
              kind="bounded", bound="<= 4 bounds (bounds, counts, count, sum, sample unrestricted)", covers=5),
            H("c15_record_many_contract", "arbitrary pre-state, ascending bounds, batch S of <= 3 arbitrary f64: buckets'[i] == buckets[i] + #{s in S: s <= bounds[i]}, "
              "count' == count+|S|, cumulative order preserved",
              kind="bounded", bound="<= 3 bounds, batch <= 3", covers=4),
            H("c15_record_many_contract_k4", "the same record_many contract with exactly 4 bounds",
              kind="bounded", bound="4 bounds, batch <= 3", covers=4, tier="thorough"),
            H("c15_sum_record", "record: sum' == sum + sample for all f64 (sum, sample)", kind="complete", covers=2),
            H("c15_sum_record_many_1", "record_many of <= 1 sample: sum' == sum + (0 + s), count' == count + n", kind="bounded", bound="batch <= 1", covers=2),
            H("c15_sum_record_many_2", "record_many of 2 samples: sum' == sum + ((0 + s1) + s2)", kind="bounded", bound="batch == 2", covers=1,
              tier="thorough", timeout=1500),
            H("c15_batching_equivalence_k3", "same <= 3 samples recorded singly, as one batch, or as two batches split anywhere: identical buckets and count",
              kind="bounded", bound="3 bounds, <= 3 samples", covers=2),
            H("c15_batching_equivalence", "the same batching equivalence for 1 and 2 bounds",
              kind="bounded", bound="<= 2 bounds, <= 3 samples", covers=2, tier="thorough", timeout=900),
            H("c15_sequence_from_new_2ops", "new + 2 operations (record or batch of 2): bucket i == #{samples <= bound i}, non-decreasing over bounds and over renders, "
              "count (+Inf) == #samples",
              kind="bounded", bound="<= 3 bounds, 2 operations, <= 4 samples", covers=2),
            H("c15_sequence_from_new", "the same from-new sequence contract with 3 operations",
              kind="bounded", bound="<= 3 bounds, 3 operations, <= 6 samples", covers=2, tier="thorough", timeout=900),
        ],
    }, {
        "crate": "metrics-exporter-prometheus", "cargo_args": ["--no-default-features"],
        "parallel": 4,
        "build_timeout": 2400,
        "modules": [{"file": DIST, "mod": "__verif_c15p", "src": "distribution.kani.rs"}],
        "functions": [
            {"item": "Matcher::matches, derived Ord for Matcher", "file": "metrics-exporter-prometheus/src/common.rs"},
            {"item": "DistributionBuilder::{get_distribution,get_distribution_type}", "file": DIST},
            {"item": "Distribution::{new_histogram,new_summary,record_samples}", "file": DIST},
            {"item": "RollingSummary::{new,add,snapshot,count,is_empty}", "file": DIST},
        ],
        "harnesses": [
            H("c15_matcher_matches", "Full = equality, Prefix = starts_with, Suffix = ends_with against a byte-level spec", kind="bounded",
              bound="pattern and name from 8 literals of <= 4 bytes", covers=4, tier="thorough"),
        ],
    }],
}
