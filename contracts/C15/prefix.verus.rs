// C15 -- "recording samples singly or in batches gives identical results", for ANY number of bounds and samples.
// Histogram::record adds 1 to EVERY bucket whose bound is >= the sample; Histogram::record_many adds 1 to the FIRST such
// bucket only and afterwards turns the per-batch counts into prefix sums.  The Kani harnesses check both loops on the real
// code for <= 4 bounds and batches <= 3; this spec-level lemma is the unbounded argument why the two algorithms agree
// exactly when the bounds ascend:     prefix_sum_i(first-fit counts of S)  ==  #{ s in S : s <= bound_i }.
// Samples and bounds are abstract tokens and `le` is an uninterpreted relation (IEEE `<=` in the code): the only fact used is
// ASCENDING: le(s, B[i]) ==> le(s, B[j]) for i <= j -- which IEEE gives for b_i <= b_j (transitivity; a NaN sample is <= nothing).
use vstd::prelude::*;

verus! {

pub uninterp spec fn le(s: int, b: int) -> bool;

pub open spec fn ascending(b: Seq<int>) -> bool {
    forall|s: int, i: int, j: int| #![trigger le(s, b[i]), le(s, b[j])] 0 <= i <= j < b.len() && le(s, b[i]) ==> le(s, b[j])
}

// what |S| single `record`s add to bucket with bound `bound`
pub open spec fn cnt(ss: Seq<int>, bound: int) -> nat
    decreases ss.len()
{
    if ss.len() == 0 { 0 } else { cnt(ss.drop_last(), bound) + (if le(ss.last(), bound) { 1nat } else { 0nat }) }
}

// record_many, inner loop: index of the first bound the sample fits under (b.len() if none: the sample is only counted)
pub open spec fn first_from(s: int, b: Seq<int>, i: nat) -> nat
    decreases b.len() - i
{
    if i >= b.len() { b.len() } else if le(s, b[i as int]) { i } else { first_from(s, b, i + 1) }
}

pub open spec fn first(s: int, b: Seq<int>) -> nat {
    first_from(s, b, 0)
}

// record_many, `bucketed[j]` after the sample loop
pub open spec fn first_fit(ss: Seq<int>, b: Seq<int>, j: nat) -> nat
    decreases ss.len()
{
    if ss.len() == 0 { 0 } else { first_fit(ss.drop_last(), b, j) + (if first(ss.last(), b) == j { 1nat } else { 0nat }) }
}

// record_many, `bucketed[i]` after the prefix-sum loop
pub open spec fn prefix(ss: Seq<int>, b: Seq<int>, i: nat) -> nat
    decreases i
{
    if i == 0 { first_fit(ss, b, 0) } else { prefix(ss, b, (i - 1) as nat) + first_fit(ss, b, i) }
}

proof fn lemma_first_from(s: int, b: Seq<int>, i: nat)
    requires i <= b.len(),
    ensures
        i <= first_from(s, b, i) <= b.len(),
        first_from(s, b, i) < b.len() ==> le(s, b[first_from(s, b, i) as int]),
        forall|j: int| i <= j < first_from(s, b, i) ==> !le(s, b[j]),
    decreases b.len() - i
{
    if i < b.len() && !le(s, b[i as int]) {
        lemma_first_from(s, b, i + 1);
    }
}

// with ascending bounds: the first fitting bound is at or before i  <=>  the sample is <= bound i
proof fn lemma_first_le(s: int, b: Seq<int>, i: nat)
    requires ascending(b), i < b.len(),
    ensures (first(s, b) <= i) == le(s, b[i as int]),
{
    lemma_first_from(s, b, 0);
    let f = first(s, b);
    if f <= i {
        assert(le(s, b[f as int]));
        assert(le(s, b[i as int]));
    } else {
        assert(!le(s, b[i as int]));
    }
}

proof fn lemma_prefix_step(ss: Seq<int>, b: Seq<int>, i: nat)
    requires ss.len() > 0,
    ensures prefix(ss, b, i) == prefix(ss.drop_last(), b, i) + (if first(ss.last(), b) <= i { 1nat } else { 0nat }),
    decreases i
{
    if i > 0 {
        lemma_prefix_step(ss, b, (i - 1) as nat);
    }
}

// MAIN: the batch algorithm (first fit + prefix sums) adds to bucket i exactly what |S| single records add
pub proof fn lemma_record_many_equals_records(ss: Seq<int>, b: Seq<int>, i: nat)
    requires ascending(b), i < b.len(),
    ensures prefix(ss, b, i) == cnt(ss, b[i as int]),
    decreases ss.len()
{
    if ss.len() > 0 {
        lemma_record_many_equals_records(ss.drop_last(), b, i);
        lemma_prefix_step(ss, b, i);
        lemma_first_le(ss.last(), b, i);
    } else {
        assert(ss =~= Seq::<int>::empty());
        lemma_prefix_empty(b, i);
    }
}

proof fn lemma_prefix_empty(b: Seq<int>, i: nat)
    ensures prefix(Seq::<int>::empty(), b, i) == 0,
    decreases i
{
    if i > 0 {
        lemma_prefix_empty(b, (i - 1) as nat);
    }
}

// counts never decrease from one bound to the next, and never exceed the number of samples (the +Inf bucket)
pub proof fn lemma_cumulative(ss: Seq<int>, b: Seq<int>, i: nat, j: nat)
    requires ascending(b), i <= j < b.len(),
    ensures cnt(ss, b[i as int]) <= cnt(ss, b[j as int]) <= ss.len(),
    decreases ss.len()
{
    if ss.len() > 0 {
        lemma_cumulative(ss.drop_last(), b, i, j);
        if le(ss.last(), b[i as int]) {
            assert(le(ss.last(), b[j as int]));
        }
    }
}

// any batching: counting over a concatenation is the sum of the counts (so splitting a batch anywhere changes nothing)
pub proof fn lemma_cnt_concat(s1: Seq<int>, s2: Seq<int>, bound: int)
    ensures cnt(s1 + s2, bound) == cnt(s1, bound) + cnt(s2, bound),
    decreases s2.len()
{
    if s2.len() == 0 {
        assert(s1 + s2 =~= s1);
    } else {
        lemma_cnt_concat(s1, s2.drop_last(), bound);
        assert((s1 + s2).drop_last() =~= s1 + s2.drop_last());
        assert((s1 + s2).last() == s2.last());
    }
}

fn main() {}

} // verus!
