// C15 -- Verus contracts for metrics-exporter-prometheus/src/distribution.rs: RollingSummary::{new, add} (unbounded in the
// number of buckets, samples and in every instant / duration).  //@ITEM blocks are replaced on every run by the item's text taken
// verbatim from /repo's working tree.
//
// Property clauses carried here: "a summary whose quantiles [cover the samples] within the rolling window and ignore samples
// older than the window, while its _sum and _count cover all samples" -- at the level of the bucket list: with non-decreasing
// sample timestamps every sample is filed into exactly one bucket whose interval [begin, begin + duration) contains its
// timestamp, buckets stay newest-first, pairwise disjoint and at most max_buckets, a bucket is only ever removed when it is
// older than the window (or pushed out by the max_buckets cap), and `count` counts every sample.
#![feature(allocator_api)]
#![allow(unused_imports, dead_code, unused_variables, unused_mut, unused_assignments)]
use vstd::prelude::*;

verus! {

global size_of usize == 8;

//@INCLUDE prelude/std_extra.rs

// ------------------------------------------------------------------ dependency stubs (ASSUMED specs)
/// quanta::Instant: u64 nanoseconds on a monotonic clock (quanta's representation)
#[derive(Clone, Copy)]
pub struct Instant { pub t: u64 }
/// std::time::Duration in nanoseconds; ASSUMPTION: durations fit in u64 nanoseconds (584 years)
#[derive(Clone, Copy)]
pub struct Duration { pub n: u64 }

// quanta: `Instant + Duration` panics on overflow
impl vstd::std_specs::ops::AddSpecImpl<Duration> for Instant {
    open spec fn obeys_add_spec() -> bool { true }
    open spec fn add_req(self, rhs: Duration) -> bool { self.t + rhs.n <= u64::MAX }
    open spec fn add_spec(self, rhs: Duration) -> Instant { Instant { t: (self.t + rhs.n) as u64 } }
}
impl std::ops::Add<Duration> for Instant {
    type Output = Instant;
    fn add(self, rhs: Duration) -> Instant { Instant { t: self.t + rhs.n } }
}
// std: `Duration * u32` panics on overflow
impl vstd::std_specs::ops::MulSpecImpl<u32> for Duration {
    open spec fn obeys_mul_spec() -> bool { true }
    open spec fn mul_req(self, rhs: u32) -> bool { self.n * rhs <= u64::MAX }
    open spec fn mul_spec(self, rhs: u32) -> Duration { Duration { n: (self.n * rhs) as u64 } }
}
impl std::ops::Mul<u32> for Duration {
    type Output = Duration;
    #[verifier::external_body]
    fn mul(self, rhs: u32) -> Duration { Duration { n: self.n * rhs as u64 } }
}
// quanta: `Instant += Duration` is `self.0 = self.0 + nanos` (rewrite R35 turns `a += d` into `a = a + d`; identical below the overflow bound)
impl vstd::std_specs::cmp::PartialEqSpecImpl for Instant {
    open spec fn obeys_eq_spec() -> bool { true }
    open spec fn eq_spec(&self, o: &Instant) -> bool { self.t == o.t }
}
impl PartialEq for Instant { fn eq(&self, o: &Instant) -> bool { self.t == o.t } }
impl vstd::std_specs::cmp::PartialOrdSpecImpl for Instant {
    open spec fn obeys_partial_cmp_spec() -> bool { true }
    open spec fn partial_cmp_spec(&self, o: &Instant) -> Option<core::cmp::Ordering> {
        if self.t < o.t { Some(core::cmp::Ordering::Less) } else if self.t == o.t { Some(core::cmp::Ordering::Equal) } else { Some(core::cmp::Ordering::Greater) }
    }
}
impl PartialOrd for Instant {
    fn partial_cmp(&self, o: &Instant) -> Option<core::cmp::Ordering> {
        if self.t < o.t { Some(core::cmp::Ordering::Less) } else if self.t == o.t { Some(core::cmp::Ordering::Equal) } else { Some(core::cmp::Ordering::Greater) }
    }
}
impl Instant {
    // quanta: checked_sub is None when the result would be negative
    pub fn checked_sub(&self, d: Duration) -> (r: Option<Instant>)
        ensures r == (if self.t >= d.n { Some(Instant { t: (self.t - d.n) as u64 }) } else { None::<Instant> })
    { if self.t >= d.n { Some(Instant { t: self.t - d.n }) } else { None } }
}
impl Duration {
    pub fn is_zero(&self) -> (r: bool) ensures r == (self.n == 0) { self.n == 0 }
    // further std API, so that a rewritten computation stays inside the verified subset
    pub fn as_nanos(&self) -> (r: u128) ensures r == self.n { self.n as u128 }
    pub fn as_micros(&self) -> (r: u128) ensures r == self.n / 1_000 { (self.n / 1_000) as u128 }
    pub fn as_millis(&self) -> (r: u128) ensures r == self.n / 1_000_000 { (self.n / 1_000_000) as u128 }
    pub fn as_secs(&self) -> (r: u64) ensures r == self.n / 1_000_000_000 { self.n / 1_000_000_000 }
    pub fn subsec_nanos(&self) -> (r: u32) ensures r == self.n % 1_000_000_000 { (self.n % 1_000_000_000) as u32 }
    pub fn from_nanos(n: u64) -> (r: Duration) ensures r.n == n { Duration { n } }
    pub fn from_secs(s: u64) -> (r: Duration) requires s * 1_000_000_000 <= u64::MAX, ensures r.n == s * 1_000_000_000 { Duration { n: s * 1_000_000_000 } }
}
impl Instant {
    // quanta: saturating difference
    pub fn duration_since(&self, earlier: Instant) -> (r: Duration)
        ensures r.n == (if self.t >= earlier.t { self.t - earlier.t } else { 0 })
    { Duration { n: if self.t >= earlier.t { self.t - earlier.t } else { 0 } } }
    pub fn saturating_duration_since(&self, earlier: Instant) -> (r: Duration)
        ensures r.n == (if self.t >= earlier.t { self.t - earlier.t } else { 0 })
    { Duration { n: if self.t >= earlier.t { self.t - earlier.t } else { 0 } } }
    pub fn checked_add(&self, d: Duration) -> (r: Option<Instant>)
        ensures r == (if self.t + d.n <= u64::MAX { Some(Instant { t: (self.t + d.n) as u64 }) } else { None::<Instant> })
    { if self.t <= u64::MAX - d.n { Some(Instant { t: self.t + d.n }) } else { None } }
}
// quanta: `Instant - Instant` saturates at zero
impl vstd::std_specs::ops::SubSpecImpl<Instant> for Instant {
    open spec fn obeys_sub_spec() -> bool { true }
    open spec fn sub_req(self, rhs: Instant) -> bool { true }
    open spec fn sub_spec(self, rhs: Instant) -> Duration { Duration { n: if self.t >= rhs.t { (self.t - rhs.t) as u64 } else { 0 } } }
}
impl std::ops::Sub for Instant {
    type Output = Duration;
    fn sub(self, rhs: Instant) -> Duration { Duration { n: if self.t >= rhs.t { self.t - rhs.t } else { 0 } } }
}

/// std::num::NonZeroU32
#[verifier::external_body]
#[derive(Clone, Copy)]
pub struct NonZeroU32 { _p: [u8; 0] }
impl NonZeroU32 {
    pub uninterp spec fn val(&self) -> u32;
    #[verifier::external_body]
    pub fn get(self) -> (r: u32) ensures r == self.val(), r > 0 { unimplemented!() }
}

/// metrics_util::storage::Summary (a DDSketch): ghost view = the samples added, in order.  Its quantile accuracy is the
/// dependency's contract and is NOT decided here.
#[verifier::external_body]
pub struct Summary { _p: [u8; 0] }
impl Summary {
    pub uninterp spec fn view(&self) -> Seq<f64>;
    #[verifier::external_body]
    pub fn with_defaults() -> (r: Summary) ensures r@ == Seq::<f64>::empty() { unimplemented!() }
    #[verifier::external_body]
    pub fn add(&mut self, value: f64) ensures final(self)@ == old(self)@.push(value) { unimplemented!() }
}

// ------------------------------------------------------------------ the real items
//@ITEM file=metrics-exporter-prometheus/src/distribution.rs sel=struct Bucket
//@END

//@ITEM file=metrics-exporter-prometheus/src/distribution.rs sel=struct RollingSummary
//@END

pub open spec fn covers(begin: Instant, dur: Duration, now: Instant) -> bool {
    begin.t <= now.t < begin.t + dur.n
}

/// the buckets of `s` that began after `cutoff`, in order
spec fn newer(s: Seq<Bucket>, cutoff: int) -> Seq<Bucket>
    decreases s.len()
{
    if s.len() == 0 { s }
    else if s[0].begin.t > cutoff { seq![s[0]] + newer(s.drop_first(), cutoff) }
    else { newer(s.drop_first(), cutoff) }
}

// Vec::retain keeps exactly the elements the predicate accepts, in order (std contract, ASSUMED).  The rewrite SPEC-closure
// hands the shim the cutoff the PROPERTY asks for ("ignore samples older than the window": keep a bucket iff it began after
// now - window) and annotates the real closure with the same clause, so the real predicate text is checked against it.
#[verifier::external_body]
fn shim_retain_newer<F: FnMut(&Bucket) -> bool>(v: &mut Vec<Bucket>, Ghost(cutoff): Ghost<int>, f: F)
    requires forall|x: &Bucket| #[trigger] f.requires((x,)),
             forall|x: &Bucket, r: bool| #[trigger] f.ensures((x,), r) ==> r == (x.begin.t > cutoff),
    ensures final(v)@ == newer(old(v)@, cutoff),
{ v.retain(f) }

spec fn descending(s: Seq<Bucket>, dur: Duration) -> bool {
    forall|i: int, j: int| 0 <= i < j < s.len() ==> #[trigger] s[i].begin.t >= #[trigger] s[j].begin.t + dur.n
}

impl RollingSummary {
    /// representation invariant: newest first, pairwise disjoint intervals, at most max_buckets, window = count * duration
    spec fn wf(&self) -> bool {
        &&& self.max_buckets >= 1
        &&& self.bucket_duration.n > 0
        &&& self.max_bucket_duration.n == self.bucket_duration.n * self.max_buckets
        &&& self.buckets@.len() <= self.max_buckets
        &&& descending(self.buckets@, self.bucket_duration)
    }
    spec fn same_config(&self, o: &RollingSummary) -> bool {
        self.max_buckets == o.max_buckets && self.bucket_duration == o.bucket_duration && self.max_bucket_duration == o.max_bucket_duration
    }
    spec fn some_bucket_covers(&self, now: Instant) -> bool {
        exists|i: int| 0 <= i < self.buckets@.len() && covers(#[trigger] self.buckets@[i].begin, self.bucket_duration, now)
    }
    /// "ignore samples older than the window": the buckets that began less than count*duration before `now`, in order
    spec fn unexpired(&self, now: Instant) -> Seq<Bucket> {
        if now.t >= self.max_bucket_duration.n { newer(self.buckets@, now.t - self.max_bucket_duration.n) } else { self.buckets@ }
    }
}

// descending begins: the unexpired buckets are a prefix of the list
proof fn lemma_newer_prefix(s: Seq<Bucket>, cutoff: int, dur: Duration)
    requires descending(s, dur),
    ensures
        newer(s, cutoff).len() <= s.len(),
        newer(s, cutoff) == s.take(newer(s, cutoff).len() as int),
        forall|i: int| 0 <= i < newer(s, cutoff).len() ==> #[trigger] s[i].begin.t > cutoff,
        forall|i: int| newer(s, cutoff).len() <= i < s.len() ==> #[trigger] s[i].begin.t <= cutoff,
    decreases s.len()
{
    if s.len() == 0 {
        assert(newer(s, cutoff) =~= s.take(0));
    } else {
        let rest = s.drop_first();
        assert(descending(rest, dur)) by {
            assert forall|i: int, j: int| 0 <= i < j < rest.len() implies #[trigger] rest[i].begin.t >= #[trigger] rest[j].begin.t + dur.n by {
                assert(rest[i] == s[i + 1] && rest[j] == s[j + 1]);
            }
        }
        lemma_newer_prefix(rest, cutoff, dur);
        let r = newer(rest, cutoff);
        if s[0].begin.t > cutoff {
            assert(newer(s, cutoff) == seq![s[0]] + r);
            assert(newer(s, cutoff) =~= s.take(r.len() as int + 1)) by {
                assert(r == rest.take(r.len() as int));
                assert forall|i: int| 0 <= i < r.len() + 1 implies (seq![s[0]] + r)[i] == s.take(r.len() as int + 1)[i] by {
                    if i > 0 { assert(r[i - 1] == rest.take(r.len() as int)[i - 1]); assert(rest[i - 1] == s[i]); }
                }
            }
            assert forall|i: int| 0 <= i < newer(s, cutoff).len() implies #[trigger] s[i].begin.t > cutoff by {
                if i > 0 { assert(rest[i - 1] == s[i]); }
            }
            assert forall|i: int| newer(s, cutoff).len() <= i < s.len() implies #[trigger] s[i].begin.t <= cutoff by {
                assert(rest[i - 1] == s[i]);
            }
        } else {
            // the newest bucket is expired => every older one is too
            if r.len() > 0 {
                assert(rest[0] == s[1]);
                assert(rest[0].begin.t > cutoff);
                assert(s[0].begin.t >= s[1].begin.t + dur.n);
                assert(false);
            }
            assert(newer(s, cutoff) =~= s.take(0));
            assert forall|i: int| 0 <= i < s.len() implies #[trigger] s[i].begin.t <= cutoff by {
                if i > 0 { assert(s[0].begin.t >= s[i].begin.t + dur.n); }
            }
        }
    }
}

impl RollingSummary {
//@ITEM file=metrics-exporter-prometheus/src/distribution.rs sel=impl RollingSummary :: fn new ret=r
//@REWRITE R34 std::num::NonZeroU32 ==> NonZeroU32
//@SPEC
    requires bucket_duration.n > 0, bucket_duration.n * buckets.val() <= u64::MAX,
    ensures r.wf(), r.buckets@.len() == 0, r.count == 0, r.max_buckets == buckets.val(), r.bucket_duration == bucket_duration,
            r.max_bucket_duration.n == bucket_duration.n * buckets.val(),
//@END

//@ITEM file=metrics-exporter-prometheus/src/distribution.rs sel=impl RollingSummary :: fn add
//@REWRITE R35? re:(\w+) \+= (self\.bucket_duration); ==> \1 = \1 + \2;
//@REWRITE SPEC-closure re:self\.buckets\.retain\(\|b\| (.+?)\); ==> shim_retain_newer(&mut self.buckets, Ghost(cutoff.t as int), |b: &Bucket| -> (keep: bool) ensures keep == (b.begin.t > cutoff.t) { \1 });
//@SPEC
    requires
        old(self).wf(),
        old(self).count < usize::MAX,
        // "non-decreasing sample timestamps": no stored bucket begins after this sample
        forall|i: int| 0 <= i < old(self).buckets@.len() ==> #[trigger] old(self).buckets@[i].begin.t <= now.t,
        // quanta / std panic on overflow of Instant + Duration
        now.t + 2 * old(self).bucket_duration.n <= u64::MAX,
    ensures
        final(self).wf(),
        final(self).same_config(old(self)),
        // _count covers all samples
        final(self).count == old(self).count + 1,
        // the sample is filed into exactly one bucket, whose interval contains its timestamp
        old(self).some_bucket_covers(now) ==> (exists|i: int| 0 <= i < old(self).buckets@.len() && {
            &&& covers(#[trigger] old(self).buckets@[i].begin, old(self).bucket_duration, now)
            &&& final(self).buckets@.len() == old(self).buckets@.len()
            &&& final(self).buckets@[i].begin == old(self).buckets@[i].begin
            &&& final(self).buckets@[i].summary@ == old(self).buckets@[i].summary@.push(value)
            &&& forall|j: int| 0 <= j < old(self).buckets@.len() && j != i ==> #[trigger] final(self).buckets@[j] == old(self).buckets@[j]
        }),
        !old(self).some_bucket_covers(now) ==> {
            &&& final(self).buckets@.len() >= 1
            &&& covers(final(self).buckets@[0].begin, old(self).bucket_duration, now)
            &&& final(self).buckets@[0].summary@ == seq![value]
            // the rest: the old buckets still inside the window, newest first, cut only by the max_buckets cap
            &&& final(self).buckets@.len() - 1 == (if old(self).unexpired(now).len() <= old(self).max_buckets - 1 { old(self).unexpired(now).len() as int } else { old(self).max_buckets - 1 })
            &&& forall|j: int| 1 <= j < final(self).buckets@.len() ==> #[trigger] final(self).buckets@[j] == old(self).unexpired(now)[j - 1]
        },
//@FORLOOP 1 idx:vi
//@LOOP 1
    invariant
        self.wf(), self.same_config(old(self)), self.buckets@ == old(self).buckets@, self.count == old(self).count + 1,
        now.t + 2 * self.bucket_duration.n <= u64::MAX,
        forall|i: int| 0 <= i < self.buckets@.len() ==> #[trigger] self.buckets@[i].begin.t <= now.t,
        forall|j: int| 0 <= j < vi ==> !covers(#[trigger] self.buckets@[j].begin, self.bucket_duration, now),
        forall|j: int| 0 <= j < vi ==> #[trigger] self.buckets@[j].begin.t + self.bucket_duration.n <= now.t,
    ensures
        self.wf(), self.same_config(old(self)), self.buckets@ == old(self).buckets@, self.count == old(self).count + 1,
        forall|j: int| 0 <= j < self.buckets@.len() ==> !covers(#[trigger] self.buckets@[j].begin, self.bucket_duration, now),
        self.buckets@.len() > 0 ==> self.buckets@[0].begin.t + self.bucket_duration.n <= now.t,
    decreases self.buckets@.len() - vi
//@LOOP 2?
    invariant
        self.bucket_duration.n > 0,
        begin.t <= now.t, end.t == begin.t + self.bucket_duration.n, now.t + 2 * self.bucket_duration.n <= u64::MAX,
        begin.t >= reftime.t + self.bucket_duration.n,
        self.wf(), self.same_config(old(self)), self.count == old(self).count + 1, self.buckets@ == b1, b1.len() >= 1, reftime == b1[0].begin,
        b1 == old(self).unexpired(now), !old(self).some_bucket_covers(now), summary@ == seq![value],
    decreases now.t - begin.t
//@AFTERLOOP 1
        let ghost b0 = self.buckets@;
//@AFTER 1 stmt:if let Some(cutoff)
        proof {
            if now.t >= self.max_bucket_duration.n {
                lemma_newer_prefix(b0, now.t - self.max_bucket_duration.n, self.bucket_duration);
            }
            assert(self.buckets@ == old(self).unexpired(now));
            assert(self.buckets@ =~= b0.take(self.buckets@.len() as int));
            assert(descending(self.buckets@, self.bucket_duration));
        }
        let ghost b1 = self.buckets@;
//@AFTERLOOP 2?
        proof {
            assert(covers(begin, self.bucket_duration, now));
        }
//@BODYEND
        proof {
            if self.buckets@.len() > 0 && self.buckets@.len() != b1.len() {
                let n = self.buckets@.len() as int;
                assert forall|i: int, j: int| 0 <= i < j < n implies #[trigger] self.buckets@[i].begin.t >= #[trigger] self.buckets@[j].begin.t + self.bucket_duration.n by {
                    if i == 0 { assert(self.buckets@[j] == b1[j - 1]); assert(b1[0].begin.t >= b1[j - 1].begin.t + (if j == 1 { 0 } else { self.bucket_duration.n as int })); }
                    else { assert(self.buckets@[i] == b1[i - 1] && self.buckets@[j] == b1[j - 1]); }
                }
            }
        }
//@END
}

// ------------------------------------------------------------------ snapshot: merge exactly the buckets inside the window
/// samples of the buckets of `s` that are inside the window (`cutoff` = now - window when representable), newest bucket first
spec fn merged(s: Seq<Bucket>, cutoff: Option<Instant>) -> Seq<f64>
    decreases s.len()
{
    if s.len() == 0 { Seq::<f64>::empty() }
    else if cutoff is None || s[0].begin.t > cutoff->Some_0.t { s[0].summary@ + merged(s.drop_first(), cutoff) }
    else { merged(s.drop_first(), cutoff) }
}

// R45: `self.buckets.iter().filter(P).map(|b| &b.summary).fold(&mut acc, |acc, item| { acc.merge(item).expect(..); acc })` -- an
// iterator-adapter chain Verus cannot take -- becomes `shim_merge_filtered(&self.buckets, Ghost(cutoff), P, &mut acc)`.  std's
// filter / map / fold contracts and Summary::merge (appends the other sketch's samples; Ok for equal configurations) are ASSUMED;
// the REAL predicate text P stays and is annotated with what the property asks of it ("ignore samples older than the window").
#[verifier::external_body]
fn shim_merge_filtered<F: FnMut(&Bucket) -> bool>(v: &Vec<Bucket>, Ghost(cutoff): Ghost<Option<Instant>>, f: F, acc: &mut Summary)
    requires forall|x: &Bucket| #[trigger] f.requires((x,)),
             forall|x: &Bucket, r: bool| #[trigger] f.ensures((x,), r) ==> r == (cutoff is None || x.begin.t > cutoff->Some_0.t),
    ensures final(acc)@ == old(acc)@ + merged(v@, cutoff),
{ unimplemented!() }

impl RollingSummary {
//@ITEM file=metrics-exporter-prometheus/src/distribution.rs sel=impl RollingSummary :: fn snapshot ret=r
//@REWRITE R45 re:(?s)self\.buckets\s*\.iter\(\)\s*\.filter\(\|b\| (.+?)\)\s*\.map\(\|b\| &b\.summary\)\s*\.fold\(&mut acc, \|acc, item\| \{\s*acc\.merge\(item\)\.expect\("[^"]*"\);\s*acc\s*\}\); ==> shim_merge_filtered(&self.buckets, Ghost(cutoff), |b: &Bucket| -> (keep: bool) ensures keep == (cutoff is None || b.begin.t > cutoff->Some_0.t) { \1 }, &mut acc);
//@SPEC
    ensures
        // exactly the samples of the buckets that began less than count*duration before `now`; every bucket when now < window
        r@ == merged(self.buckets@, if now.t >= self.max_bucket_duration.n { Some(Instant { t: (now.t - self.max_bucket_duration.n) as u64 }) } else { None::<Instant> }),
        // an empty rolling summary gives an empty snapshot (quantile 0 is the renderer's reading of that)
        self.buckets@.len() == 0 ==> r@.len() == 0,
//@END
}

} // verus!
fn main() {}
