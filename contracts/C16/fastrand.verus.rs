// C16 — Verus contract for `fastrand` (metrics-util/src/storage/reservoir.rs): the Kani harnesses stub `fastrand` by the contract
// "returns some r < upper, needs upper > 0"; this template checks the real `fastrand` against that contract, with rand's
// `Rng::random_range` as the ASSUMED dependency contract (a value inside the given range; panics on an empty range).
#![allow(unused_imports, dead_code, unused_variables, unused_mut)]
use vstd::prelude::*;

verus! {

global size_of usize == 8;

//@INCLUDE prelude/std_extra.rs

/// rand::distr::uniform::SampleRange<usize>, for the two range forms
pub trait SampleRange {
    spec fn admits(&self, x: usize) -> bool;
    spec fn empty(&self) -> bool;
}
impl SampleRange for core::ops::Range<usize> {
    open spec fn admits(&self, x: usize) -> bool { self.start <= x < self.end }
    open spec fn empty(&self) -> bool { self.start >= self.end }
}
impl SampleRange for core::ops::RangeInclusive<usize> {
    open spec fn admits(&self, x: usize) -> bool { self@.start <= x <= self@.end }
    open spec fn empty(&self) -> bool { self@.exhausted || self@.start > self@.end }
}
/// rand_xoshiro::Xoshiro256StarStar through rand::Rng (ASSUMED: random_range yields a value of the range, panics if it is empty;
/// uniformity and independence of the stream are assumed, not verified)
#[verifier::external_body] pub struct Xoshiro256StarStar { _p: [u8; 0] }
impl Xoshiro256StarStar {
    #[verifier::external_body]
    pub fn random_range<R: SampleRange>(&mut self, range: R) -> (r: usize)
        requires !range.empty(),
        ensures range.admits(r),
    { unimplemented!() }
}
/// the thread-local `FAST_RNG: UnsafeCell<Xoshiro256StarStar>` (declared by thread_local!, seeded from the OS)
#[verifier::external_body] pub struct RngCell { _p: [u8; 0] }
pub struct FastRngKey;
pub const FAST_RNG: FastRngKey = FastRngKey;
impl FastRngKey {
    /// std::thread::LocalKey::with: runs the closure on this thread's value and returns its result
    #[verifier::external_body]
    pub fn with<R, F: FnOnce(&RngCell) -> R>(&self, f: F) -> (r: R)
        requires forall|c: &RngCell| f.requires((c,)),
        ensures exists|c: &RngCell| f.ensures((c,), r),
    { unimplemented!() }
}
// R32: `unsafe { &mut *CELL.get() }` -> shim_tls_mut(CELL): the exclusive reference to the thread-local generator (the SAFETY
// argument of the source -- thread-local, does not outlive the closure -- is not checked)
#[verifier::external_body]
pub fn shim_tls_mut(c: &RngCell) -> (r: &mut Xoshiro256StarStar) { unimplemented!() }

//@ITEM file=metrics-util/src/storage/reservoir.rs sel=fn fastrand ret=r
//@REWRITE R32 re:unsafe \{ &mut \*(\w+)\.get\(\) \} ==> shim_tls_mut(\1)
// SPEC-closure: the closure handed to LocalKey::with is annotated with the function's own postcondition
//@REWRITE SPEC-closure re:\.with\(\|(\w+)\| \{ ==> .with(|\1: &RngCell| -> (x: usize) ensures x < upper {
//@SPEC
    requires upper > 0,         // rand panics on the empty range 0..0 (Reservoir::push never asks for it: Kani c16_push_no_panic)
    ensures r < upper,          // a slot index drawn from [0, upper): with upper == idx + 1 this is Algorithm R's [0, idx]
//@END

} // verus!
fn main() {}
