def H(name, clause, kind="complete", tier="quick", timeout=600, replay=True, covers=0, **kw):
    d = dict(name=name, obligation=f"C16/kani/{name}", clause=clause, kind=kind, tier=tier, timeout=timeout, replay=replay, covers=covers)
    d.update(kw)
    return d

RES = "metrics-util/src/storage/reservoir.rs"

PLAN = {
    "property": "C16",
    "level": "proof",
    "manifest": {
        "technique": "Kani/CBMC function contracts on the real Reservoir/Drain/AtomicSamplingReservoir with the PRNG stubbed by its "
                     "rand::random_range contract and a ghost recording the requested range; Verus spec-level induction for the retention probability",
        "text": "Reservoir::push is checked against its contract for an arbitrary pre-state (every count < usize::MAX, every f64 bit pattern, "
                "every slot content, every random draw): fill slot idx while idx < capacity, otherwise exactly one draw from [0, idx] "
                "(requested upper bound == idx + 1, never 0) replacing slot r iff r < capacity; drain/Drain yield exactly min(pushed, capacity) "
                "slots in order, report yielded/pushed as sample rate and reset the count on drop; consume swaps sides and drains the retired one. "
                "The Verus lemma turns the per-step clause into 'every stream position is retained with probability capacity/n' by induction "
                "(counting equally likely draw sequences). sample_rate and Drain::drop are complete over all (pushed, capacity) in usize^2; the "
                "slice-touching contracts are checked for capacity <= 4 (the capacity only sizes the slice) and are listed as bounded.",
        "note": "Trusted: rand's random_range(0..upper) is uniform on [0, upper) and panics iff upper == 0 (stub contract); SC atomics; "
                "sequential histories only (pushes racing a drain into the retired side are lost by design; only the one clause 'the side is empty after the drain' is decided for them (c16_drop_after_late_push)); count < usize::MAX.",
    },
    "min_obligations": {"quick": 5, "thorough": 5},
    "assumptions": [
        "in the Kani harnesses fastrand(upper) is replaced by a stub carrying its contract; the real fastrand is checked against that contract by Verus (fastrand.verus.rs: requires upper > 0, ensures r < upper) with R32 (`unsafe { &mut *cell.get() }` -> shim) and LocalKey::with / Rng::random_range as assumed contracts",
        "fastrand(upper) is replaced by a stub carrying rand::Rng::random_range's contract: requires upper > 0 (rand panics on an empty range), "
        "returns an arbitrary r < upper; uniformity/independence of the thread-local Xoshiro256** stream is assumed, not verified",
        "precondition of push: fewer than usize::MAX pushes since the last drain (idx + 1 must not overflow; 2^64 pushes are unreachable in practice)",
        "capacity only sizes the boxed slice; the slice-touching contracts (push, drain/next, cycles, consume) are machine-checked for capacity <= 4 "
        "(<= 2 for multi-cycle harnesses) and are listed as bounded; count, values, slot contents and draws are unrestricted",
        "sequential histories: the push issued from inside the consume closure models a push that observes the swapped flag; a push that loaded "
        "use_primary before the swap and lands in the retired side while it is drained is dropped by Drain::drop (by design) -- the statement's "
        "accounting clause for pushes truly concurrent with a drain is NOT decided",
        "atomics are sequentially consistent (Kani has no weak memory model); Mutex::lock is std's, single-threaded in the harness",
        "the retention lemma (uniform.verus.rs) is a spec-level model of Algorithm R whose step is exactly the push contract checked by Kani "
        "(draw from idx+1 equally likely values, replace slot r iff r < capacity); it is not extracted from the source text",
        "c16_rate_and_reset is solved with CBMC's SMT back end + cvc5 (/usr/bin/cvc5): proving the code's f64 quotient equal to the specification's "
        "takes CaDiCaL > 10 min, cvc5 ~20 s; every other harness uses Kani's default CaDiCaL",
        "c16_push_no_panic and c16_first_sampled_push keep the stub out of their bodies so that a counterexample can be replayed on the real PRNG: "
        "the replay of c16_first_sampled_push is statistical (256 independent pushes of the (cap+1)-th item must drop it at least once; a correct "
        "reservoir fails that with probability <= (4/5)^256 < 2e-25)",
        "capacity is made a literal in each match arm of the harnesses (a symbolic allocation size runs CBMC out of memory); all arms are explored",
        "panic = failure; unwinding not modelled",
    ],
    "verus": [
        # spec-level lemma (no source items): kept(c,i,n)/hist(c,n) == c/n for every position i <= n, n >= c, by induction
        {"template": "uniform.verus.rs", "tier": "quick", "rlimit": 30, "min_functions": 2},
        # the real `fastrand` against the contract the Kani harnesses assume for it (rand's random_range as dependency contract)
        {"template": "fastrand.verus.rs", "tier": "quick", "rlimit": 30, "min_functions": 1},
    ],
    "kani": [{
        "crate": "metrics-util",
        "parallel": 4,
        "modules": [{"file": RES, "mod": "__verif_c16", "src": "reservoir.kani.rs"}],
        "functions": [
            {"item": "fastrand (stubbed: contract of rand::random_range)", "file": RES},
            {"item": "Reservoir::{with_capacity,push,drain}", "file": RES},
            {"item": "Drain::{sample_rate,next,len,drop}", "file": RES},
            {"item": "AtomicSamplingReservoir::{new,is_empty,push,consume}", "file": RES},
        ],
        "harnesses": [
            H("c16_push_contract",
              "arbitrary pre-state: count'==count+1; idx<cap => slot idx:=v, no draw; else exactly one draw with upper == idx+1 (>0), slot r:=v iff r<cap; "
              "all other slots unchanged; no panic incl. cap 0",
              kind="bounded", bound="capacity <= 4 (count, value, slots, draw unrestricted)", replay=False, covers=6, timeout=900),
            H("c16_push_no_panic",
              "push never panics for any capacity (incl. 0), count < usize::MAX and value: the random range requested is never empty",
              kind="bounded", bound="capacity <= 4", replay=True, covers=0),
            H("c16_first_sampled_push",
              "the (cap+1)-th item draws from exactly cap+1 values and is kept iff the draw < cap (probability cap/(cap+1)); replay = 256 real-PRNG trials must drop it at least once",
              kind="bounded", bound="capacity <= 4", replay=True, covers=2),
            H("c16_drain_contract",
              "arbitrary pre-state: yields exactly slots [0, min(count,cap)) in order then None; len counts down; rate == yielded/count (1.0 if nothing dropped); "
              "Drain::drop resets count to 0 (next drain empty), slots untouched",
              kind="bounded", bound="capacity <= 4 (count, slots unrestricted)", covers=4),
            H("c16_rate_and_reset",
              "for all (pushed, capacity) in usize^2: sample_rate == min(pushed,capacity)/pushed (1.0 when pushed <= capacity), in [0,1]; Drain::drop sets count to 0",
              kind="complete", covers=2),
            H("c16_drop_after_late_push",
              "for all (pushed, late, capacity): with `late` pushes landing on the retired side between drain() and Drain::drop, the side is empty (count == 0) after the drop",
              kind="complete", covers=0),
            H("c16_cycles",
              "two push/drain cycles + an empty third drain: only values of the current cycle are yielded, <= capacity, all (in order) when <= capacity pushed, "
              "rate == yielded/pushed, next drain starts empty",
              kind="bounded", bound="capacity <= 2, <= capacity+2 pushes per cycle, 2 cycles", replay=False, covers=3, timeout=900),
            H("c16_atomic_consume",
              "consume flips use_primary and drains the retired side once; pushes go to the active side; a push during the drain (mutex held) does not block, "
              "lands in the new side and is reported next; each side is empty when drained again",
              kind="bounded", bound="size <= 2, <= size+1 pushes per cycle, 3 consumes", replay=False, covers=3, timeout=900),
        ],
    }],
    # public-API test of the drain contract: confirms a violation when the harnesses no longer compile against a restructured
    # Drain / Reservoir (exit 2 otherwise), replays a failed drain harness
    "witnesses": [
        {"match": r"(kani-codegen|c16_rate|c16_drain|Drain|reservoir)", "name": "Drain / AtomicSamplingReservoir::consume", "src": "witness_drain.rs", "crate": "metrics-util", "file": "metrics-util/src/storage/reservoir.rs"},
    ],
}
