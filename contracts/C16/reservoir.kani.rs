// C16 -- contracts on the real `Reservoir`, `Drain` and `AtomicSamplingReservoir`
// (metrics-util/src/storage/reservoir.rs).
//
// `fastrand` (thread-local Xoshiro seeded from the OS) is replaced by a stub that carries the contract of
// `rand::Rng::random_range(0..upper)`: REQUIRES upper > 0 (rand panics on an empty range), returns ANY
// r < upper (every value possible: the uniformity of the PRNG itself is assumed).  A ghost records the
// requested upper bound so the Algorithm-R obligation "item number idx+1 draws uniformly from [0, idx]"
// becomes the code-level clause `upper == idx + 1`.
use super::*;

pub const MAXCAP: usize = 4;

#[cfg(kani)]
pub mod ghost {
    pub static mut CALLS: u32 = 0;
    pub static mut UPPER: usize = 0;
    pub static mut DRAW: usize = 0;
    pub fn fastrand_stub(upper: usize) -> usize {
        unsafe {
            CALLS += 1;
            UPPER = upper;
        }
        assert!(upper > 0, "C16 no-panic: fastrand(0) -- rand::random_range panics on the empty range 0..0");
        let r: usize = kani::any();
        kani::assume(r < upper);
        unsafe {
            DRAW = r;
        }
        r
    }
    pub fn calls() -> u32 { unsafe { CALLS } }
    pub fn upper() -> usize { unsafe { UPPER } }
    pub fn draw() -> usize { unsafe { DRAW } }
}

/// arbitrary pre-state: capacity `cap`, `count` pushes since the last drain, slot i holds bits s[i]
fn mk(cap: usize, count: usize, s: [u64; MAXCAP]) -> Reservoir {
    let r = Reservoir::with_capacity(cap);
    r.count.store(count, Relaxed);
    let mut i = 0;
    while i < cap {
        r.values[i].store(s[i], Relaxed);
        i += 1;
    }
    r
}

// ------------------------------------------------------------------------------------------------
// Reservoir::push -- function contract for an ARBITRARY pre-state.
//   requires  count < usize::MAX              (fewer than 2^64-1 pushes since the last drain)
//   ensures   count' == count + 1
//             idx := count < cap  ==> slot idx := bits(v), every other slot unchanged, no random draw
//             idx >= cap          ==> exactly ONE draw, from the range [0, idx]  (upper == idx + 1: the
//                                     (idx+1)-th item of the stream is kept with probability cap/(idx+1)),
//                                     slot r := bits(v) iff r < cap, every other slot unchanged
//             never panics (also for cap == 0), loop-free (never blocks)
#[cfg(kani)]
#[kani::proof]
#[kani::unwind(6)]
#[kani::stub(fastrand, ghost::fastrand_stub)]
fn c16_push_contract() {
    let cap: usize = kani::any();
    let count: usize = kani::any();
    let vbits: u64 = kani::any();
    let s: [u64; MAXCAP] = kani::any();
    kani::assume(cap <= MAXCAP);
    kani::assume(count < usize::MAX);
    // the capacity is made a literal in each arm (a symbolic allocation size blows CBMC up); all five arms are explored
    match cap {
        0 => push_contract_at(0, count, vbits, s),
        1 => push_contract_at(1, count, vbits, s),
        2 => push_contract_at(2, count, vbits, s),
        3 => push_contract_at(3, count, vbits, s),
        _ => push_contract_at(4, count, vbits, s),
    }
}
#[cfg(kani)]
#[inline(never)]
fn push_contract_at(cap: usize, count: usize, vbits: u64, s: [u64; MAXCAP]) {
    let r = mk(cap, count, s);
    assert!(r.values.len() == cap);

    r.push(f64::from_bits(vbits));

    assert!(r.count.load(Relaxed) == count + 1, "C16 push: count' == count + 1");
    assert!(r.values.len() == cap);
    let idx = count;
    let target: Option<usize> = if idx < cap {
        assert!(ghost::calls() == 0, "C16 push: no random draw while filling");
        Some(idx)
    } else {
        assert!(ghost::calls() == 1, "C16 push: exactly one random draw per sampled push");
        assert!(
            ghost::upper() == idx + 1,
            "C16 uniformity (Algorithm R): item idx+1 must draw from [0, idx], i.e. fastrand(idx + 1)"
        );
        if ghost::draw() < cap { Some(ghost::draw()) } else { None }
    };
    let mut i = 0;
    while i < cap {
        let now = r.values[i].load(Relaxed);
        if Some(i) == target {
            assert!(now == vbits, "C16 push: chosen slot holds exactly the bits of the pushed value");
        } else {
            assert!(now == s[i], "C16 push: every other slot unchanged");
        }
        i += 1;
    }
    kani::cover!(cap == 0);
    kani::cover!(cap == MAXCAP && idx < cap);
    kani::cover!(cap == MAXCAP && idx == cap && target == Some(cap - 1));
    kani::cover!(cap > 0 && idx > cap && target.is_none());
    kani::cover!(count == usize::MAX - 1);
    kani::cover!(f64::from_bits(vbits).is_nan());
}

// ------------------------------------------------------------------------------------------------
// "pushing never panics for any capacity or value": replayable (the body does not mention the stub; in a
// replay build the REAL fastrand runs, so a capacity-0 counterexample panics inside rand).
pub fn c16_push_no_panic_body(cap: usize, count: usize, vbits: u64) {
    kani::assume(cap <= MAXCAP);
    kani::assume(count < usize::MAX);
    // literal capacity per arm (a symbolic allocation size blows CBMC up); all arms explored
    let r = match cap {
        0 => Reservoir::with_capacity(0),
        1 => Reservoir::with_capacity(1),
        2 => Reservoir::with_capacity(2),
        3 => Reservoir::with_capacity(3),
        _ => Reservoir::with_capacity(4),
    };
    assert!(r.values.len() == cap);
    r.count.store(count, Relaxed);
    r.push(f64::from_bits(vbits));
    assert!(r.count.load(Relaxed) == count + 1);
    // no kani::cover! here on purpose: Kani prints one playback test per cover as well and the driver replays the first one
    // printed; reachability of (cap == 0, sampled push) is guarded by the covers of c16_push_contract
}
#[cfg(kani)]
#[kani::proof]
#[kani::unwind(6)]
#[kani::stub(fastrand, ghost::fastrand_stub)]
fn c16_push_no_panic() {
    c16_push_no_panic_body(kani::any(), kani::any(), kani::any());
}

// ------------------------------------------------------------------------------------------------
// "every position retained with the same probability": the FIRST sampled item (stream position cap, the (cap+1)-th item)
// must be kept with probability cap/(cap+1), i.e. dropped with probability 1/(cap+1) > 0.
//   Kani side   : the draw is requested from cap+1 values and the item is stored iff the draw is < cap, so BOTH outcomes
//                 (kept / dropped) are possible draws;
//   replay side : a counterexample of this clause cannot be shown by one deterministic run, so the replay build (real PRNG,
//                 no stub) runs the same push 256 times independently and fails when the item is kept every single time
//                 (a correct reservoir does that with probability (cap/(cap+1))^256 <= (4/5)^256 < 2e-25).
pub fn c16_first_sampled_push_body(cap: usize, vbits: u64) {
    kani::assume(cap <= MAXCAP);
    #[cfg(kani)]
    {
        let s = [!vbits; MAXCAP];
        let r = match cap {
            0 => mk(0, 0, s),
            1 => mk(1, 1, s),
            2 => mk(2, 2, s),
            3 => mk(3, 3, s),
            _ => mk(4, 4, s),
        };
        r.push(f64::from_bits(vbits));
        assert!(ghost::calls() == 1);
        assert!(ghost::upper() == cap + 1, "C16 uniformity: the (cap+1)-th item draws from cap+1 values (kept with probability cap/(cap+1))");
        let mut kept = false;
        let mut i = 0;
        while i < cap {
            if r.values[i].load(Relaxed) == vbits { kept = true; }
            i += 1;
        }
        assert!(kept == (ghost::draw() < cap));
        kani::cover!(cap == MAXCAP && !kept);
        kani::cover!(cap == 1 && kept);
    }
    #[cfg(not(kani))]
    {
        let trials = 256;
        let mut dropped = 0;
        for _ in 0..trials {
            let r = Reservoir::with_capacity(cap);
            for i in 0..cap {
                r.values[i].store(!vbits, Relaxed);
            }
            r.count.store(cap, Relaxed);
            r.push(f64::from_bits(vbits)); // capacity 0 on the defective tree: panics here (empty range)
            if !(0..cap).any(|i| r.values[i].load(Relaxed) == vbits) {
                dropped += 1;
            }
        }
        assert!(
            dropped > 0,
            "the item at stream position {cap} was retained in {trials} of {trials} independent trials; Algorithm R keeps it with probability {cap}/{}",
            cap + 1
        );
    }
}
#[cfg(kani)]
#[kani::proof]
#[kani::unwind(6)]
#[kani::stub(fastrand, ghost::fastrand_stub)]
fn c16_first_sampled_push() {
    c16_first_sampled_push_body(kani::any(), kani::any());
}

// ------------------------------------------------------------------------------------------------
// Reservoir::drain + Drain::{len,next,sample_rate,drop} -- function contract for an ARBITRARY pre-state
// (any count in usize, any slot contents), capacity <= MAXCAP:
//   yielded == min(count, cap) <= cap; items are exactly slots [0, yielded) in order, bit for bit, then None;
//   ExactSizeIterator::len counts down; sample_rate == yielded / count (1.0 when nothing was dropped);
//   dropping the Drain resets count to 0 and leaves the slots alone.
pub fn c16_drain_contract_body(cap: usize, count: usize, s0: u64, s1: u64, s2: u64, s3: u64) {
    kani::assume(cap <= MAXCAP);
    let s = [s0, s1, s2, s3];
    match cap {
        0 => drain_contract_at(0, count, s),
        1 => drain_contract_at(1, count, s),
        2 => drain_contract_at(2, count, s),
        3 => drain_contract_at(3, count, s),
        _ => drain_contract_at(4, count, s),
    }
}
#[inline(never)]
fn drain_contract_at(cap: usize, count: usize, s: [u64; MAXCAP]) {
    let r = mk(cap, count, s);
    let expect = if count < cap { count } else { cap };
    {
        let mut d = r.drain();
        assert!(d.len() == expect, "C16 drain: yields min(pushed, capacity) values");
        assert!(d.len() <= cap);
        let rate = d.sample_rate();
        // drain() hands sample_rate exactly (yielded, pushed): c16_rate_and_reset proves rate == yielded / pushed from these
        // two fields for every pair of usize values (modular composition; the quotient itself is not re-proved here)
        assert!(d.len == expect && d.unsampled_len == count && d.idx == 0, "C16 drain: Drain carries (yielded, pushed)");
        if count <= cap {
            assert!(rate == 1.0, "C16 drain: all values retained => rate 1");
        }
        let mut i = 0;
        while i < expect {
            let x = d.next();
            assert!(x.is_some());
            assert!(x.unwrap().to_bits() == s[i], "C16 drain: i-th item is slot i, bit-exact");
            assert!(d.len() == expect - i - 1);
            i += 1;
        }
        assert!(d.next().is_none(), "C16 drain: never more than min(pushed, capacity) values");
        assert!(d.next().is_none());
        assert!(d.len() == 0);
        // the count is only reset when the Drain is dropped
        assert!(r.count.load(Relaxed) == count);
    }
    assert!(r.count.load(Relaxed) == 0, "C16 drain: Drain::drop resets the push count => next drain starts empty");
    {
        let mut d2 = r.drain();
        assert!(d2.len() == 0 && d2.next().is_none(), "C16 drain: a drain right after a drain is empty");
        assert!(d2.sample_rate() == 1.0);
    }
    let mut i = 0;
    while i < cap {
        assert!(r.values[i].load(Relaxed) == s[i]);
        i += 1;
    }
    kani::cover!(cap == 0 && count > 0);
    kani::cover!(cap == MAXCAP && count == 2);
    kani::cover!(cap == MAXCAP && count == cap);
    kani::cover!(cap == 3 && count == usize::MAX);
}
#[cfg(kani)]
#[kani::proof]
#[kani::unwind(6)]
fn c16_drain_contract() {
    c16_drain_contract_body(kani::any(), kani::any(), kani::any(), kani::any(), kani::any(), kani::any());
}

// ------------------------------------------------------------------------------------------------
// Drain::sample_rate / Drain::drop for EVERY (pushed, capacity) pair in usize x usize -- these two touch only the
// Drain's own fields and `count`, so the Drain is built with the field values `drain()` computes (previous contract)
// over a zero-slot reservoir: complete, no capacity bound.
pub fn c16_rate_and_reset_body(count: usize, cap: usize, taken: usize) {
    let r = Reservoir::with_capacity(0);
    r.count.store(count, Relaxed);
    let yielded = if count > cap { cap } else { count };
    // `taken` values have already been pulled out of the drain: the reported sample rate is a property of the drain, not of how
    // far the caller has iterated ("values yielded divided by values pushed since the previous drain")
    if taken > yielded { return; }
    {
        let d = Drain { reservoir: &r, unsampled_len: count, len: yielded, idx: taken };
        let rate = d.sample_rate();
        if count <= cap {
            assert!(rate == 1.0);
        } else {
            // values yielded divided by values pushed since the previous drain
            assert!(rate.to_bits() == ((yielded as f64) / (count as f64)).to_bits(), "C16 sample_rate == yielded / pushed");
            assert!(rate <= 1.0 && rate >= 0.0);
            assert!(cap == 0 || rate > 0.0);
        }
        assert!(ExactSizeIterator::len(&d) == yielded - taken);
        kani::cover!(count > cap && cap > 0 && rate < 0.5);
        kani::cover!(count == 0);
    }
    assert!(r.count.load(Relaxed) == 0, "C16 Drain::drop resets count");
}
// solver: proving two 53-bit float dividers equivalent takes CaDiCaL > 10 min; cvc5 does it in seconds
#[cfg(kani)]
#[kani::proof]
#[kani::solver(cvc5)]
fn c16_rate_and_reset() {
    c16_rate_and_reset_body(kani::any(), kani::any(), kani::any());
}

// ------------------------------------------------------------------------------------------------
// "The next drain starts from empty" also when pushes raced this drain: a pusher that loaded `use_primary` before the swap lands
// its `late` pushes on the retired side after `drain()` read the count. Whatever `late` is, the side must be empty (count == 0)
// once the Drain is dropped -- otherwise a later drain of this side yields values that were already reported.
// One interleaving class (late pushes strictly between drain() and Drain::drop), every (pushed, late, capacity): complete for it.
pub fn c16_drop_after_late_push_body(count: usize, late: usize, cap: usize) {
    if late > usize::MAX - count { return; }
    let r = Reservoir::with_capacity(0);
    r.count.store(count + late, Relaxed);
    let yielded = if count > cap { cap } else { count };
    {
        let _d = Drain { reservoir: &r, unsampled_len: count, len: yielded, idx: 0 };
    }
    assert!(r.count.load(Relaxed) == 0, "C16 the next drain starts from empty: Drain::drop leaves count == 0 even after late pushes");
}
#[cfg(kani)]
#[kani::proof]
fn c16_drop_after_late_push() {
    c16_drop_after_late_push_body(kani::any(), kani::any(), kani::any());
}

// ------------------------------------------------------------------------------------------------
// Two push/drain cycles on one Reservoir, straight from the statement (capacity <= 2, <= cap+2 pushes per cycle,
// all values / draws symbolic).  Cycle-1 values are a[..], cycle-2 values b[..].
#[cfg(kani)]
fn among(x: u64, vals: &[u64; 4], n: usize) -> bool {
    let mut j = 0;
    let mut hit = false;
    while j < n {
        if vals[j] == x { hit = true; }
        j += 1;
    }
    hit
}
#[cfg(kani)]
fn cycle(r: &Reservoir, cap: usize, vals: &[u64; 4], n: usize) {
    let mut j = 0;
    while j < n {
        r.push(f64::from_bits(vals[j]));
        j += 1;
    }
    let mut d = r.drain();
    let expect = if n < cap { n } else { cap };
    assert!(d.len() == expect, "C16 cycle: never more than capacity, all when <= capacity pushed");
    if n > 0 {
        assert!(d.sample_rate() == (expect as f64) / (n as f64), "C16 cycle: rate == yielded / pushed since previous drain");
    }
    let mut k = 0;
    while k < expect {
        let x = d.next().unwrap().to_bits();
        if n <= cap {
            assert!(x == vals[k], "C16 cycle: <= capacity pushed => exactly the pushed values, in order");
        } else {
            assert!(among(x, vals, n), "C16 cycle: only values pushed since the previous drain are yielded");
        }
        k += 1;
    }
    assert!(d.next().is_none());
}
#[cfg(kani)]
#[kani::proof]
#[kani::unwind(6)]
#[kani::stub(fastrand, ghost::fastrand_stub)]
fn c16_cycles() {
    let cap: usize = kani::any();
    let n1: usize = kani::any();
    let n2: usize = kani::any();
    kani::assume(cap <= 2 && n1 <= cap + 2 && n2 <= cap + 2);
    let a: [u64; 4] = kani::any();
    let b: [u64; 4] = kani::any();
    let r = match cap {
        0 => Reservoir::with_capacity(0),
        1 => Reservoir::with_capacity(1),
        _ => Reservoir::with_capacity(2),
    };
    assert!(r.values.len() == cap);
    cycle(&r, cap, &a, n1);
    cycle(&r, cap, &b, n2);
    // third drain without pushes: empty
    let mut d = r.drain();
    assert!(d.len() == 0 && d.next().is_none(), "C16 cycle: next drain starts from empty");
    kani::cover!(cap == 2 && n1 == 4 && n2 == 1);
    kani::cover!(cap == 0 && n1 == 2);
    kani::cover!(cap == 1 && n1 == 3 && n2 == 3);
}

// ------------------------------------------------------------------------------------------------
// AtomicSamplingReservoir: consume swaps the active side under the mutex and drains the retired one.
// (size <= 2, <= size+1 pushes per cycle, three consumes so that each side is drained after having been drained.)
#[cfg(kani)]
struct Seen {
    n: usize,
    rate: f64,
    v: [u64; 2],
}
#[cfg(kani)]
fn consume_into(a: &AtomicSamplingReservoir, inject: Option<u64>) -> Seen {
    let mut seen = Seen { n: 0, rate: 0.0, v: [0; 2] };
    let mut calls = 0u32;
    a.consume(|mut d| {
        calls += 1;
        seen.n = d.len();
        seen.rate = d.sample_rate();
        // a push arriving WHILE the drain is in progress and the swap mutex is held: must not block, must not
        // disturb the drain, must be reported by the next consume
        if let Some(x) = inject {
            a.push(f64::from_bits(x));
        }
        let mut k = 0;
        while let Some(x) = d.next() {
            assert!(k < 2);
            seen.v[k] = x.to_bits();
            k += 1;
        }
        assert!(k == seen.n);
    });
    assert!(calls == 1, "C16 consume: closure called exactly once");
    seen
}
#[cfg(kani)]
#[kani::proof]
#[kani::unwind(5)]
#[kani::stub(fastrand, ghost::fastrand_stub)]
fn c16_atomic_consume() {
    let size: usize = kani::any();
    let n1: usize = kani::any();
    let n2: usize = kani::any();
    kani::assume(size <= 2 && n1 <= size + 1 && n2 <= size);
    let a: [u64; 3] = kani::any();
    let b: [u64; 3] = kani::any();
    let x: u64 = kani::any();
    let asr = match size {
        0 => AtomicSamplingReservoir::new(0),
        1 => AtomicSamplingReservoir::new(1),
        _ => AtomicSamplingReservoir::new(2),
    };
    assert!(asr.primary.values.len() == size && asr.secondary.values.len() == size);
    assert!(asr.is_empty());
    assert!(asr.use_primary.load(Relaxed));

    let mut j = 0;
    while j < n1 {
        asr.push(f64::from_bits(a[j]));
        j += 1;
    }
    assert!(asr.is_empty() == (n1 == 0));
    assert!(asr.primary.count.load(Relaxed) == n1 && asr.secondary.count.load(Relaxed) == 0, "C16 push goes to the active side");

    // consume #1 drains primary (cycle-1 values); x is pushed during the drain
    let s1 = consume_into(&asr, Some(x));
    let e1 = if n1 < size { n1 } else { size };
    assert!(s1.n == e1, "C16 consume: min(pushed, size) values");
    if n1 > 0 {
        assert!(s1.rate == (e1 as f64) / (n1 as f64));
    }
    let mut k = 0;
    while k < e1 {
        if n1 <= size {
            assert!(s1.v[k] == a[k]);
        } else {
            assert!(s1.v[k] == a[0] || s1.v[k] == a[1] || s1.v[k] == a[2]);
        }
        k += 1;
    }
    assert!(!asr.use_primary.load(Relaxed), "C16 consume: sides swapped");
    assert!(asr.primary.count.load(Relaxed) == 0, "C16 consume: retired side reset");
    assert!(asr.secondary.count.load(Relaxed) == 1, "C16 push during drain lands in the new active side");

    // cycle 2: x (pushed during drain #1) then b[..n2]; n2 + 1 <= size + 1
    let mut j = 0;
    while j < n2 {
        asr.push(f64::from_bits(b[j]));
        j += 1;
    }
    assert!(!asr.is_empty());
    let s2 = consume_into(&asr, None);
    let p2 = n2 + 1;
    let e2 = if p2 < size { p2 } else { size };
    assert!(s2.n == e2);
    assert!(s2.rate == (e2 as f64) / (p2 as f64));
    let mut k = 0;
    while k < e2 {
        let y = s2.v[k];
        if p2 <= size {
            assert!(y == if k == 0 { x } else { b[k - 1] }, "C16 consume: cycle-2 values in order, none from cycle 1");
        } else {
            assert!(y == x || y == b[0] || y == b[1]);
        }
        k += 1;
    }
    assert!(asr.use_primary.load(Relaxed));
    assert!(asr.is_empty());

    // consume #3 (no pushes): primary again, drained before => must be empty
    let s3 = consume_into(&asr, None);
    assert!(s3.n == 0, "C16 consume: the next drain starts from empty");
    assert!(asr.primary.count.load(Relaxed) == 0 && asr.secondary.count.load(Relaxed) == 0);

    kani::cover!(size == 2 && n1 == 3 && n2 == 2);
    kani::cover!(size == 0 && n1 == 1);
    kani::cover!(size == 2 && n1 == 1 && n2 == 0);
}
