// C16 -- "when more values than the capacity are pushed, every position of the input stream is retained with the same
// probability capacity/n".  Spec-level model of Algorithm R whose single step is EXACTLY the contract of Reservoir::push
// that Kani checks on the real code (contracts/C16/reservoir.kani.rs, c16_push_contract):
//     the n-th item (idx = n-1 >= c) draws r uniformly from n = idx+1 values and replaces slot r iff r < c.
// Probabilities are expressed by counting equally likely draw histories (no reals needed):
//     hist(c, n)    = number of draw histories of pushes c+1..n            = (c+1)(c+2)...n
//     kept(c, i, n) = number of those after which stream position i (1-based) is still in the reservoir
// and the lemma is  kept(c,i,n) / hist(c,n) == c / n  for every 1 <= i <= n, n >= c  (unbounded, by induction on n).
use vstd::prelude::*;

verus! {

pub open spec fn hist(c: nat, n: nat) -> nat
    decreases n
{
    if n <= c { 1 } else { n * hist(c, (n - 1) as nat) }
}

pub open spec fn kept(c: nat, i: nat, n: nat) -> nat
    decreases n
{
    if n <= c {
        // filling phase (idx < capacity): every item is stored, no draw
        1
    } else if i == n {
        // push contract, sampled branch: c of the n possible draws store the new item, whatever happened before
        c * hist(c, (n - 1) as nat)
    } else {
        // item i occupies one slot s < c <= n-1; it survives the n-th push unless the draw equals s: n-1 of n draws
        ((n - 1) as nat) * kept(c, i, (n - 1) as nat)
    }
}

pub proof fn lemma_retention(c: nat, i: nat, n: nat)
    requires
        1 <= i <= n,
        c <= n,
    ensures
        kept(c, i, n) * n == c * hist(c, n),
    decreases n
{
    if n <= c {
        assert(n == c);
        assert(kept(c, i, n) == 1 && hist(c, n) == 1);
        assert(1 * n == c * 1);
    } else if i == n {
        let h = hist(c, (n - 1) as nat);
        assert(hist(c, n) == n * h);
        assert(kept(c, i, n) == c * h);
        assert((c * h) * n == c * (n * h)) by (nonlinear_arith);
    } else {
        let m = (n - 1) as nat;
        lemma_retention(c, i, m);
        let k = kept(c, i, m);
        let h = hist(c, m);
        assert(k * m == c * h);
        assert(hist(c, n) == n * h);
        assert(kept(c, i, n) == m * k);
        assert((m * k) * n == c * (n * h)) by (nonlinear_arith)
            requires k * m == c * h;
    }
}

// no stream position is favoured: all positions have the same number of retaining histories
pub proof fn lemma_no_position_favoured(c: nat, i: nat, j: nat, n: nat)
    requires
        1 <= i <= n,
        1 <= j <= n,
        c <= n,
    ensures
        kept(c, i, n) == kept(c, j, n),
{
    lemma_retention(c, i, n);
    lemma_retention(c, j, n);
    assert(kept(c, i, n) == kept(c, j, n)) by (nonlinear_arith)
        requires kept(c, i, n) * n == kept(c, j, n) * n, n >= 1;
}

fn main() {}

} // verus!
