// Hand-derived from the drain contract of the sampling reservoir ("a drain yields only values pushed since the previous drain,
// never more than its capacity, all of them when no more than capacity were pushed; the sample rate it reports equals values
// yielded divided by values pushed since the previous drain -- whenever it is read; the next drain starts from empty"):
// concrete runs through the public API of the real crate.
use super::*;

#[test]
fn drains_report_true_counts_and_rates_whenever_read() {
    for cap in [1usize, 2, 4, 7] {
        for pushed in [0usize, 1, 2, 4, 5, 16, 33] {
            let r = AtomicSamplingReservoir::new(cap);
            // two rounds: the second must not see anything of the first
            for round in 0..2 {
                for i in 0..pushed { r.push((round * 1000 + i) as f64); }
                let mut seen = Vec::new();
                let mut rates = Vec::new();
                r.consume(|mut drain| {
                    rates.push(drain.sample_rate());
                    while let Some(v) = drain.next() {
                        seen.push(v);
                        rates.push(drain.sample_rate());       // the rate is a property of the drain, not of how far it was read
                    }
                    rates.push(drain.sample_rate());
                });
                let expect_len = pushed.min(cap);
                assert_eq!(seen.len(), expect_len, "cap {cap}, pushed {pushed}, round {round}");
                for v in &seen {
                    let i = *v as usize;
                    assert!(i >= round * 1000 && i < round * 1000 + pushed, "value {v} was not pushed since the previous drain");
                }
                let want = if pushed == 0 { 1.0 } else { expect_len as f64 / pushed as f64 };
                for rate in &rates { assert_eq!(*rate, want, "cap {cap}, pushed {pushed}, round {round}: rates {rates:?}"); }
            }
            // nothing pushed: an empty drain
            let mut n = 0usize;
            r.consume(|drain| n = drain.count());
            assert_eq!(n, 0, "cap {cap}, pushed {pushed}: the next drain starts from empty");
        }
    }
}
