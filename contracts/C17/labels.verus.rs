// C17 — Verus contracts for metrics-tracing-context: how span fields are merged (Labels::extend*, the Visit impl,
// on_new_span / on_record) and how `enhance_key` combines them with the metric's own labels.
#![allow(unused_imports, dead_code, unused_variables, unused_mut)]
use vstd::prelude::*;
use std::collections::HashSet;

verus! {

global size_of usize == 8;

//@INCLUDE prelude/std_extra.rs

// ------------------------------------------------------------------ dependency stubs (ASSUMED contracts)
/// metrics::SharedString (Cow<'static, str>): an opaque value; spec equality stands for string equality
#[verifier::external_body] pub struct SharedString { _p: [u8; 0] }
pub uninterp spec fn ss(text: Seq<char>) -> SharedString;
impl SharedString {
    #[verifier::external_body] pub fn const_str(s: &'static str) -> (r: Self) ensures r == ss(s@) { unimplemented!() }
}
impl Clone for SharedString {
    #[verifier::external_body] fn clone(&self) -> (r: Self) ensures r == *self { unimplemented!() }
}
impl From<&'static str> for SharedString {
    #[verifier::external_body] fn from(s: &'static str) -> (r: Self) ensures r == ss(s@) { unimplemented!() }
}
impl From<String> for SharedString {
    #[verifier::external_body] fn from(s: String) -> (r: Self) ensures r == ss(s@) { unimplemented!() }
}

pub type Pairs = Seq<(SharedString, SharedString)>;
pub open spec fn has_name(s: Pairs, k: SharedString) -> bool { exists|i: int| 0 <= i < s.len() && (#[trigger] s[i]).0 == k }
pub open spec fn idx(s: Pairs, k: SharedString) -> int { choose|i: int| 0 <= i < s.len() && (#[trigger] s[i]).0 == k }
/// the value a label list gives to name k (meaningful when has_name(s, k))
pub open spec fn val(s: Pairs, k: SharedString) -> SharedString { s[idx(s, k)].1 }
pub open spec fn nodup(s: Pairs) -> bool { forall|i: int, j: int| 0 <= i < j < s.len() ==> (#[trigger] s[i]).0 != (#[trigger] s[j]).0 }
/// IndexMap::insert: replace in place, else append
pub open spec fn upsert(s: Pairs, k: SharedString, v: SharedString) -> Pairs {
    if has_name(s, k) { s.update(idx(s, k), (k, v)) } else { s.push((k, v)) }
}
/// IndexMap::entry(k).or_insert_with(v): keep an existing value, else append
pub open spec fn keep(s: Pairs, k: SharedString, v: SharedString) -> Pairs {
    if has_name(s, k) { s } else { s.push((k, v)) }
}
/// one merge step: overwrite == true is `upsert`, false is `keep`
pub open spec fn step(overwrite: bool, s: Pairs, k: SharedString, v: SharedString) -> Pairs {
    if overwrite { upsert(s, k, v) } else { keep(s, k, v) }
}
/// merging `es` into `s`, entry by entry in order
pub open spec fn fold(overwrite: bool, s: Pairs, es: Pairs) -> Pairs
    decreases es.len(),
{
    if es.len() == 0 { s } else { step(overwrite, fold(overwrite, s, es.drop_last()), es.last().0, es.last().1) }
}

// ------------------------------------------------------------------ lemmas: what merging means for lookups (proved, not assumed)
pub proof fn lemma_val_unique(s: Pairs, k: SharedString, i: int)
    requires nodup(s), 0 <= i < s.len(), s[i].0 == k,
    ensures has_name(s, k), idx(s, k) == i, val(s, k) == s[i].1,
{
    let j = idx(s, k);
    assert(0 <= j < s.len() && s[j].0 == k);
    if j < i { assert(s[j].0 != s[i].0); } else if i < j { assert(s[i].0 != s[j].0); }
}

/// one step: names, values, uniqueness; earlier entries keep their position
pub proof fn lemma_step(ow: bool, s: Pairs, k: SharedString, v: SharedString)
    requires nodup(s),
    ensures
        nodup(step(ow, s, k, v)),
        forall|x: SharedString| has_name(step(ow, s, k, v), x) <==> (has_name(s, x) || x == k),
        val(step(ow, s, k, v), k) == (if ow || !has_name(s, k) { v } else { val(s, k) }),
        forall|x: SharedString| x != k && has_name(s, x) ==> val(step(ow, s, k, v), x) == val(s, x),
        step(ow, s, k, v).len() >= s.len(),
        forall|i: int| 0 <= i < s.len() ==> (#[trigger] step(ow, s, k, v)[i]).0 == s[i].0,
{
    let t = step(ow, s, k, v);
    if has_name(s, k) {
        let i = idx(s, k);
        lemma_val_unique(s, k, i);
        if ow {
            assert(t == s.update(i, (k, v)));
            assert(forall|j: int| 0 <= j < s.len() ==> (#[trigger] t[j]).0 == s[j].0);
            assert(nodup(t)) by {
                assert forall|a: int, b: int| 0 <= a < b < t.len() implies (#[trigger] t[a]).0 != (#[trigger] t[b]).0 by {
                    assert(s[a].0 != s[b].0);
                }
            }
            lemma_val_unique(t, k, i);
            assert forall|x: SharedString| has_name(t, x) <==> (has_name(s, x) || x == k) by {
                if has_name(t, x) { let j = idx(t, x); assert(s[j].0 == x); }
                if has_name(s, x) { let j = idx(s, x); assert(t[j].0 == x); }
            }
            assert forall|x: SharedString| x != k && has_name(s, x) implies val(t, x) == val(s, x) by {
                let j = idx(s, x);
                lemma_val_unique(s, x, j);
                assert(j != i);
                assert(t[j] == s[j]);
                lemma_val_unique(t, x, j);
            }
        } else {
            assert(t == s);
        }
    } else {
        assert(t == s.push((k, v)));
        assert(forall|j: int| 0 <= j < s.len() ==> (#[trigger] t[j]) == s[j]);
        assert(nodup(t)) by {
            assert forall|a: int, b: int| 0 <= a < b < t.len() implies (#[trigger] t[a]).0 != (#[trigger] t[b]).0 by {
                if b < s.len() { assert(s[a].0 != s[b].0); } else { assert(t[b].0 == k); assert(t[a] == s[a]); assert(s[a].0 != k); }
            }
        }
        lemma_val_unique(t, k, s.len() as int);
        assert forall|x: SharedString| has_name(t, x) <==> (has_name(s, x) || x == k) by {
            if has_name(t, x) { let j = idx(t, x); if j < s.len() { assert(s[j].0 == x); } }
            if has_name(s, x) { let j = idx(s, x); assert(t[j].0 == x); }
        }
        assert forall|x: SharedString| x != k && has_name(s, x) implies val(t, x) == val(s, x) by {
            let j = idx(s, x);
            lemma_val_unique(s, x, j);
            assert(t[j] == s[j]);
            lemma_val_unique(t, x, j);
        }
    }
}

/// merging a whole list: the union of the names, unique again; on a shared name `es` wins iff overwrite; the receiving list's
/// entries keep their positions (new names are appended after them)
pub proof fn lemma_fold(ow: bool, s: Pairs, es: Pairs)
    requires nodup(s), nodup(es),
    ensures
        nodup(fold(ow, s, es)),
        forall|x: SharedString| has_name(fold(ow, s, es), x) <==> (has_name(s, x) || has_name(es, x)),
        forall|x: SharedString| has_name(s, x) && !has_name(es, x) ==> val(fold(ow, s, es), x) == val(s, x),
        forall|x: SharedString| !has_name(s, x) && has_name(es, x) ==> val(fold(ow, s, es), x) == val(es, x),
        forall|x: SharedString| has_name(s, x) && has_name(es, x) ==> val(fold(ow, s, es), x) == (if ow { val(es, x) } else { val(s, x) }),
        fold(ow, s, es).len() >= s.len(),
        forall|i: int| 0 <= i < s.len() ==> (#[trigger] fold(ow, s, es)[i]).0 == s[i].0,
    decreases es.len(),
{
    if es.len() == 0 {
        assert forall|x: SharedString| !has_name(es, x) by { if has_name(es, x) { let j = idx(es, x); } }
    } else {
        let e1 = es.drop_last();
        let (k, v) = es.last();
        let n = e1.len() as int;
        assert(forall|j: int| 0 <= j < n ==> (#[trigger] e1[j]) == es[j]);
        assert(nodup(e1)) by {
            assert forall|a: int, b: int| 0 <= a < b < e1.len() implies (#[trigger] e1[a]).0 != (#[trigger] e1[b]).0 by { assert(es[a].0 != es[b].0); }
        }
        lemma_fold(ow, s, e1);
        let f1 = fold(ow, s, e1);
        lemma_step(ow, f1, k, v);
        lemma_val_unique(es, k, n);
        assert(!has_name(e1, k)) by { if has_name(e1, k) { let j = idx(e1, k); assert(es[j].0 == k); assert(es[j].0 != es[n].0); } }
        assert forall|x: SharedString| has_name(es, x) <==> (has_name(e1, x) || x == k) by {
            if has_name(es, x) { let j = idx(es, x); if j < n { assert(e1[j].0 == x); } }
            if has_name(e1, x) { let j = idx(e1, x); assert(es[j].0 == x); }
        }
        assert forall|x: SharedString| x != k && has_name(e1, x) implies val(es, x) == val(e1, x) by {
            let j = idx(e1, x);
            lemma_val_unique(e1, x, j);
            lemma_val_unique(es, x, j);
        }
    }
}

/// indexmap::IndexMap<SharedString, SharedString> (dependency stub): view = entries in insertion order, names unique
#[verifier::external_body]
#[verifier::reject_recursive_types(K)]
#[verifier::reject_recursive_types(V)]
pub struct IndexMap<K, V> { _p: std::marker::PhantomData<(K, V)> }
//@ITEM file=metrics-tracing-context/src/tracing_integration.rs sel=type Map
//@END
#[verifier::reject_recursive_types(K)]
#[verifier::reject_recursive_types(V)]
pub struct IndexEntry<'a, K, V> { pub map: &'a mut IndexMap<K, V>, pub key: K }
#[verifier::external_body] pub struct MapIter<'a> { _p: std::marker::PhantomData<&'a u8> }
pub mod ix_axioms {
    use vstd::prelude::*;
    pub uninterp spec fn remaining(it: &super::MapIter<'_>) -> super::Pairs;
}
pub use ix_axioms::remaining;
impl IndexMap<SharedString, SharedString> {
    pub uninterp spec fn view(&self) -> Pairs;
    /// ASSUMED (indexmap invariant): names are unique
    #[verifier::external_body]
    pub proof fn axiom_nodup(&self) ensures nodup(self@) { }
    #[verifier::external_body] pub fn len(&self) -> (n: usize) ensures n == self@.len() { unimplemented!() }
    #[verifier::external_body] pub fn is_empty(&self) -> (b: bool) ensures b == (self@.len() == 0) { unimplemented!() }
    #[verifier::external_body] pub fn contains_key(&self, k: &SharedString) -> (b: bool) ensures b == has_name(self@, *k) { unimplemented!() }
    #[verifier::external_body]
    pub fn get(&self, k: &SharedString) -> (r: Option<&SharedString>)
        ensures r is Some <==> has_name(self@, *k), r is Some ==> *r->Some_0 == val(self@, *k),
    { unimplemented!() }
    #[verifier::external_body] pub fn reserve(&mut self, additional: usize) ensures final(self)@ == old(self)@ { unimplemented!() }
    #[verifier::external_body]
    pub fn insert(&mut self, key: SharedString, value: SharedString) -> (r: Option<SharedString>)
        ensures final(self)@ == upsert(old(self)@, key, value),
    { unimplemented!() }
    #[verifier::external_body]
    pub fn entry(&mut self, key: SharedString) -> (e: IndexEntry<'_, SharedString, SharedString>)
        ensures e.key == key, *e.map == *old(self), *final(self) == *final(e.map),
    { unimplemented!() }
}
impl<'a> IndexEntry<'a, SharedString, SharedString> {
    #[verifier::external_body]
    pub fn or_insert_with<F: FnOnce() -> SharedString>(self, default: F) -> (r: &'a mut SharedString)
        requires !has_name(old(self.map)@, self.key) ==> default.requires(()),
        ensures
            has_name(old(self.map)@, self.key) ==> (*final(self.map))@ == old(self.map)@,
            !has_name(old(self.map)@, self.key) ==> exists|v: SharedString| default.ensures((), v) && (*final(self.map))@ == old(self.map)@.push((self.key, v)),
    { unimplemented!() }
}
// R2: `for (k, v) in &map` -> loop over shim_map_iter / shim_map_next (entries in insertion order, each once)
#[verifier::external_body]
pub fn shim_map_iter<'a>(m: &'a Map) -> (it: MapIter<'a>) ensures remaining(&it) == m@ { unimplemented!() }
#[verifier::external_body]
pub fn shim_map_next<'a>(it: &mut MapIter<'a>) -> (r: Option<(&'a SharedString, &'a SharedString)>)
    ensures match r {
        Some(x) => remaining(old(it)).len() > 0 && (*x.0, *x.1) == remaining(old(it))[0] && remaining(final(it)) == remaining(old(it)).skip(1),
        None => remaining(old(it)).len() == 0 && remaining(final(it)) == remaining(old(it)),
    },
{ unimplemented!() }

/// lockfree_object_pool::LinearOwnedReusable<T>: a pooled T, used through Deref/DerefMut
pub struct LinearOwnedReusable<T> { pub inner: T }
impl<T> std::ops::Deref for LinearOwnedReusable<T> {
    type Target = T;
    fn deref(&self) -> (r: &T) ensures *r == self.inner { &self.inner }
}
impl<T> std::ops::DerefMut for LinearOwnedReusable<T> {
    fn deref_mut(&mut self) -> (r: &mut T) ensures *r == old(self).inner, *final(r) == final(self).inner { &mut self.inner }
}
// R27: `cmp::max(a, b)` on usize -> shim_max (std::cmp::max is generic over Ord; no vstd specification)
pub fn shim_max(a: usize, b: usize) -> (r: usize) ensures r == if a >= b { a } else { b } { if a >= b { a } else { b } }

//@ITEM file=metrics-tracing-context/src/tracing_integration.rs sel=struct Labels
//@END

impl Labels {
    pub open spec fn view(&self) -> Pairs { self.0.inner@ }

// R9-like: `impl AsRef<Map> for Labels` verified as an inherent method
//@ITEM file=metrics-tracing-context/src/tracing_integration.rs sel=impl AsRef<Map> for Labels :: fn as_ref ret=r
//@SPEC
    ensures *r == self.0.inner,
//@END

/// `f` performs merge step `overwrite` on whatever map it is handed
#[verifier::prophetic]
pub open spec fn obeys<F: Fn(&mut Map, &SharedString, &SharedString)>(f: F, overwrite: bool) -> bool {
    forall|m: &mut Map, k: &SharedString, v: &SharedString| #[trigger] f.ensures((m, k, v), ()) ==> (*final(m))@ == step(overwrite, (*m)@, *k, *v)
}

//@ITEM file=metrics-tracing-context/src/tracing_integration.rs sel=impl Labels :: fn extend
//@REWRITE R27? cmp::max( ==> shim_max(
//@FORLOOP 1 it shim_map_iter shim_map_next
//@SPEC
    requires forall|m: &mut Map, k: &SharedString, v: &SharedString| f.requires((m, k, v)),
    ensures
        // `f` is applied to every entry of `other`, in order, on this map -- whatever step `f` performs
        forall|ow: bool| Self::obeys(f, ow) ==> final(self)@ == #[trigger] fold(ow, old(self)@, other@),
//@BEFORE 1 f(&mut self.0
            let ghost n0 = other@.len() - remaining(&it).len() - 1;
            let ghost m0 = self@;
            proof {
                assert(other@[n0] == (*k, *v));
                assert(other@.take(n0 + 1).drop_last() =~= other@.take(n0));
                assert(other@.take(n0 + 1).last() == (*k, *v));
            }
//@AFTER 1 f(&mut self.0
            proof {
                assert forall|ow: bool| Self::obeys(f, ow) implies self@ == #[trigger] fold(ow, old(self)@, other@.take(n0 + 1)) by {
                    assert(self@ == step(ow, m0, *k, *v));
                    assert(m0 == fold(ow, old(self)@, other@.take(n0 as int)));
                    assert(other@.take(n0 + 1).len() > 0);
                }
            }
//@AFTERLOOP 1
        proof { assert(other@.take(other@.len() as int) =~= other@); }
//@LOOP 1
        invariant
            forall|m: &mut Map, k: &SharedString, v: &SharedString| f.requires((m, k, v)),
            remaining(&it).len() <= other@.len(),
            remaining(&it) == other@.skip(other@.len() - remaining(&it).len()),
            forall|ow: bool| Self::obeys(f, ow) ==> self@ == #[trigger] fold(ow, old(self)@, other@.take(other@.len() - remaining(&it).len())),
        ensures remaining(&it).len() == 0,
        decreases remaining(&it).len(),
//@END

// SPEC-closure: each merge closure is annotated with the step the property demands of it (inner span keeps its own value /
// a later record() replaces the earlier value); the inner `|| v.clone()` with "the result is v"
//@ITEM file=metrics-tracing-context/src/tracing_integration.rs sel=impl Labels :: fn extend_from_labels
//@REWRITE SPEC-closure re:\|(\w+), (\w+), (\w+)\| \{ ==> |\1: &mut Map, \2: &SharedString, \3: &SharedString| ensures final(\1)@ == keep(old(\1)@, *\2, *\3) {
//@IF file=metrics-tracing-context/src/tracing_integration.rs sel=impl Labels :: fn extend_from_labels contains=or_insert_with(
//@REWRITE SPEC-closure re:\|\| (\w+)\.clone\(\) ==> || -> (r: SharedString) ensures r == *\1 { \1.clone() }
//@ENDIF
//@SPEC
    ensures
        final(self)@ == fold(false, old(self)@, other@),
        // in lookup terms: the union of the names, still unique; a name this list already had keeps ITS value (inner span wins
        // over outer), the other names take the value from `other`; own entries keep their positions
        nodup(final(self)@),
        forall|x: SharedString| has_name(final(self)@, x) <==> (has_name(old(self)@, x) || has_name(other@, x)),
        forall|x: SharedString| has_name(old(self)@, x) ==> val(final(self)@, x) == val(old(self)@, x),
        forall|x: SharedString| !has_name(old(self)@, x) && has_name(other@, x) ==> val(final(self)@, x) == val(other@, x),
//@BODYEND
        proof { old(self).0.inner.axiom_nodup(); other.0.inner.axiom_nodup(); lemma_fold(false, old(self)@, other@); }
//@END

//@ITEM file=metrics-tracing-context/src/tracing_integration.rs sel=impl Labels :: fn extend_from_labels_overwrite
//@REWRITE SPEC-closure re:\|(\w+), (\w+), (\w+)\| \{ ==> |\1: &mut Map, \2: &SharedString, \3: &SharedString| ensures final(\1)@ == upsert(old(\1)@, *\2, *\3) {
//@SPEC
    ensures
        final(self)@ == fold(true, old(self)@, other@),
        // in lookup terms: every name of `other` now has other's value (a later record() replaces), the rest is untouched
        nodup(final(self)@),
        forall|x: SharedString| has_name(final(self)@, x) <==> (has_name(old(self)@, x) || has_name(other@, x)),
        forall|x: SharedString| has_name(other@, x) ==> val(final(self)@, x) == val(other@, x),
        forall|x: SharedString| has_name(old(self)@, x) && !has_name(other@, x) ==> val(final(self)@, x) == val(old(self)@, x),
//@BODYEND
        proof { old(self).0.inner.axiom_nodup(); other.0.inner.axiom_nodup(); lemma_fold(true, old(self)@, other@); }
//@END
}

// ------------------------------------------------------------------ tracing-core / tracing-subscriber stubs (ASSUMED contracts)
#[verifier::external_body] pub struct Field { _p: [u8; 0] }
impl Field {
    pub uninterp spec fn spec_name(&self) -> Seq<char>;
    #[verifier::external_body] pub fn name(&self) -> (r: &'static str) ensures r@ == self.spec_name() { unimplemented!() }
}
pub mod itoa {
    use vstd::prelude::*;
    pub trait Integer: Sized { spec fn dec(&self) -> Seq<char>; }
    impl Integer for i64 { uninterp spec fn dec(&self) -> Seq<char>; }
    impl Integer for u64 { uninterp spec fn dec(&self) -> Seq<char>; }
    #[verifier::external_body] pub struct Buffer { _p: [u8; 0] }
    impl Buffer {
        #[verifier::external_body] pub fn new() -> Buffer { unimplemented!() }
        /// ASSUMED: the decimal text of the value
        #[verifier::external_body] pub fn format<I: Integer>(&mut self, v: I) -> (r: &str) ensures r@ == v.dec() { unimplemented!() }
    }
}
pub open spec fn bool_text(b: bool) -> Seq<char> { if b { "true"@ } else { "false"@ } }

impl Labels {
// `impl Visit for Labels`: each record_* callback verified as an inherent method (R9-like: external trait)
//@ITEM file=metrics-tracing-context/src/tracing_integration.rs sel=impl Visit for Labels :: fn record_str
//@REWRITE R18 re:insert\((.+?)\.into\(\), (.+)\.into\(\)\); ==> insert(SharedString::from(\1), SharedString::from(\2));
//@SPEC
    ensures final(self)@ == upsert(old(self)@, ss(field.spec_name()), ss(value@)),
//@END
//@ITEM file=metrics-tracing-context/src/tracing_integration.rs sel=impl Visit for Labels :: fn record_bool
//@REWRITE R18 re:insert\((.+?)\.into\(\), (.+)\.into\(\)\); ==> insert(SharedString::from(\1), SharedString::from(\2));
//@SPEC
    ensures final(self)@ == upsert(old(self)@, ss(field.spec_name()), ss(bool_text(value))),
//@END
//@ITEM file=metrics-tracing-context/src/tracing_integration.rs sel=impl Visit for Labels :: fn record_i64
//@REWRITE R18 re:insert\((.+?)\.into\(\), (.+)\.into\(\)\); ==> insert(SharedString::from(\1), SharedString::from(\2));
//@SPEC
    ensures final(self)@ == upsert(old(self)@, ss(field.spec_name()), ss(itoa::Integer::dec(&value))),
//@END
//@ITEM file=metrics-tracing-context/src/tracing_integration.rs sel=impl Visit for Labels :: fn record_u64
//@REWRITE R18 re:insert\((.+?)\.into\(\), (.+)\.into\(\)\); ==> insert(SharedString::from(\1), SharedString::from(\2));
//@SPEC
    ensures final(self)@ == upsert(old(self)@, ss(field.spec_name()), ss(itoa::Integer::dec(&value))),
//@END
}

/// the object pool (ASSUMED: lockfree-object-pool hands out maps that are empty -- fresh `Map::new` or reset by `Map::clear`)
#[verifier::external_body] pub struct Pool { _p: [u8; 0] }
impl Pool {
    #[verifier::external_body]
    pub fn pull_owned(&self) -> (r: LinearOwnedReusable<Map>) ensures r.inner@ == Seq::<(SharedString, SharedString)>::empty() { unimplemented!() }
}
#[verifier::external_body] pub fn get_pool() -> &'static Pool { unimplemented!() }

#[verifier::external_body] pub struct ValueSet<'a> { _p: std::marker::PhantomData<&'a u8> }
#[verifier::external_body] pub struct Attributes<'a> { _p: std::marker::PhantomData<&'a u8> }
#[verifier::external_body] pub struct Record<'a> { _p: std::marker::PhantomData<&'a u8> }
impl<'a> ValueSet<'a> {
    /// the (field name, rendered value) pairs this value set carries, in declaration order
    pub uninterp spec fn fields(&self) -> Pairs;
}
impl<'a> Attributes<'a> {
    pub uninterp spec fn spec_values(&self) -> ValueSet<'a>;
    #[verifier::external_body] pub fn values(&self) -> (r: &ValueSet<'a>) ensures *r == self.spec_values() { unimplemented!() }
}
impl<'a> Record<'a> {
    pub uninterp spec fn fields(&self) -> Pairs;
    #[verifier::external_body] pub fn new(values: &'a ValueSet<'a>) -> (r: Record<'a>) ensures r.fields() == values.fields() { unimplemented!() }
    /// ASSUMED (tracing-core): every field is visited once, in order, through the matching record_* callback -- each of which
    /// is an upsert of (name, rendered value) (proved above for str/bool/i64/u64)
    #[verifier::external_body]
    pub fn record(&self, visitor: &mut Labels) ensures final(visitor)@ == fold(true, old(visitor)@, self.fields()) { unimplemented!() }
}
#[verifier::external_body] pub struct Id { _p: [u8; 0] }
#[verifier::external_body] pub struct SpanRef<'a> { _p: std::marker::PhantomData<&'a u8> }
#[verifier::external_body] pub struct Context<'a> { _p: std::marker::PhantomData<&'a u8> }
#[verifier::external_body] pub struct Extensions<'a> { _p: std::marker::PhantomData<&'a u8> }
#[verifier::external_body] pub struct ExtensionsMut<'a> { _p: std::marker::PhantomData<&'a u8> }
impl<'a> Context<'a> {
    pub uninterp spec fn spec_span(&self, id: &Id) -> Option<SpanRef<'a>>;
    #[verifier::external_body] pub fn span(&self, id: &Id) -> (r: Option<SpanRef<'a>>) ensures r == self.spec_span(id) { unimplemented!() }
    /// the span entered on this thread right now (in general NOT the parent of a span being created)
    pub uninterp spec fn spec_current(&self) -> Option<SpanRef<'a>>;
    #[verifier::external_body] pub fn lookup_current(&self) -> (r: Option<SpanRef<'a>>) ensures r == self.spec_current() { unimplemented!() }
}
impl<'a> SpanRef<'a> {
    pub uninterp spec fn spec_parent(&self) -> Option<SpanRef<'a>>;
    /// the Labels extension currently stored on this span
    pub uninterp spec fn stored(&self) -> Option<Pairs>;
    /// which Labels value the caller allows to be stored on this span now (fixed by the `requires` of the function under proof:
    /// turns "what ends up on the span" into an obligation at the storing call)
    pub uninterp spec fn admits(&self, l: Pairs) -> bool;
    #[verifier::external_body] pub fn parent(&self) -> (r: Option<SpanRef<'a>>) ensures r == self.spec_parent() { unimplemented!() }
    #[verifier::external_body] pub fn extensions(&self) -> (r: Extensions<'_>) ensures r.owner() == *self { unimplemented!() }
    #[verifier::external_body] pub fn extensions_mut(&self) -> (r: ExtensionsMut<'_>) ensures r.owner() == *self { unimplemented!() }
}
impl<'a> Extensions<'a> {
    pub uninterp spec fn owner(&self) -> SpanRef<'a>;
    #[verifier::external_body]
    pub fn get<T>(&self) -> (r: Option<&Labels>)
        ensures r is Some <==> self.owner().stored() is Some, r is Some ==> r->Some_0@ == self.owner().stored()->Some_0,
    { unimplemented!() }
}
impl<'a> ExtensionsMut<'a> {
    pub uninterp spec fn owner(&self) -> SpanRef<'a>;
    #[verifier::external_body]
    pub fn insert(&mut self, val: Labels) -> (r: Option<Labels>)
        requires old(self).owner().admits(val@),
        ensures final(self).owner() == old(self).owner(),
    { unimplemented!() }
    #[verifier::external_body]
    pub fn get_mut<T>(&mut self) -> (r: Option<&mut Labels>)
        ensures r is Some <==> old(self).owner().stored() is Some, r is Some ==> (*r->Some_0)@ == old(self).owner().stored()->Some_0,
            final(self).owner() == old(self).owner(),
    { unimplemented!() }
}
pub open spec fn no_labels() -> Pairs { Seq::<(SharedString, SharedString)>::empty() }
/// what a new span must carry: its own fields, then -- for names it does not have itself -- what its parent carries now
pub open spec fn expected_new(own_fields: Pairs, span: SpanRef<'_>) -> Pairs {
    let own = fold(true, no_labels(), own_fields);
    match span.spec_parent() {
        Some(p) => match p.stored() { Some(pl) => fold(false, own, pl), None => own },
        None => own,
    }
}

impl Labels {
// `impl Default for Labels` verified as an inherent associated function
//@ITEM file=metrics-tracing-context/src/tracing_integration.rs sel=impl Default for Labels :: fn default ret=r
//@SPEC
    ensures r@ == no_labels(),
//@END
//@ITEM file=metrics-tracing-context/src/tracing_integration.rs sel=impl Labels :: fn from_record ret=r
//@SPEC
    ensures r@ == fold(true, no_labels(), record.fields()),
//@END
}

#[verifier::external_body] pub struct MetricsLayer { _p: [u8; 0] }
impl MetricsLayer {
// `impl<S> Layer<S> for MetricsLayer`: callbacks verified as inherent methods over the stub Context (R28: `Context<'_, S>` ->
// `Context<'_>`, `get::<Labels>` keeps its turbofish)
//@ITEM file=metrics-tracing-context/src/tracing_integration.rs sel=impl<S> Layer<S> for MetricsLayer.* :: fn on_new_span
//@REWRITE R28 Context<'_, S> ==> Context<'_>
//@SPEC
    requires
        cx.spec_span(id) is Some,       // tracing-subscriber calls on_new_span after the registry created the span
        // the only Labels value that may be stored on the new span: own fields, parent's for the other names
        forall|l: Pairs| #[trigger] cx.spec_span(id)->Some_0.admits(l) <==> l == expected_new(attrs.spec_values().fields(), cx.spec_span(id)->Some_0),
//@END
//@ITEM file=metrics-tracing-context/src/tracing_integration.rs sel=impl<S> Layer<S> for MetricsLayer.* :: fn on_record
//@REWRITE R28 Context<'_, S> ==> Context<'_>
//@SPEC
    requires
        cx.spec_span(id) is Some,
        // a span that carries no Labels yet may only receive exactly the recorded fields
        forall|l: Pairs| #[trigger] cx.spec_span(id)->Some_0.admits(l) <==> (cx.spec_span(id)->Some_0.stored() is None && l == fold(true, no_labels(), values.fields())),
//@BEFORE 1 existing.extend_from_labels_overwrite(
            let ghost e0 = existing@;
//@AFTER 1 existing.extend_from_labels_overwrite(
            // a span that already carries Labels: every recorded field replaces the earlier value of that name, the rest stays
            assert(existing@ == fold(true, e0, fold(true, no_labels(), values.fields())));
            assert(e0 == cx.spec_span(id)->Some_0.stored()->Some_0);
//@END
}

// ------------------------------------------------------------------ enhance_key: the key handed to the inner recorder
#[verifier::external_body] pub struct KeyName { _p: [u8; 0] }
impl Clone for KeyName {
    #[verifier::external_body] fn clone(&self) -> (r: Self) ensures r == *self { unimplemented!() }
}
pub struct Label { pub k: SharedString, pub v: SharedString }
impl Label {
    pub fn new(key: SharedString, value: SharedString) -> (r: Label) ensures r.k == key, r.v == value { Label { k: key, v: value } }
    pub fn into_parts(self) -> (r: (SharedString, SharedString)) ensures r == (self.k, self.v) { (self.k, self.v) }
}
pub open spec fn pairs_of(ls: Seq<Label>) -> Pairs { ls.map_values(|l: Label| (l.k, l.v)) }
#[verifier::external_body] pub struct Key { _p: [u8; 0] }
impl Key {
    pub uninterp spec fn spec_name(&self) -> KeyName;
    pub uninterp spec fn spec_labels(&self) -> Seq<Label>;
    #[verifier::external_body] pub fn into_parts(self) -> (r: (KeyName, Vec<Label>)) ensures r.0 == self.spec_name(), r.1@ == self.spec_labels() { unimplemented!() }
    #[verifier::external_body] pub fn from_parts(name: KeyName, labels: Vec<Label>) -> (r: Key) ensures r.spec_name() == name, r.spec_labels() == labels@ { unimplemented!() }
}
impl Clone for Key {
    #[verifier::external_body] fn clone(&self) -> (r: Self) ensures r == *self { unimplemented!() }
}
/// label_filter::LabelFilter with its decision as a spec function
pub trait LabelFilter {
    spec fn admits(&self, name: &KeyName, label: &Label) -> bool;
    fn should_include_label(&self, name: &KeyName, label: &Label) -> (b: bool) ensures b == self.admits(name, label);
}
/// the entries a predicate keeps, order preserved
pub open spec fn sel(s: Pairs, p: spec_fn(SharedString, SharedString) -> bool) -> Pairs
    decreases s.len(),
{
    if s.len() == 0 { s } else if p(s.last().0, s.last().1) { sel(s.drop_last(), p).push(s.last()) } else { sel(s.drop_last(), p) }
}
pub open spec fn select(s: Pairs, keepv: Seq<bool>) -> Pairs
    decreases s.len(),
{
    if s.len() == 0 || keepv.len() != s.len() { s } else if keepv.last() { select(s.drop_last(), keepv.drop_last()).push(s.last()) } else { select(s.drop_last(), keepv.drop_last()) }
}
pub proof fn lemma_select_is_sel(s: Pairs, keepv: Seq<bool>, p: spec_fn(SharedString, SharedString) -> bool)
    requires keepv.len() == s.len(), forall|i: int| 0 <= i < s.len() ==> keepv[i] == p(s[i].0, s[i].1),
    ensures select(s, keepv) == sel(s, p),
    decreases s.len(),
{
    if s.len() > 0 { lemma_select_is_sel(s.drop_last(), keepv.drop_last(), p); }
}
pub proof fn lemma_sel(s: Pairs, p: spec_fn(SharedString, SharedString) -> bool)
    requires nodup(s),
    ensures
        nodup(sel(s, p)),
        forall|x: SharedString| has_name(sel(s, p), x) <==> (has_name(s, x) && p(x, val(s, x))),
        forall|x: SharedString| has_name(sel(s, p), x) ==> val(sel(s, p), x) == val(s, x),
    decreases s.len(),
{
    if s.len() == 0 {
        assert forall|x: SharedString| !has_name(s, x) by { if has_name(s, x) { let j = idx(s, x); } }
    } else {
        let s1 = s.drop_last();
        let (k, v) = s.last();
        let n = s1.len() as int;
        assert(forall|j: int| 0 <= j < n ==> (#[trigger] s1[j]) == s[j]);
        assert(nodup(s1)) by {
            assert forall|a: int, b: int| 0 <= a < b < s1.len() implies (#[trigger] s1[a]).0 != (#[trigger] s1[b]).0 by { assert(s[a].0 != s[b].0); }
        }
        lemma_sel(s1, p);
        let r1 = sel(s1, p);
        lemma_val_unique(s, k, n);
        assert(!has_name(s1, k)) by { if has_name(s1, k) { let j = idx(s1, k); assert(s[j].0 == k); assert(s[j].0 != s[n].0); } }
        assert forall|x: SharedString| has_name(s, x) <==> (has_name(s1, x) || x == k) by {
            if has_name(s, x) { let j = idx(s, x); if j < n { assert(s1[j].0 == x); } }
            if has_name(s1, x) { let j = idx(s1, x); assert(s[j].0 == x); }
        }
        assert forall|x: SharedString| x != k && has_name(s1, x) implies val(s, x) == val(s1, x) by {
            let j = idx(s1, x);
            lemma_val_unique(s1, x, j);
            lemma_val_unique(s, x, j);
        }
        let r = sel(s, p);
        if p(k, v) {
            // r1.push((k, v)): k is new in r1
            assert(!has_name(r1, k));
            lemma_step(false, r1, k, v);
            assert(r == step(false, r1, k, v));
        } else {
            assert(r == r1);
        }
        assert forall|x: SharedString| has_name(r, x) <==> (has_name(s, x) && p(x, val(s, x))) by {
            if x == k { assert(val(s, k) == v); } else if has_name(s1, x) { assert(val(s, x) == val(s1, x)); }
        }
        assert forall|x: SharedString| has_name(r, x) implies val(r, x) == val(s, x) by {
            if x == k { assert(val(s, k) == v); } else { assert(has_name(s1, x)); assert(val(s, x) == val(s1, x)); }
        }
    }
}

#[verifier::prophetic]
pub open spec fn verdict<F: Fn(&SharedString, &mut SharedString) -> bool>(f: F, e: (SharedString, SharedString), b: bool) -> bool {
    exists|k: &SharedString, a: &mut SharedString| *k == e.0 && *a == e.1 && *final(a) == e.1 && #[trigger] f.ensures((k, a), b)
}
impl IndexMap<SharedString, SharedString> {
    /// ASSUMED (indexmap): retain asks `f` once per entry and keeps, in order, exactly the entries it answered `true` for
    #[verifier::external_body]
    pub fn retain<F: Fn(&SharedString, &mut SharedString) -> bool>(&mut self, f: F)
        requires forall|k: &SharedString, a: &mut SharedString| f.requires((k, a)),
        ensures exists|keepv: Seq<bool>| keepv.len() == old(self)@.len() && final(self)@ == #[trigger] select(old(self)@, keepv)
            && forall|i: int| 0 <= i < keepv.len() ==> verdict(f, old(self)@[i], #[trigger] keepv[i]),
    { unimplemented!() }
}
// R30: `M.extend(LS.into_iter().map(Label::into_parts))` -> shim_extend_labels(&mut M, LS)  (ASSUMED: IndexMap::extend inserts each, in order)
#[verifier::external_body]
pub fn shim_extend_labels(m: &mut Map, ls: Vec<Label>) ensures final(m)@ == fold(true, old(m)@, pairs_of(ls@)) { unimplemented!() }
// R20: `M.into_iter().map(|(key, value)| Label::new(key, value)).collect::<Vec<_>>()` -> shim_collect_labels(M)
#[verifier::external_body]
pub fn shim_collect_labels(m: Map) -> (r: Vec<Label>) ensures pairs_of(r@) == m@ { unimplemented!() }

#[verifier::reject_recursive_types(R)]
#[verifier::reject_recursive_types(F)]
//@ITEM file=metrics-tracing-context/src/lib.rs sel=struct TracingContext
//@END

pub open spec fn admitted<F: LabelFilter>(flt: &F, name: &KeyName) -> spec_fn(SharedString, SharedString) -> bool {
    |k: SharedString, v: SharedString| flt.admits(name, &Label { k: k, v: v })
}

impl<R, F: LabelFilter> TracingContext<R, F> {
// R29: the body of the closure handed to `.then(..)` inside enhance_key, lifted to a function (captures -> parameters)
//@ITEM file=metrics-tracing-context/src/lib.rs sel=impl<R, F> TracingContext<R, F>.* :: fn enhance_key lift_after=.then(|| as=fn enhanced(&self, key: &Key, span_labels0: Map) -> Key ret=r
//@REWRITE SPEC-closure re:\|(\w+): &SharedString, (\w+): &mut SharedString\| \{ ==> |\1: &SharedString, \2: &mut SharedString| -> (b: bool) ensures b == self.label_filter.admits(&name, &Label { k: *\1, v: *old(\2) }), *final(\2) == *old(\2) {
//@REWRITE R30 re:(\w+)\.extend\((\w+)\.into_iter\(\)\.map\(Label::into_parts\)\) ==> shim_extend_labels(&mut \1, \2)
//@REWRITE R20 re:(\w+)\s*\.into_iter\(\)\s*\.map\(\|\(key, value\)\| Label::new\(key, value\)\)\s*\.collect::<Vec<_>>\(\) ==> shim_collect_labels(\1)
//@SPEC
    ensures
        r.spec_name() == key.spec_name(),
        // span labels the filter admits, then the metric's own labels written over them
        pairs_of(r.spec_labels()) == fold(true, sel(span_labels0@, admitted(&self.label_filter, &key.spec_name())), pairs_of(key.spec_labels())),
        // in lookup terms, for a metric whose own label names are distinct: no name twice; exactly the own names plus the admitted
        // span names; the metric's own label wins over a span field of the same name
        nodup(pairs_of(key.spec_labels())) ==> {
            let own = pairs_of(key.spec_labels());
            let span = span_labels0@;
            let out = pairs_of(r.spec_labels());
            &&& nodup(out)
            &&& forall|x: SharedString| has_name(out, x) <==> (has_name(own, x) || (has_name(span, x) && self.label_filter.admits(&key.spec_name(), &Label { k: x, v: val(span, x) })))
            &&& forall|x: SharedString| has_name(own, x) ==> val(out, x) == val(own, x)
            &&& forall|x: SharedString| !has_name(own, x) && has_name(out, x) ==> val(out, x) == val(span, x)
        },
//@BODYSTART
        let mut span_labels = span_labels0;
//@AFTER 1 stmt:span_labels.retain(
        proof {
            let s0 = span_labels0@;
            let p = admitted(&self.label_filter, &key.spec_name());
            // from retain's contract and the annotated closure: the verdict on every entry is the filter's decision
            assert(exists|keepv: Seq<bool>| keepv.len() == s0.len() && span_labels@ == #[trigger] select(s0, keepv)
                && forall|i: int| 0 <= i < keepv.len() ==> #[trigger] keepv[i] == p(s0[i].0, s0[i].1));
            let keepv = choose|keepv: Seq<bool>| keepv.len() == s0.len() && span_labels@ == #[trigger] select(s0, keepv)
                && forall|i: int| 0 <= i < keepv.len() ==> #[trigger] keepv[i] == p(s0[i].0, s0[i].1);
            lemma_select_is_sel(s0, keepv, p);
        }
//@BEFORE 1 Key::from_parts(name
        proof {
            let p = admitted(&self.label_filter, &key.spec_name());
            span_labels0.axiom_nodup();
            lemma_sel(span_labels0@, p);
            if nodup(pairs_of(key.spec_labels())) { lemma_fold(true, sel(span_labels0@, p), pairs_of(key.spec_labels())); }
        }
//@END
}

// ------------------------------------------------------------------ the three register_* methods of TracingContext
#[derive(Clone, Copy, PartialEq, Eq)] pub enum MKind { Counter, Gauge, Histogram }
#[verifier::external_body] pub struct Metadata<'a> { _p: core::marker::PhantomData<&'a u8> }
#[verifier::external_body] pub struct Counter { _p: [u8; 0] }
#[verifier::external_body] pub struct Gauge { _p: [u8; 0] }
#[verifier::external_body] pub struct Histogram { _p: [u8; 0] }
/// metrics::Recorder (the inner recorder): which key it may be handed for which kind is fixed by the caller's contract, so that
/// "what reaches the inner recorder" becomes an obligation at the forwarding call
pub trait Recorder {
    spec fn accepts(&self, kind: MKind, key: Key) -> bool;
    fn register_counter(&self, key: &Key, metadata: &Metadata<'_>) -> Counter requires self.accepts(MKind::Counter, *key);
    fn register_gauge(&self, key: &Key, metadata: &Metadata<'_>) -> Gauge requires self.accepts(MKind::Gauge, *key);
    fn register_histogram(&self, key: &Key, metadata: &Metadata<'_>) -> Histogram requires self.accepts(MKind::Histogram, *key);
}
impl<R: Recorder, F: LabelFilter> TracingContext<R, F> {
    /// the key enhance_key computes for `key` under the current span (None: no span / no fields / no layer) -- its construction is
    /// the contract of `enhanced` above; the dispatcher lookup around it is not modelled
    pub uninterp spec fn spec_enhance(&self, key: Key) -> Option<Key>;
    #[verifier::external_body]
    fn enhance_key(&self, key: &Key) -> (r: Option<Key>) ensures r == self.spec_enhance(*key) { unimplemented!() }
    /// the key the inner recorder must see: the enhanced key if there is one, else the caller's key unchanged
    pub open spec fn forwarded(&self, key: Key) -> Key { match self.spec_enhance(key) { Some(k) => k, None => key } }

//@ITEM file=metrics-tracing-context/src/lib.rs sel=impl<R, F> Recorder for TracingContext<R, F>.* :: fn register_counter
//@SPEC
    requires forall|k: Key| #[trigger] self.inner.accepts(MKind::Counter, k) <==> k == self.forwarded(*key),
//@END
//@ITEM file=metrics-tracing-context/src/lib.rs sel=impl<R, F> Recorder for TracingContext<R, F>.* :: fn register_gauge
//@SPEC
    requires forall|k: Key| #[trigger] self.inner.accepts(MKind::Gauge, k) <==> k == self.forwarded(*key),
//@END
//@ITEM file=metrics-tracing-context/src/lib.rs sel=impl<R, F> Recorder for TracingContext<R, F>.* :: fn register_histogram
//@SPEC
    requires forall|k: Key| #[trigger] self.inner.accepts(MKind::Histogram, k) <==> k == self.forwarded(*key),
//@END
}

// ------------------------------------------------------------------ the two shipped filters against the trait's contract
pub uninterp spec fn txt(s: SharedString) -> Seq<char>;
pub mod str_axioms {
    use vstd::prelude::*;
    use vstd::std_specs::hash::set_contains_borrowed_key;
    /// ASSUMED (std: `String: Borrow<str>` with equal hashing): looking a `&str` up in a set of Strings finds the String with that text
    pub axiom fn axiom_set_contains_str(m: Set<String>)
        ensures forall|k: &str| #[trigger] set_contains_borrowed_key::<String, str>(m, k) <==> exists|s: String| #[trigger] m.contains(s) && s@ == k@;
}
impl Label {
    #[verifier::external_body] pub fn key(&self) -> (r: &str) ensures r@ == txt(self.k) { unimplemented!() }
    #[verifier::external_body] pub fn value(&self) -> (r: &str) ensures r@ == txt(self.v) { unimplemented!() }
}
//@ITEM file=metrics-tracing-context/src/label_filter.rs sel=struct IncludeAll
//@END
//@ITEM file=metrics-tracing-context/src/label_filter.rs sel=struct Allowlist
//@END
impl LabelFilter for IncludeAll {
    open spec fn admits(&self, name: &KeyName, label: &Label) -> bool { true }
//@ITEM file=metrics-tracing-context/src/label_filter.rs sel=impl LabelFilter for IncludeAll :: fn should_include_label
//@END
}
impl LabelFilter for Allowlist {
    /// exactly the labels whose NAME is in the list (value and metric name play no role)
    closed spec fn admits(&self, name: &KeyName, label: &Label) -> bool { exists|s: String| #[trigger] self.label_names@.contains(s) && s@ == txt(label.k) }
//@ITEM file=metrics-tracing-context/src/label_filter.rs sel=impl LabelFilter for Allowlist :: fn should_include_label
//@BODYSTART
        broadcast use vstd::std_specs::hash::group_hash_axioms;
        assume(vstd::std_specs::hash::obeys_key_model::<String>());     // ASSUMED: std String hashing is a function of its text
        proof { str_axioms::axiom_set_contains_str(self.label_names@); }
//@END
}

} // verus!
fn main() {}
