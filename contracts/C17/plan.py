PLAN = {
    "property": "C17",
    "level": "proof",
    "manifest": {
        "technique": "Verus (z3) on the label-merging functions of metrics-tracing-context extracted verbatim (Labels::extend / extend_from_labels / extend_from_labels_overwrite, the Visit callbacks, Labels::from_record, MetricsLayer::on_new_span / on_record, and the body of enhance_key's key-building closure), over an assumed IndexMap contract, with the precedence statements proved as lemmas over the merge contracts",
        "text": "Claimed at the function boundaries where the precedence rules live, for all label lists, span fields and filters: (a) Labels::extend applies its step to every entry of the other list, in order; extend_from_labels keeps the value of every name the receiving (inner) span already has and adopts the parent's value only for the other names; extend_from_labels_overwrite gives every name of the recorded set its new value and leaves the rest; both keep names unique. (b) record_str/bool/i64/u64 upsert (field name, rendered value). (c) on_new_span may only store `own fields, then parent's labels for the names it lacks` on the new span; on_record replaces the recorded names' values on a span that carries labels and stores exactly the recorded fields on one that does not. (d) the key built inside enhance_key keeps the metric's name, contains every admitted span label and every own label exactly once, own label winning on a shared name.",
        "note": "ASSUMED: indexmap (insert = replace in place or append; entry().or_insert_with = keep or append; iteration in insertion order; retain keeps order; extend = insert each in order), the object pool hands out empty maps, tracing-core's Record::record visits every field once in order through the matching callback, SharedString spec-equality is string equality. The closure handed to `.then(..)` inside enhance_key is lifted to a function (captured variables become parameters; body verbatim). NOT decided: that tracing-subscriber calls on_new_span/on_record when it should and that the storing call happens at all (the contract constrains WHAT may be stored), which span is current on which thread (dispatcher/registry state), the with_labels plumbing through `&mut dyn FnMut`, record_debug (dyn Debug formatting), Allowlist::new. (f) register_counter / register_gauge / register_histogram hand the inner recorder the enhanced key if there is one, else the caller's key (obligation at the forwarding call; enhance_key's dispatcher lookup is an uninterpreted function there). (e) IncludeAll admits everything; Allowlist admits exactly the labels whose name is in its set.",
    },
    "min_obligations": {"quick": 25, "thorough": 25},
    "assumptions": [
        "indexmap::IndexMap contract as stated in the template (insert / entry.or_insert_with / iteration order / retain / extend / unique names)",
        "lockfree-object-pool: pull_owned() yields an empty map",
        "tracing-core: Record::record visits each field once, in order; Field::name is the field's name; itoa renders decimal text",
        "tracing-subscriber: on_new_span runs after the span exists; span.parent(), extensions() reflect the registry state",
        "R9-like: trait impl methods (AsRef, Default, Visit, Layer) verified as inherent methods; R28: `Context<'_, S>` -> stub `Context<'_>`; R27: cmp::max -> shim_max; R18: `.into()` -> SharedString::from",
        "std: looking up a &str in a HashSet<String> finds the String with that text; String hashing obeys the key model",
        "R29: closure body lifted to a function (enhance_key); R30/R20: IndexMap::extend(labels.map(into_parts)) and into_iter().map(Label::new).collect() -> shims with the obvious contracts",
        "storing on a span is checked at the storing call (what may be stored), not that the call happens",
    ],
    # plain test of the lifted closure's postcondition on the real crate: run when that obligation fails (replay), was demoted to
    # undecided, or could not be extracted; a FAILING witness confirms a violation, a passing one changes nothing
    "witnesses": [
        {"match": r"(Allowlist|fn register_|with_enhanced_key|label_filter)", "name": "label filters / register_*", "src": "witness_filters.rs", "crate": "metrics-tracing-context", "file": "metrics-tracing-context/src/lib.rs"},
        {"match": r"(fn on_new_span|fn on_record|MetricsLayer)", "name": "impl Layer for MetricsLayer :: fn on_new_span", "src": "witness_span_tree.rs", "crate": "metrics-tracing-context", "file": "metrics-tracing-context/src/lib.rs"},
        {"match": r"fn enhance_key", "src": "witness_enhanced.rs", "crate": "metrics-tracing-context", "file": "metrics-tracing-context/src/lib.rs"},
    ],
    "verus": [
        {"template": "labels.verus.rs", "tier": "quick", "rlimit": 40, "min_functions": 16},
    ],
}
